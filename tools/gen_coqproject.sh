#!/bin/sh
# regenerate coq/_CoqProject from the files present (no shared hand-edited list)
cd "$(dirname "$0")/../coq" || exit 1
{ echo "-Q theories Regal"; echo "-arg -w -arg -notation-overridden,-deprecated-hint-without-locality,-deprecated-instance-without-locality"; find theories -name '*.v' ! -name 'Cases_*' | LC_ALL=C sort; } > _CoqProject.new
cmp -s _CoqProject.new _CoqProject && rm _CoqProject.new || mv _CoqProject.new _CoqProject
