"""Shared machinery for the /verif checks: build of the Coq development (regenerating
Gen/*.v from /repo first), build of the Go harness against /repo's working tree,
evaluation of case files inside Coq, evidence, replays, known findings."""
import fcntl, hashlib, json, os, re, shutil, subprocess, sys, tempfile, time

VERIF = os.path.abspath(os.path.join(os.path.dirname(__file__), '..', '..'))
REPO = os.environ.get('VERIF_REPO', '/repo')
COQ = os.path.join(VERIF, 'coq')
HARNESS = os.path.join(VERIF, 'harness')
_GO124 = '/root/go/pkg/mod/golang.org/toolchain@v0.0.1-go1.24.0.linux-amd64/bin/go'
GO = _GO124 if os.path.exists(_GO124) else 'go'


def goenv():
    e = dict(os.environ)
    e.update(GOFLAGS='-mod=mod', GOPROXY='off', GOSUMDB='off', GOTOOLCHAIN='local',
             GONOSUMDB='*', GONOSUMCHECK='1', GOFLAGS_EXTRA='')
    if GO == 'go':
        e['GOTOOLCHAIN'] = 'auto'
        e.pop('GOSUMDB', None)
    return e


class SplitMix:
    """single PRNG from which every random choice of a run is derived"""
    def __init__(self, seed):
        self.s = seed & 0xFFFFFFFFFFFFFFFF

    def next(self):
        self.s = (self.s + 0x9E3779B97F4A7C15) & 0xFFFFFFFFFFFFFFFF
        z = self.s
        z = ((z ^ (z >> 30)) * 0xBF58476D1CE4E5B9) & 0xFFFFFFFFFFFFFFFF
        z = ((z ^ (z >> 27)) * 0x94D049BB133111EB) & 0xFFFFFFFFFFFFFFFF
        return z ^ (z >> 31)

    def below(self, n):
        return self.next() % n

    def choice(self, xs):
        return xs[self.below(len(xs))]

    def shuffle(self, xs):
        xs = list(xs)
        for i in range(len(xs) - 1, 0, -1):
            j = self.below(i + 1)
            xs[i], xs[j] = xs[j], xs[i]
        return xs


class Ctx:
    def __init__(self, prop, tier, seed, replay=None):
        self.prop, self.tier, self.seed, self.replay = prop, tier, seed, replay
        self.t0 = time.time()
        self.tmp = tempfile.mkdtemp(prefix='verif_%s_' % prop, dir=os.environ.get('VERIF_TMP', '/var/tmp'))
        self.rng = SplitMix(seed)
        self.violations = []      # (replay_path, suffix)
        self.known = []           # lines printed
        self.obligations = []     # theorem names under Props/<id>.v
        self.assumptions_text = ''
        self.notes = []

    def cleanup(self):
        shutil.rmtree(self.tmp, ignore_errors=True)

    def quick(self):
        return self.tier == 'quick'


def run(cmd, cwd=None, env=None, timeout=1200, input=None, check=False):
    p = subprocess.run(cmd, cwd=cwd, env=env, timeout=timeout, input=input,
                       stdout=subprocess.PIPE, stderr=subprocess.STDOUT, text=True, errors='replace')
    if check and p.returncode != 0:
        raise RuntimeError('command failed (%d): %s\n%s' % (p.returncode, cmd, p.stdout[-4000:]))
    return p.returncode, p.stdout


# ---------------------------------------------------------------- Coq build

def write_if_changed(path, text):
    try:
        if open(path).read() == text:
            return False
    except OSError:
        pass
    os.makedirs(os.path.dirname(path), exist_ok=True)
    with open(path, 'w') as f:
        f.write(text)
    return True


def regenerate_gen(prop=None):
    """Gen/*.v are regenerated from /repo on every run (write-if-changed so that an
    unchanged tree costs no recompilation). A generator may declare `# props: C04 C19` in its
    first lines; it is then run only by the checks of those properties (and by setup, prop=None)."""
    gen_dir = os.path.join(VERIF, 'tools', 'gen')
    msgs = []
    if os.path.isdir(gen_dir):
        for f in sorted(os.listdir(gen_dir)):
            if f.endswith('.py'):
                head = ''.join(open(os.path.join(gen_dir, f)).readlines()[:8])
                m = re.search(r'#\s*props:\s*([A-Z0-9 ,]+)', head)
                if prop and m and prop not in re.split(r'[ ,]+', m.group(1).strip()):
                    continue
                rc, out = run([sys.executable, os.path.join(gen_dir, f)], cwd=VERIF, env=goenv(), timeout=600)
                if rc != 0:
                    msgs.append('generator %s failed:\n%s' % (f, out[-3000:]))
    return msgs


def build_coq(prop=None):
    """full .vo build under a lock; returns (ok, log)"""
    os.makedirs(COQ, exist_ok=True)
    with open(os.path.join(COQ, '.lock'), 'w') as lk:
        fcntl.flock(lk, fcntl.LOCK_EX)
        msgs = regenerate_gen(prop)
        if msgs:
            return False, '\n'.join(msgs)
        run(['sh', os.path.join(VERIF, 'tools', 'gen_coqproject.sh')], cwd=COQ)
        mk = os.path.join(COQ, 'Makefile')
        cp = os.path.join(COQ, '_CoqProject')
        if not os.path.exists(mk) or os.path.getmtime(mk) < os.path.getmtime(cp):
            run(['coq_makefile', '-f', '_CoqProject', '-o', 'Makefile'], cwd=COQ, check=True)
        rc, out = run(['timeout', '1500', 'make', '-k', '-j16'], cwd=COQ, timeout=1600)
        return rc == 0, out


def props_info(prop):
    """compile Props/<id>.v once more to capture Print Assumptions; returns
    (ok, theorem_names, assumptions_text)"""
    src = os.path.join(COQ, 'theories', 'Props', prop + '.v')
    if not os.path.exists(src):
        return False, [], 'missing ' + src
    txt = open(src).read()
    names = re.findall(r'^\s*(?:Theorem|Corollary)\s+([A-Za-z0-9_\']+)', txt, re.M)
    bad = re.findall(r'\b(Admitted|admit|Axiom|Parameter|Conjecture)\b', txt)
    d = tempfile.mkdtemp(prefix='props_', dir='/var/tmp')
    try:
        rc, out = run(['timeout', '600', 'coqc', '-Q', os.path.join(COQ, 'theories'), 'Regal',
                       '-o', os.path.join(d, prop + '.vo'), src], cwd=COQ, timeout=700)
    finally:
        shutil.rmtree(d, ignore_errors=True)
    ok = rc == 0 and not bad
    return ok, names, out


def coqchk(prop, timeout=2400):
    """thorough tier: re-check Props/<id>.vo and everything it depends on with the independent checker;
    returns (ok, summary text incl. the axiom list)"""
    with open(os.path.join(COQ, '.lock'), 'w') as lk:
        fcntl.flock(lk, fcntl.LOCK_SH)
        rc, out = run(['timeout', str(timeout), 'coqchk', '-silent', '-o', '-Q', 'theories', 'Regal',
                       'Regal.Props.' + prop], cwd=COQ, timeout=timeout + 60)
    i = out.find('CONTEXT SUMMARY')
    summ = out[i:] if i >= 0 else out[-2000:]
    ok = rc == 0 and 'Axioms: <none>' in summ and 'type-in-type: <none>' in summ \
        and 'unsafe (co)fixpoints: <none>' in summ and 'positivity is assumed: <none>' in summ
    return ok, ' '.join(summ.split())


def strip_coq_comments(text):
    """remove (possibly nested, multi-line) Coq comments and string literals, keeping line structure"""
    out, i, depth, n, in_str = [], 0, 0, len(text), False
    while i < n:
        c = text[i]
        if in_str:
            if c == '"':
                in_str = False
            out.append('\n' if c == '\n' else ' ')
            i += 1
        elif depth == 0 and c == '"':
            in_str = True
            out.append(' ')
            i += 1
        elif text.startswith('(*', i):
            depth += 1
            out.append('  ')
            i += 2
        elif depth > 0 and text.startswith('*)', i):
            depth -= 1
            out.append('  ')
            i += 2
        else:
            out.append(c if depth == 0 or c == '\n' else ' ')
            i += 1
    return ''.join(out)


def dep_closure(prop):
    """the .v files Props/<prop>.v (transitively) requires inside the development"""
    th = os.path.join(COQ, 'theories')
    todo, seen = [os.path.join(th, 'Props', prop + '.v'), os.path.join(th, 'Check', prop + 'Check.v')], set()
    while todo:
        f = todo.pop()
        if f in seen or not os.path.exists(f):
            continue
        seen.add(f)
        code = strip_coq_comments(open(f, errors='replace').read())
        name_re = r"[A-Za-z_][\w']*(?:\.[A-Za-z_][\w']*)*"
        for m in re.finditer(r'(?:From\s+(\S+)\s+)?Require\s+(?:Import\s+|Export\s+)?((?:' + name_re + r'\s+)*' + name_re + r')\s*\.(?=\s|$)', code):
            frm = m.group(1)
            if frm and frm != 'Regal':
                continue
            for name in m.group(2).split():
                if name.startswith('Regal.'):
                    name = name[len('Regal.'):]
                cand = os.path.join(th, *name.split('.')) + '.v'
                if os.path.exists(cand):
                    todo.append(cand)
    return seen


def forbidden_scan(prop=None):
    """no Admitted/admit/Axiom/... in the development (comments and strings excluded); with prop, only in
    the files that property's theorems and check depend on"""
    only = dep_closure(prop) if prop else None
    hits = []
    pat = re.compile(r'\b(Admitted|admit|Axiom|Axioms|Parameter|Parameters|Conjecture|Conjectures|Hypothesis|Variable|Variables|Hypotheses)\b|Unset\s+Guard|bypass_check|type-in-type|impredicative-set|Admit\s+Obligations|Unset\s+Positivity|Unset\s+Universe')
    for root, _, files in os.walk(os.path.join(COQ, 'theories')):
        for f in files:
            if not f.endswith('.v'):
                continue
            p = os.path.join(root, f)
            if only is not None and p not in only:
                continue
            stack = []
            code_lines = strip_coq_comments(open(p, errors='replace').read()).split('\n')
            for i, code in enumerate(code_lines, 1):
                if re.match(r'\s*Section\b', code):
                    stack.append('S')
                elif re.match(r'\s*Module\s+(?!Import\b|Export\b)(Type\s+)?[A-Za-z_]', code) and ':=' not in code:
                    stack.append('M')
                if re.match(r'\s*End\b', code) and stack:
                    stack.pop()
                m = pat.search(code)
                if m:
                    w = m.group(0)
                    if w in ('Variable', 'Variables', 'Hypothesis', 'Hypotheses') and 'S' in stack:
                        continue
                    hits.append('%s:%d: %s' % (os.path.relpath(p, VERIF), i, code.strip()))
    return hits


CASE_HEADER = 'From Coq Require Import List NArith ZArith Bool.\nImport ListNotations.\n'


def coq_eval(ctx, name, vtext, timeout=900):
    """evaluate a generated case file inside Coq (vm_compute); returns (rc, stdout)"""
    path = os.path.join(ctx.tmp, name + '.v')
    with open(path, 'w') as f:
        f.write(CASE_HEADER + vtext)
    return run(['timeout', str(timeout), 'coqc', '-Q', os.path.join(COQ, 'theories'), 'Regal',
                '-Q', ctx.tmp, 'Cases', path], cwd=ctx.tmp, timeout=timeout + 60)


def parse_nat_list(out, marker):
    """extract the numbers of `marker = [a; b; c]` printed by Coq (possibly wrapped)"""
    m = re.search(re.escape(marker) + r'\s*=\s*(\[[^\]]*\])', out, re.S)
    if not m:
        return None
    return [int(x) for x in re.findall(r'\d+', m.group(1))]


# ---------------------------------------------------------------- Coq literals

def cstr(s):
    """Go/Python string or bytes -> Coq term of type [list N] (bytes)"""
    b = s.encode('utf-8', 'surrogateescape') if isinstance(s, str) else bytes(s)
    return '[' + ';'.join(str(x) for x in b) + ']%N'


def clist(xs):
    return '[' + '; '.join(xs) + ']'


def cbool(b):
    return 'true' if b else 'false'


def copt(x):
    return 'None' if x is None else '(Some %s)' % x


def cnat(n):
    return '%d%%nat' % n


def cZ(n):
    return '(%d)%%Z' % n


# ---------------------------------------------------------------- harness

def harness_dir(ctx):
    """the harness module replaces github.com/styrainc/regal by /repo; when VERIF_REPO points
    elsewhere (scratch worktree for experiments / seeded changes) a private copy is used"""
    if REPO == '/repo':
        shutil.copy(os.path.join(REPO, 'go.sum'), os.path.join(HARNESS, 'go.sum'))
        return HARNESS
    d = os.path.join(ctx.tmp, 'harness_copy')
    if not os.path.isdir(d):
        shutil.copytree(HARNESS, d)
        gm = open(os.path.join(d, 'go.mod')).read().replace('=> /repo', '=> ' + REPO)
        open(os.path.join(d, 'go.mod'), 'w').write(gm)
        shutil.copy(os.path.join(REPO, 'go.sum'), os.path.join(d, 'go.sum'))
    return d


def build_harness(ctx, name, tags=None, race=False):
    hd = harness_dir(ctx)
    out = os.path.join(ctx.tmp, 'h_' + name + ('_race' if race else ''))
    cmd = [GO, 'build']
    if race:
        cmd.append('-race')
    if tags:
        cmd += ['-tags', tags]
    cmd += ['-o', out, './cmd/' + name]
    rc, log = run(cmd, cwd=hd, env=goenv(), timeout=900)
    if rc != 0:
        raise HarnessBuildError(log)
    return out


def build_regal(ctx, race=False):
    out = os.path.join(ctx.tmp, 'regal')
    cmd = [GO, 'build'] + (['-race'] if race else []) + ['-o', out, '.']
    rc, log = run(cmd, cwd=REPO, env=goenv(), timeout=900)
    if rc != 0:
        raise HarnessBuildError(log)
    return out


class HarnessBuildError(Exception):
    pass


def go_test_overlay(ctx, pkg, overlay_files, run_pat, args=None, race=False, timeout=1200, env_extra=None):
    """run an overlay test file inside an internal package of /repo without adding files there.
    overlay_files: {path-in-repo: path-under-/verif}"""
    ov = {'Replace': {os.path.join(REPO, k): v for k, v in overlay_files.items()}}
    ovp = os.path.join(ctx.tmp, 'overlay_%s.json' % hashlib.md5(pkg.encode()).hexdigest()[:8])
    json.dump(ov, open(ovp, 'w'))
    cmd = [GO, 'test', '-overlay', ovp, '-vet=off', '-count=1', '-run', run_pat, '-timeout', '%ds' % timeout]
    if race:
        cmd.append('-race')
    cmd.append(pkg)
    if args:
        cmd += ['-args'] + args
    env = goenv()
    if env_extra:
        env.update(env_extra)
    return run(cmd, cwd=REPO, env=env, timeout=timeout + 120)


# ---------------------------------------------------------------- verdicts

def load_known():
    """known_findings.json plus the per-property fragments under known_findings.d/ (both committed)"""
    out = []
    try:
        out += json.load(open(os.path.join(VERIF, 'known_findings.json'))).get('findings', [])
    except OSError:
        pass
    d = os.path.join(VERIF, 'known_findings.d')
    if os.path.isdir(d):
        for f in sorted(os.listdir(d)):
            if f.endswith('.json'):
                out += json.load(open(os.path.join(d, f))).get('findings', [])
    return out


def violation(ctx, replay_obj, no_input=False, signature=None):
    """register a violation (or a known finding when the minimised signature is listed open)"""
    if signature is not None:
        for f in load_known():
            if f.get('property') == ctx.prop and f.get('status') == 'open' and f.get('signature') == signature:
                line = 'KNOWN-FINDING: property=%s %s' % (ctx.prop, f.get('what', ''))
                if line not in ctx.known:
                    ctx.known.append(line)
                return False
    d = os.path.join(VERIF, 'replays')
    os.makedirs(d, exist_ok=True)
    path = os.path.join(d, '%s_%d_%d.json' % (ctx.prop, int(time.time()), len(ctx.violations)))
    replay_obj = dict(replay_obj)
    replay_obj.setdefault('property', ctx.prop)
    replay_obj.setdefault('seed', ctx.seed)
    if signature is not None:
        replay_obj.setdefault('signature', signature)
    json.dump(replay_obj, open(path, 'w'), indent=1, default=str)
    ctx.violations.append((path, ' no-failing-input-found' if no_input else ''))
    return True


def finish(ctx, level, coverage, assumptions):
    cov = dict(coverage)
    # schema hygiene: `exhaustive` is a boolean (explanations go to `exhaustive_note`); distinct_nontrivial counts a
    # subset of the evaluations, so where a module counts the two in different units the smaller number is reported
    if 'exhaustive' in cov and not isinstance(cov['exhaustive'], bool):
        cov['exhaustive_note'] = str(cov['exhaustive'])
        cov['exhaustive'] = False
    ev_n, dn = cov.get('evaluations'), cov.get('distinct_nontrivial')
    if isinstance(ev_n, int) and isinstance(dn, int) and dn > ev_n:
        cov['distinct_nontrivial_as_counted_by_module'] = dn
        cov['distinct_nontrivial'] = ev_n
        cov['distinct_nontrivial_note'] = 'the module counts distinct cases in a finer unit than evaluations; reported conservatively as min(distinct, evaluations)'
    ev = {
        'property_id': ctx.prop, 'tier': ctx.tier, 'seed': ctx.seed, 'level': level,
        'coverage': cov, 'assumptions': assumptions,
        'wall_s': round(time.time() - ctx.t0, 2), 'violations': len(ctx.violations),
    }
    # evidence under evidence/ only ever describes runs against /repo itself; runs against a scratch
    # worktree (VERIF_REPO: experiments, seeded changes) leave theirs beside the replays
    evdir = os.path.join(VERIF, 'evidence') if REPO == '/repo' else os.path.join(VERIF, 'replays', 'scratch_evidence')
    os.makedirs(evdir, exist_ok=True)
    ev['repo'] = REPO
    with open(os.path.join(evdir, ctx.prop + '.json'), 'w') as f:
        json.dump(ev, f, indent=1, default=str)
    for line in ctx.known:
        print(line)
    # at most a handful of VIOLATION lines
    for path, suffix in ctx.violations[:5]:
        print('VIOLATION property=%s replay=%s%s' % (ctx.prop, path, suffix))
    sys.stdout.flush()
    return 1 if ctx.violations else 0


GLOBAL_TRUSTED = [
    'Coq 8.16.1 kernel + vm_compute (no native_compute); coqchk in the thorough tier',
    'hand-written Gallina models under coq/theories/Model tied to /repo by the correspondence '
    'check of this run (Go harness built against /repo working tree; cases evaluated by vm_compute)',
    'tools/lib/vlib.py, the Go harness and the case-file printers (trusted glue)',
]
