#!/bin/bash
# tools/confirm_seed.sh <seeded/dir> : in a scratch worktree of /repo, confirm that (1) the demo passes without the patch,
# (2) with the patch the tree builds and the touched packages' existing tests pass, (3) the demo fails with the patch.
set -u
D="$(realpath "$1")"
export GO=/root/go/pkg/mod/golang.org/toolchain@v0.0.1-go1.24.0.linux-amd64/bin/go GOTOOLCHAIN=local GOFLAGS=-mod=mod GOPROXY=off GOSUMDB=off
PKG=$(head -15 "$D/demo_test.go" | grep -iE 'place|copy' | grep -oE '(pkg|internal|cmd)(/[a-zA-Z0-9_]+)*/?' | head -1); PKG=${PKG%/}
case "$PKG" in *_test|*seed*|*demo*) PKG=$(dirname "$PKG");; esac
RUN=$(head -15 "$D/demo_test.go" | grep -oE "\-run '?[A-Za-z0-9_]+" | head -1 | sed "s/-run '\?//")
[ -n "$PKG" ] && [ -n "$RUN" ] || { echo "cannot parse placement"; exit 2; }
WT="$(mktemp -d /tmp/wt-confirm-XXXXXX)"; rmdir "$WT"
git -C /repo worktree add --detach "$WT" HEAD -q || exit 2
trap 'git -C /repo worktree remove --force "$WT"' EXIT
cd "$WT"
cp "$D/demo_test.go" "$PKG/zz_seed_demo_test.go"
$GO test -vet=off -count=1 -run "$RUN" "./$PKG/" > /tmp/confirm_1.log 2>&1; r1=$?
rm "$PKG/zz_seed_demo_test.go"
git apply "$D/patch.diff" || { echo "patch does not apply"; exit 2; }
TOUCHED=$(git diff --name-only | grep '\.go$' | xargs -r -n1 dirname | sort -u | sed 's|^|./|' | tr '\n' ' ')
$GO build ./... > /tmp/confirm_b.log 2>&1; rb=$?
$GO test -vet=off -count=1 $TOUCHED ./pkg/linter/ > /tmp/confirm_2.log 2>&1; r2=$?
cp "$D/demo_test.go" "$PKG/zz_seed_demo_test.go"
$GO test -vet=off -count=1 -run "$RUN" "./$PKG/" > /tmp/confirm_3.log 2>&1; r3=$?
echo "confirm $(basename "$D"): demo-without-patch=$r1 (want 0) build=$rb (want 0) existing-tests[$TOUCHED]=$r2 (want 0) demo-with-patch=$r3 (want !=0)"
[ $r1 -eq 0 ] && [ $rb -eq 0 ] && [ $r2 -eq 0 ] && [ $r3 -ne 0 ]
