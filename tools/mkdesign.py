#!/usr/bin/env python3
"""regenerates the tables of DESIGN.md §0.1-§0.3 (between the GENERATED markers) from MANIFEST.json, Props/*.v,
the known-findings files and seeded/*/meta.json, so that the document cannot drift from what is committed"""
import glob, json, os, re, sys
V = os.path.abspath(os.path.join(os.path.dirname(__file__), '..'))
sys.path.insert(0, os.path.join(V, 'tools', 'lib'))
import vlib


def esc(s):
    return str(s).replace('|', '\\|').replace('\n', ' ')


def main():
    m = json.load(open(os.path.join(V, 'MANIFEST.json')))
    known = vlib.load_known()
    out = []
    out.append('### 0.1 Checks as registered in MANIFEST.json\n')
    out.append('| id | level | theorems under Props/ (of which `_refuted` witnesses) | open findings | repaired in /repo | notes |')
    out.append('|---|---|---|---|---|---|')
    for c in m['checks']:
        pid = c['property_id']
        src = os.path.join(V, 'coq', 'theories', 'Props', pid + '.v')
        names = re.findall(r'^\s*(?:Theorem|Corollary)\s+([A-Za-z0-9_\']+)', open(src).read(), re.M) if os.path.exists(src) else []
        ref = [n for n in names if 'refuted' in n]
        op = [f for f in known if f['property'] == pid and f['status'] == 'open']
        fx = [f for f in known if f['property'] == pid and f['status'] == 'fixed']
        commits = sorted({(f.get('commit') or '?').split()[0][:7] for f in fx})
        out.append('| %s | %s | %d (%d) | %d | %s | notes/%s.md |' % (pid, c['level_claimed']['category'], len(names), len(ref), len(op),
                                                                      ', '.join(commits) or '-', pid))
    out.append('')
    out.append('### 0.2 Findings (from known_findings.json and known_findings.d/*.json)\n')
    out.append('Open findings are printed as `KNOWN-FINDING` by the check of their property (matched by signature after minimisation) and the check exits 0; '
               'every other violation of the same property is still a `VIOLATION`. Fixed entries suppress nothing.\n')
    out.append('| property | status | commit | what |')
    out.append('|---|---|---|---|')
    for f in sorted(known, key=lambda f: (f['property'], f['status'])):
        out.append('| %s | %s | %s | %s |' % (f['property'], f['status'], esc((f.get('commit') or '-')), esc(f.get('what', ''))[:600]))
    out.append('')
    out.append('### 0.3 Seeded changes (independent sub-agents, given only the property text) and what catches them\n')
    out.append('Each directory `seeded/<id>/` holds `patch.diff`, the demonstration and `meta.json`. Every change was confirmed with '
               '`tools/confirm_seed.sh` (demo passes without the patch; with it the tree builds, the existing tests of the touched packages pass and the demo fails) '
               'and tried with `tools/seedtest.sh <property> <patch>` (scratch worktree, never /repo).\n')
    import collections
    stat = collections.Counter()
    metas = [json.load(open(f)) for f in sorted(glob.glob(os.path.join(V, 'seeded', '*', 'meta.json')))]
    for d in metas:
        t = d.get('detected_by', '')
        head = t.split('After')[0]
        first = 'missed' if t.startswith('MISSED') else ('flagged without a failing input' if ('no-failing-input-found' in head or 'check-stopped' in head) else 'caught with a concrete replay')
        stat[(d.get('round', 1), first)] += 1
        fr = (d.get('final_regression') or {}).get('verdict', '')
        stat[(d.get('round', 1), 'final:' + fr)] += 1
    out.append('Summary by round (a seed counts for the check of the property it was written against; several "missed" seeds were caught by the check of a neighbouring property, noted in the table):\n')
    out.append('| round | seeds | caught at first | flagged without failing input at first | missed at first | final regression: concrete replay | final: no-failing-input-found | final: missed |')
    out.append('|---|---|---|---|---|---|---|---|')
    for r in sorted({k[0] for k in stat}):
        n = sum(1 for d in metas if d.get('round', 1) == r)
        out.append('| %d | %d | %d | %d | %d | %d | %d | %d |' % (r, n, stat[(r, 'caught with a concrete replay')], stat[(r, 'flagged without a failing input')], stat[(r, 'missed')],
                                                               stat[(r, 'final:caught with a concrete replay')], stat[(r, 'final:caught, no-failing-input-found')], stat[(r, 'final:MISSED')]))
    out.append('')
    out.append('The final regression (`seeded/REGRESSION.txt`) ran `tools/seedtest.sh` for every seeded change sequentially against the final machinery (quick tier); round 4 (eight seeds, a later session: C08-5, C08-6, C09-6, C11-6, C12-5, C12-6, C15-5, C17-5) was run the same way after the strengthening it prompted. C12-5 leaves every literal clause of C12 intact (terminates, re-lint clean, idempotent) and breaks meaning preservation: the C12 check flags it through the iteration correspondence (`no-failing-input-found`, which is the accurate verdict for C12), the C11 check exhibits the corrupted file.')
    out.append('')
    out.append('| seed | breaks | needs | caught by | final regression |')
    out.append('|---|---|---|---|---|')
    for f in sorted(glob.glob(os.path.join(V, 'seeded', '*', 'meta.json'))):
        d = json.load(open(f))
        out.append('| %s | %s | %s | %s | %s |' % (os.path.basename(os.path.dirname(f)), esc(d.get('breaks', '')), esc(d.get('needs', '')), esc(d.get('detected_by', '')), esc((d.get('final_regression') or {}).get('verdict', '-'))))
    out.append('')
    text = '\n'.join(out)
    p = os.path.join(V, 'DESIGN.md')
    s = open(p).read()
    b, e = '<!-- BEGIN GENERATED TABLES -->', '<!-- END GENERATED TABLES -->'
    if b not in s:
        marker = '---------------------------------------------------------------------------------------------------\n\n## 1. Why proof'
        s = s.replace(marker, b + '\n' + e + '\n\n' + marker, 1)
    s = s[:s.index(b) + len(b)] + '\n' + text + '\n' + s[s.index(e):]
    open(p, 'w').write(s)


if __name__ == '__main__':
    main()
