"""Shared by c03.py and c07.py: running the corpus harness (harness/corpus via cmd/c03 or cmd/c07) and
turning its summary into verdicts. Each check lints every module once (C07 additionally lints the k-shifted
twins); the two checks are separate processes, so nothing is shared at run time except this code."""
import json, os
import vlib

OPA_TESTDATA = '/root/go/pkg/mod/github.com/open-policy-agent/opa@v1.3.0/v1/test/cases/testdata'


def run_corpus(ctx, h, prop, replay_modules=None, replay_opt=None, mode='corpus', tag='', env_extra=None):
    """mode 'corpus': everything; 'large': only the large single-call batches (C03, harness built with -race)"""
    out = os.path.join(ctx.tmp, 'corpus_%s%s.json' % (prop, tag))
    wd = os.path.join(ctx.tmp, 'work_%s%s' % (prop, tag))
    os.makedirs(wd, exist_ok=True)
    env = dict(os.environ, VERIF_SEED=str(ctx.seed))
    env.update(env_extra or {})
    if replay_modules is not None:
        rp = os.path.join(ctx.tmp, 'replay_in%s.json' % tag)
        json.dump({'modules': replay_modules, 'opt': replay_opt}, open(rp, 'w'))
        cmd = [h, 'replay', out, rp, wd]
    else:
        cmd = [h, mode, out, ctx.tier, vlib.REPO, OPA_TESTDATA, os.path.join(vlib.VERIF, 'corpus', prop), wd]
    rc, log = vlib.run(cmd, env=env, timeout=3000)
    if rc != 0 or not os.path.exists(out):
        raise RuntimeError('%s corpus harness failed (rc=%d): %s' % (prop, rc, log[-3000:]))
    return json.load(open(out))


def report_failures(ctx, summ, prop, race=False):
    """every parse rejection / lint error / panic / runtime fatal / hang / race report on modules OPA's parser accepts is a
    violation of C03 (one per signature)"""
    best = {}
    for r in summ['results']:
        for f in r.get('failures') or []:
            k = f.get('key') or f['err'][:80]
            size = sum(len(m['text']) for m in f['modules'])
            if k not in best or size < best[k][0]:
                best[k] = (size, f)
    n = 0
    for k in sorted(best):
        f = best[k][1]
        sig = {'kind': 'lint-error', 'key': k}
        opt = f.get('opt')
        if k.startswith('parse: '):
            what = 'regal fails to parse a module that OPA\'s own parser accepts (%s): the whole run is lost: %s' % (f['modules'][0]['src'], f['err'][:300])
        elif opt and opt.get('disk'):
            what = ('a tree of %d small files ON DISK under the roots %s (configured rego-version per root; every file valid for the '
                    'version of its root, the roots alternating in the list of paths), read with rules.InputFromPaths for %d round(s) and '
                    'linted through WithInputPaths%s: %s'
                    % (len(f['modules']), opt.get('roots'), opt.get('disk_rounds') or 1, ' under the race detector' if race else '', f['err'][:300]))
        elif opt and opt.get('large'):
            sets = opt.get('rule_sets') or []
            how = ('every rule enabled' if not opt.get('no_all') else '') + (', then ' if sets and not opt.get('no_all') else '') + \
                  ('one call per rule subset %s' % sets if sets else '')
            what = ('ONE linter.Lint call over %d small parseable modules (%s)%s dies: %s'
                    % (len(f['modules']), how, ' under the race detector' if race else '', f['err'][:300]))
        else:
            what = ('linter.Lint with %s fails on %d parseable module(s) (%s): %s'
                    % ('the rules %s enabled' % opt['rule_sets'] if opt and opt.get('rule_sets') else 'all rules enabled',
                       len(f['modules']), ', '.join(m['src'] for m in f['modules'][:3]), f['err'][:300]))
        rep = {'kind': 'lint-error', 'modules': f['modules'], 'error': f['err'][:(4000 if race else 1500)], 'timeout': f.get('timeout', False), 'what': what}
        if opt:
            rep['opt'] = opt
        if race:
            rep['race'] = True
        vlib.violation(ctx, rep, signature=sig)
        n += 1
    return best


def collect_location_issues(summ):
    loc, shift = [], []
    for r in summ['results']:
        loc += r.get('loc_issues') or []
        shift += r.get('shift_issues') or []
    # smallest module first, so that the replay stored for a signature is the smallest witness
    loc.sort(key=lambda i: len(i['module'].get('text', '')))
    shift.sort(key=lambda i: (len(i['module'].get('text', '')), i['issue']['k']))
    return loc, shift


def collect_mode_issues(summ):
    """input-mode issues of the batches that went through every input mode (harness/corpus/modes.go)"""
    out = []
    for r in summ['results']:
        out += r.get('mode_issues') or []
    out.sort(key=lambda i: (i['kind'] == 'error', len(i['module'].get('text', '')), i['k']))
    return out


def corpus_stats(summ):
    res = summ['results']
    by_rule = {}
    for r in res:
        for k, n in (r.get('by_rule') or {}).items():
            by_rule[k] = by_rule.get(k, 0) + n
    unparsed = {}
    for r in res:
        if r.get('large'):
            continue
        for u in r.get('unparsed') or []:
            k = ':'.join(u.split(':')[:2])
            unparsed[k] = unparsed.get(k, 0) + 1
    fails = {}
    for r in res:
        for f in r.get('failures') or []:
            fails[f.get('key', '?')] = fails.get(f.get('key', '?'), 0) + 1
    n_unparsed = sum(unparsed.values())
    oracle = {}
    for r in res:
        if r.get('large'):
            continue
        for k, n in (r.get('oracle') or {}).items():
            oracle[k] = oracle.get(k, 0) + n
    return {
        'corpus_counts': summ['counts'],
        'modules_submitted': sum(r.get('n', 0) for r in res if not r.get('large')),
        'modules_outside_domain_unparseable': n_unparsed,
        'unparseable_by_source': unparsed,
        # the modules of the large single-call runs are counted apart (two thirds of some are modules of the ordinary batches)
        'modules_linted': sum(r.get('n', 0) for r in res if not r.get('large')) - n_unparsed,
        'large_single_call_runs': [{'modules': r.get('n', 0), 'lint_calls': r.get('lints', 0), 'ms': r.get('ms')} for r in res if r.get('large')],
        'lint_calls': sum(r.get('lints', 0) for r in res),
        'violations_reported': sum(r.get('violations', 0) for r in res),
        'distinct_rules_reporting': len(by_rule),
        'violations_by_rule_top': dict(sorted(by_rule.items(), key=lambda kv: -kv[1])[:25]),
        'lint_failures_by_signature': fails,
        'modules_linted_by_rego_version': oracle,
        'located_violations': sum(r.get('located', 0) for r in res),
        'text_checked': sum(r.get('text_checked', 0) for r in res),
        'end_past_line_end': sum(r.get('end_past_line', 0) for r in res),
        'aggregate_text_differs_from_line': sum(r.get('agg_text_diff', 0) for r in res),
        'shift_pairs': sum(r.get('shift_pairs', 0) for r in res),
        'shift_skipped': sum(len(r.get('shift_skips') or []) for r in res),
        'input_mode_pairs': {k: sum((r.get('mode_pairs') or {}).get(k, 0) for r in res)
                             for k in sorted({k for r in res for k in (r.get('mode_pairs') or {})})},
        'input_mode_issues': sum(len(r.get('mode_issues') or []) for r in res),
        'disk_read_rounds': sum(r.get('disk_rounds', 0) for r in res),
        'worker_restarts': sum(1 for r in res if r.get('crash')),
        'harness_wall_ms': summ.get('wall_ms'),
    }


def eval_cases(ctx, name, require, ctype, terms, failing_funcs, count_funcs, chunk=2500, par=4):
    """evaluate case terms inside Coq in chunks (one huge list literal overflows coqc's stack):
    returns ({func: sorted failing indices}, {func: count}) or None when a chunk does not compile"""
    import concurrent.futures, re
    chunks = [terms[i:i + chunk] for i in range(0, len(terms), chunk)] or [[]]

    def one(ci):
        ts = chunks[ci]
        v = [require, 'Open Scope N_scope.',
             'Definition cases : list %s := %s.' % (ctype, vlib.clist('(%s)' % t for t in ts))]
        for j, f in enumerate(failing_funcs):
            v.append('Definition F%d := Eval vm_compute in failing %s 0 cases.' % (j, f))
            v.append('Print F%d.' % j)
        for j, f in enumerate(count_funcs):
            v.append('Definition N%d := Eval vm_compute in length (filter %s cases).' % (j, f))
            v.append('Print N%d.' % j)
        rc, out = vlib.coq_eval(ctx, '%s_%d' % (name, ci), '\n'.join(v), timeout=1500)
        if rc != 0:
            return ci, None, out
        fails = [vlib.parse_nat_list(out, 'F%d' % j) for j in range(len(failing_funcs))]
        counts = []
        for j in range(len(count_funcs)):
            m = re.search(r'N%d = (\d+)' % j, out)
            counts.append(int(m.group(1)) if m else 0)
        if any(f is None for f in fails):
            return ci, None, out
        return ci, (fails, counts), out

    res_f = {f: [] for f in failing_funcs}
    res_c = {f: 0 for f in count_funcs}
    with concurrent.futures.ThreadPoolExecutor(max_workers=par) as ex:
        for ci, r, out in ex.map(one, range(len(chunks))):
            if r is None:
                return None, out
            fails, counts = r
            for f, idx in zip(failing_funcs, fails):
                res_f[f] += [ci * chunk + i for i in idx]
            for f, n in zip(count_funcs, counts):
                res_c[f] += n
    return (res_f, res_c), ''
