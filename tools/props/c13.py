"""C13: fixing conserves files (nothing lost or overwritten, conflicts honoured).

Layers of the tie (all built from vlib.REPO's working tree):
  unit   overlay tests inside pkg/fixer and internal/util: renameCandidate, handleRename op sequences on the
         real InMemoryFileProvider (map- and disk-backed), FindClosestMatchingRoot, DirCleanUpPaths on temp trees
  ws     small workspaces through the real `regal fix --force` binary: before/after tree snapshots against the set
         of trees the model allows (the order of violations is schedule dependent), plus the conservation predicate
         computed on the snapshots alone
"""
import base64, json, os, re
import vlib
from vlib import cstr, clist, cbool, cnat
from common import proof_gate, proof_coverage

HERE = os.path.dirname(os.path.abspath(__file__))
OVERLAY = os.path.join(vlib.VERIF, 'harness', 'overlay')


def b64(s):
    return base64.b64decode(s)


def cstrs(xs):
    return clist(cstr(x) for x in (xs or []))


def cmap(kvs):
    return clist('(%s, %s)' % (cstr(k), cstr(v)) for k, v in (kvs or []))


POL = {'error': 'PError', 'rename': 'PRename'}
RES = {'ok': 0, 'conflict': 1, 'notfound': 2}


def op_term(o):
    if o['op'] == 'put':
        return 'OpPut %s %s' % (cstr(o['a']), cstr(o['b']))
    if o['op'] == 'delete':
        return 'OpDelete %s' % cstr(o['a'])
    if o['op'] == 'rename':
        return 'OpRename %s %s %s' % (cstr(o['a']), cstr(o['b']), cnat(RES[o['root']]))
    return 'OpMove %s %s %s' % (cstr(o['root']), cstr(o['a']), cstr(o['b']))


def conf_term(c):
    return '(%s, %s, %s, %s)' % ('CManyToOne' if c['kind'] == 'm2o' else 'CSourceFile', cstr(c['root']), cstr(c['to']), cstr(c['from']))


def seq_term(c):
    return ('{| sc_policy := %s; sc_init := %s; sc_starting := %s; sc_disk := %s; sc_ops := %s; sc_ok := %s; '
            'sc_files := %s; sc_modified := %s; sc_deleted := %s; sc_conflicts := %s |}') % (
        POL[c['policy']], cmap(c['init']), cstrs(c['starting']), cstrs(c.get('disk')), clist(op_term(o) for o in c['ops']),
        cbool(c['status'] == 'ok'), cmap(c['files']), cstrs(c['modified']), cstrs(c['deleted']),
        clist(conf_term(x) for x in (c['conflicts'] or [])))


def run_overlays(ctx):
    """returns the list of unit cases observed on the implementation"""
    env = {'VERIF_SEED': str(ctx.seed), 'VERIF_TIER': ctx.tier}
    out1 = os.path.join(ctx.tmp, 'c13_fixer.jsonl')
    rc, log = vlib.go_test_overlay(ctx, './pkg/fixer', {'pkg/fixer/zz_verif_c13_test.go': os.path.join(OVERLAY, 'c13_fixer_test.go')},
                                   'TestVerifC13$', env_extra=dict(env, VERIF_OUT=out1))
    if rc != 0 or not os.path.exists(out1):
        raise vlib.HarnessBuildError('overlay test in pkg/fixer failed:\n' + log[-3000:])
    out2 = os.path.join(ctx.tmp, 'c13_util.jsonl')
    rc, log = vlib.go_test_overlay(ctx, './internal/util', {'internal/util/zz_verif_c13_test.go': os.path.join(OVERLAY, 'c13_util_test.go')},
                                   'TestVerifC13Util$', env_extra=dict(env, VERIF_OUT=out2))
    if rc != 0 or not os.path.exists(out2):
        raise vlib.HarnessBuildError('overlay test in internal/util failed:\n' + log[-3000:])
    return [json.loads(l) for l in open(out1)] + [json.loads(l) for l in open(out2)]


def eval_unit(ctx, cases):
    cands = [c for c in cases if c['kind'] == 'cand']
    seqs = [c for c in cases if c['kind'] == 'seq']
    fcmrs = [c for c in cases if c['kind'] == 'fcmr']
    cleans = [c for c in cases if c['kind'] == 'cleanup']
    v = ['From Regal Require Import Check.C13Check.', 'Open Scope N_scope.']
    v.append('Definition cands : list cand_case := ' + clist('(%s, %s)' % (cstr(b64(c['in'])), cstr(b64(c['out']))) for c in cands) + '.')
    v.append('Definition seqs : list seq_case := ' + clist(seq_term(c) for c in seqs) + '.')
    v.append('Definition fcmrs : list fcmr_case := ' + clist(
        '{| fc_path := %s; fc_roots := %s; fc_got := %s |}' % (cstr(c['path']), cstrs(c['roots']), cstr(c['got'])) for c in fcmrs) + '.')
    v.append('Definition cleans : list cleanup_case := ' + clist(
        '{| cc_files := %s; cc_dirs := %s; cc_roots := %s; cc_target := %s; cc_got := %s; cc_err := %s |}' % (
            cstrs(c['files']), cstrs(c['dirs']), cstrs(c['roots']), cstr(c['target']), cstrs(c['got']), cbool(c['err'])) for c in cleans) + '.')
    v.append('Definition U1 := Eval vm_compute in failing cand_agrees 0 cands.')
    v.append('Definition U2 := Eval vm_compute in failing seq_agrees 0 seqs.')
    v.append('Definition U3 := Eval vm_compute in failing fcmr_agrees 0 fcmrs.')
    v.append('Definition U4 := Eval vm_compute in failing fcmr_meets_spec 0 fcmrs.')
    v.append('Definition U5 := Eval vm_compute in failing cleanup_agrees 0 cleans.')
    v.append('Print U1. Print U2. Print U3. Print U4. Print U5.')
    rc, out = vlib.coq_eval(ctx, 'Cases_C13_unit', '\n'.join(v))
    if rc != 0:
        raise RuntimeError('unit case evaluation failed:\n' + out[-3000:])
    res = {k: vlib.parse_nat_list(out, k) for k in ('U1', 'U2', 'U3', 'U4', 'U5')}
    return cands, seqs, fcmrs, cleans, res


# ------------------------------------------------------------------------------------------ workspaces

def npath(rel):
    return '/R' if rel == '' else '/R/' + rel


def file_content(f, fixed=False):
    c = ('# bad\n' if fixed else '#bad\n') if f['dirty'] else ''
    return 'package %s\n\n%sf%d := %d\n' % (f['pkg'], c, f['id'], f['id'])


def selected(ws):
    """the .rego files the command loads: below an argument, not below an ignored directory"""
    out = []
    for f in ws['files'] or []:
        pth = f['path']
        under = any(a == '' or pth == a or pth.startswith(a + '/') for a in ws['args'])
        ign = ws.get('ignore') or ''
        if ign and ign.rstrip('/') in pth.split('/')[:-1]:
            under = False
        if under:
            out.append(pth)
    return sorted(set(out))


def content_ids(ws):
    """content text -> short id; id -> (package parts, id after the non-moving fixes)"""
    ids, lint = {}, {}
    for f in ws['files'] or []:
        cid = 'c%d' % f['id']
        ids[file_content(f)] = cid
        parts = f['pkg'].split('.')
        if f['dirty']:
            ids[file_content(f, True)] = cid + 'f'
            lint[cid] = (parts, cid + 'f')
            lint[cid + 'f'] = (parts, None)
        else:
            lint[cid] = (parts, None)
    return ids, lint


def snap_ids(snap, ids):
    """files of a snapshot as (normalised path, content id); unknown contents get a stable id"""
    out = []
    for rel, txt in sorted(snap['files'].items()):
        out.append((npath(rel), ids.get(txt, 'o:' + rel if txt == 'other ' + rel + '\n' else 'u:' + txt)))
    return out


def classify(r):
    ws = r['ws']
    if r['exit'] == 0:
        return 'OutDryRun' if ws['dry_run'] else 'OutDone'
    e = r['stderr']
    if 'fixing failed due to conflicts' in e:
        return 'OutConflicts'
    if re.search(r'failed to (delete file|delete directory|delete empty directories|create directory|write file)', e):
        return 'OutCommitFailed'
    if 'failed to fix' in e or 'failed to create file provider' in e:
        return 'OutFixerError'
    return 'OutOther'


def ws_term(r):
    ws = r['ws']
    ids, lint = content_ids(ws)
    roots = []
    for x in r['roots'] or []:
        if x.startswith('^') or x.startswith('!'):
            raise RuntimeError('unexpected root outside the workspace: %r' % (r['roots'],))
        roots.append(npath(x))
    lint_t = clist('(%s, (%s, %s))' % (cstr(k), clist(cstr(x) for x in v[0]), 'None' if v[1] is None else '(Some %s)' % cstr(v[1]))
                   for k, v in sorted(lint.items()))
    return ('{| w_policy := %s; w_dry := %s; w_files := %s; w_dirs := %s; w_sel := %s; w_roots := %s; w_lint := %s; '
            'w_out := %s; w_after_files := %s; w_after_dirs := %s |}') % (
        POL[ws['policy']], cbool(ws['dry_run']), cmap(snap_ids(r['before'], ids)), cstrs(npath(d) for d in r['before']['dirs']),
        cstrs(npath(x) for x in selected(ws)), cstrs(roots), lint_t, classify(r) if classify(r) != 'OutOther' else 'OutOutOfFuel',
        cmap(snap_ids(r['after'], ids)), cstrs(npath(d) for d in r['after']['dirs']))


def eval_ws(ctx, results, name='Cases_C13_ws'):
    v = ['From Regal Require Import Check.C13Check.', 'Open Scope N_scope.']
    v.append('Definition wss : list ws_case := ' + clist(ws_term(r) for r in results) + '.')
    v.append('Definition W1 := Eval vm_compute in failing ws_agrees 0 wss.')
    v.append('Definition W2 := Eval vm_compute in map ws_leaves wss.')
    v.append('Print W1. Print W2.')
    rc, out = vlib.coq_eval(ctx, name, '\n'.join(v))
    if rc != 0:
        raise RuntimeError('workspace case evaluation failed:\n' + out[-3000:])
    return vlib.parse_nat_list(out, 'W1'), vlib.parse_nat_list(out, 'W2')


# ---- the property, computed on the two snapshots alone (no model) --------------------------------

def declared_roots(ws):
    """project roots as the workspace declares them (.regal directories, project.roots, .manifest files); without any
    declaration the argument directories"""
    roots = set()
    for d in ws.get('regal_dirs') or []:
        roots.add(d)
        if d == '':
            roots.update(ws.get('cfg_roots') or [])
    roots.update(ws.get('manifests') or [])
    if not roots:
        roots.update(ws['args'])
    return roots


def contains(root, pth):
    return root == '' or pth == root or pth.startswith(root + '/')


def spec_root(ws, pth):
    cands = [r for r in declared_roots(ws) if contains(r, pth)]
    return max(cands, key=len) if cands else None


def predicate(r):
    """list of (kind, detail) violations of C13 visible in before/after alone"""
    ws = r['ws']
    before, after = r['before'], r['after']
    bad = []
    cls = classify(r)
    if ws['dry_run'] and before != after:
        bad.append(('dry-run-changed-disk', ''))
    if r['exit'] != 0 and before != after:
        bad.append(('failed-but-changed-disk', cls))
    if cls == 'OutOther':
        bad.append(('unexpected-failure', r['stderr'][:300]))
    # one-to-one: every original file's content (as is, or fixed) is in exactly one file afterwards
    origin = {}
    for f in ws['files'] or []:
        origin[file_content(f)] = f['path']
        origin[file_content(f, True)] = f['path']
    where = {}
    for rel, txt in after['files'].items():
        o = origin.get(txt)
        if o is not None:
            where.setdefault(o, []).append(rel)
        elif before['files'].get(rel) != txt:
            bad.append(('unknown-content-after', rel))
    for rel, txt in before['files'].items():
        if txt in origin:
            n = len(where.get(origin[txt], []))
            if n == 0:
                bad.append(('file-lost', rel))
            elif n > 1:
                bad.append(('file-duplicated', rel))
        elif after['files'].get(rel) != txt:
            bad.append(('other-file-changed', rel))
    sel = set(selected(ws))
    for rel in before['files']:
        if rel not in sel and after['files'].get(rel) != before['files'][rel]:
            if ('file-lost', rel) not in bad:
                bad.append(('unselected-file-changed', rel))
    # a moved file stays inside the project root it belonged to
    for o, rels in where.items():
        for rel in rels:
            if rel != o:
                sr = spec_root(ws, o)
                if sr is not None and not contains(sr, rel):
                    bad.append(('moved-out-of-root', '%s -> %s (root %s)' % (o, rel, sr or '.')))
    # directories: none that still is (an ancestor of) a declared root disappears
    for d in before['dirs']:
        if d not in after['dirs'] and any(contains(d, rt) for rt in declared_roots(ws) if rt in before['dirs'] or rt == ''):
            bad.append(('root-directory-removed', d))
    return bad


def run(ctx):
    raise NotImplementedError
