"""C13: fixing conserves files (nothing lost or overwritten, conflicts honoured).

Layers of the tie (all built from vlib.REPO's working tree):
  unit   overlay tests inside pkg/fixer and internal/util: renameCandidate, handleRename op sequences on the
         real InMemoryFileProvider (map- and disk-backed), ordered histories (the moves of one fix run in a chosen
         order, with the conservation predicate on the provider), FindClosestMatchingRoot, DirCleanUpPaths on temp
         trees with bystanders (hidden files, data files, sub-directories, symbolic links; full listing with kinds)
  ws     small workspaces (with bystanders; chain-plus-collision shapes run repeatedly) through the real
         `regal fix --force` binary: before/after tree snapshots against the set of trees the model allows (the order
         of violations is schedule dependent), plus the conservation predicate computed on the snapshots alone
"""
import base64, json, os, re, threading
import vlib
from vlib import clist, cbool, cnat
from common import proof_gate, proof_coverage

HERE = os.path.dirname(os.path.abspath(__file__))
OVERLAY = os.path.join(vlib.VERIF, 'harness', 'overlay')


def b64(s):
    return base64.b64decode(s)


# Coq elaborates byte-list literals slowly (a few KB/s) and the same paths occur over and over in the case data: every
# distinct string of a case file is defined once and referred to by name (one pool per thread = per case file).
_pool = threading.local()


def pool_begin():
    _pool.m = {}


def pool_defs():
    """the definitions of the strings used since pool_begin; ends the pool"""
    defs = ['Definition s%d : str := %s.' % (i, vlib.cstr(b)) for b, i in _pool.m.items()]
    _pool.m = None
    return defs


def cstr(x):
    b = x.encode('utf-8', 'surrogateescape') if isinstance(x, str) else bytes(x)
    m = getattr(_pool, 'm', None)
    if m is None:          # no pool active (other users of ws_term): a plain literal
        return vlib.cstr(b)
    if b not in m:
        m[b] = len(m)
    return 's%d' % m[b]


def cstrs(xs):
    return clist(cstr(x) for x in (xs or []))


def cmap(kvs):
    return clist('(%s, %s)' % (cstr(k), cstr(v)) for k, v in (kvs or []))


POL = {'error': 'PError', 'rename': 'PRename'}
EKIND = {'file': 'EFile', 'dir': 'EDir', 'symlink': 'ESymlink'}
RES = {'ok': 0, 'conflict': 1, 'notfound': 2}


def op_term(o):
    if o['op'] == 'put':
        return 'OpPut %s %s' % (cstr(o['a']), cstr(o['b']))
    if o['op'] == 'delete':
        return 'OpDelete %s' % cstr(o['a'])
    if o['op'] == 'rename':
        return 'OpRename %s %s %s' % (cstr(o['a']), cstr(o['b']), cnat(RES[o['root']]))
    return 'OpMove %s %s %s' % (cstr(o['root']), cstr(o['a']), cstr(o['b']))


def conf_term(c):
    return '(%s, %s, %s, %s)' % ('CManyToOne' if c['kind'] == 'm2o' else 'CSourceFile', cstr(c['root']), cstr(c['to']), cstr(c['from']))


def seq_term(c):
    return ('{| sc_policy := %s; sc_init := %s; sc_starting := %s; sc_disk := %s; sc_ops := %s; sc_ok := %s; '
            'sc_files := %s; sc_modified := %s; sc_deleted := %s; sc_conflicts := %s |}') % (
        POL[c['policy']], cmap(c['init']), cstrs(c['starting']), cstrs(c.get('disk')), clist(op_term(o) for o in c['ops']),
        cbool(c['status'] == 'ok'), cmap(c['files']), cstrs(c['modified']), cstrs(c['deleted']),
        clist(conf_term(x) for x in (c['conflicts'] or [])))


def run_overlays(ctx, replay=None):
    """returns the list of unit cases observed on the implementation; replay = ('seq', history) | ('cleanup', tree)
    re-runs just that case"""
    env = {'VERIF_SEED': str(ctx.seed), 'VERIF_TIER': ctx.tier}
    if replay is not None:
        rf = os.path.join(ctx.tmp, 'c13_replay_unit.json')
        json.dump(replay[1], open(rf, 'w'))
        env['VERIF_C13_REPLAY_SEQ' if replay[0] == 'seq' else 'VERIF_C13_REPLAY_CLEANUP'] = rf
    out1 = os.path.join(ctx.tmp, 'c13_fixer.jsonl')
    rc, log = vlib.go_test_overlay(ctx, './pkg/fixer', {'pkg/fixer/zz_verif_c13_test.go': os.path.join(OVERLAY, 'c13_fixer_test.go')},
                                   'TestVerifC13$', env_extra=dict(env, VERIF_OUT=out1))
    if rc != 0 or not os.path.exists(out1):
        raise vlib.HarnessBuildError('overlay test in pkg/fixer failed:\n' + log[-3000:])
    out2 = os.path.join(ctx.tmp, 'c13_util.jsonl')
    rc, log = vlib.go_test_overlay(ctx, './internal/util', {'internal/util/zz_verif_c13_test.go': os.path.join(OVERLAY, 'c13_util_test.go')},
                                   'TestVerifC13Util$', env_extra=dict(env, VERIF_OUT=out2))
    if rc != 0 or not os.path.exists(out2):
        raise vlib.HarnessBuildError('overlay test in internal/util failed:\n' + log[-3000:])
    cases = [json.loads(l) for l in open(out1)] + [json.loads(l) for l in open(out2)]
    if replay is not None:   # the other overlay ran its whole generator: keep only the replayed kind
        cases = [c for c in cases if c['kind'] == replay[0] and (c.get('hist') or c.get('tree'))]
    return cases


# ---- the property on the unit observations alone (no model) ---------------------------------------

def history_predicate(c):
    """a sequence of moves handled by Fixer.handleRename on a real provider: every content the provider was loaded with
    is held exactly once afterwards, unless a conflict was registered (policy error: the command then stops before it
    touches the disk); policy rename never registers a conflict and settles on a fresh name in the directory asked for;
    nothing that exists on disk without having been loaded is written"""
    if c['kind'] != 'seq' or c['status'] != 'ok' or any(o['op'] != 'move' for o in c['ops']):
        return None
    if c['policy'] == 'rename' and c['has_conflicts']:
        return 'policy rename registered a conflict'
    if c['has_conflicts']:
        return None
    want = sorted(v for _, v in c['init'])
    got = sorted(v for _, v in c['files'])
    if want != got:
        lost = [v for v in want if v not in got]
        dup = sorted({v for v in got if got.count(v) > 1})
        who = [k for k, v in c['init'] if v in lost]
        return 'no conflict registered, yet the content of %s is held %s' % (
            ', '.join(who) or ', '.join(dup), 'nowhere' if lost else 'more than once')
    loaded = {k for k, _ in c['init']}
    for m in c['modified']:
        if m in (c.get('disk') or []) and m not in loaded:
            return 'writes %s, which exists on disk and was not loaded' % m
    h = c.get('hist')
    if h and c['policy'] == 'rename':
        where = {v: k for k, v in c['files']}
        for mv in h['moves']:
            content = dict((k, v) for k, v in h['init'])[mv['from']]
            if where[content].rsplit('/', 1)[0] != mv['to'].rsplit('/', 1)[0]:
                return '%s was to move to %s, it is at %s' % (mv['from'], mv['to'], where[content])
    return None


def cleanup_predicate(c):
    """DirCleanUpPaths lists directories only, never a preserved root, and only directories that are really empty once
    the target and the directories listed before them are gone -- whatever else (hidden files, data files,
    sub-directories, symbolic links) the tree holds"""
    if c['err']:
        return None
    kinds = {e['path']: e['kind'] for e in c['entries']}
    gone = {c['target']}
    for d in c['got']:
        if kinds.get(d) != 'dir':
            return 'lists %s, which is not a directory' % d
        if d in c['roots']:
            return 'lists the root %s' % d
        left = sorted(p for p in kinds if p.rsplit('/', 1)[0] == d and p not in gone)
        if left:
            return 'lists %s as empty, it still holds %s' % (d, ', '.join(x.rsplit('/', 1)[1] for x in left))
        gone.add(d)
    if not c['removable']:
        return 'os.Remove fails on a listed directory: %s' % json.dumps(c.get('blocked'))
    return None


def eval_unit(ctx, cases, chunk=2500):
    """evaluated in chunks (bounded memory); indices are mapped back to the full lists"""
    cands = [c for c in cases if c['kind'] == 'cand']
    seqs = [c for c in cases if c['kind'] == 'seq']
    fcmrs = [c for c in cases if c['kind'] == 'fcmr']
    cleans = [c for c in cases if c['kind'] == 'cleanup']
    from concurrent.futures import ThreadPoolExecutor
    res = {'U1': [], 'U2': [], 'U3': [], 'U4': [], 'U5': [], 'fcmr_in_domain': 0}
    # one case file per kind and slice, evaluated side by side (bounded memory per coqc)
    jobs = []
    for key, lst, size in (('cands', cands, chunk), ('seqs', seqs, min(chunk, 350)), ('fcmrs', fcmrs, chunk), ('cleans', cleans, min(chunk, 700))):
        for i in range(0, len(lst), size):
            jobs.append((key, i, lst[i:i + size]))

    def one(job):
        key, i, part = job
        args = {'cands': [], 'seqs': [], 'fcmrs': [], 'cleans': []}
        args[key] = part
        return i, eval_unit_chunk(ctx, args['cands'], args['seqs'], args['fcmrs'], args['cleans'], '%s_%d' % (key, i))
    with ThreadPoolExecutor(max_workers=6) as ex:
        for i, r in ex.map(one, jobs):
            for k in ('U1', 'U2', 'U3', 'U4', 'U5'):
                res[k] += [i + x for x in r[k]]
            res['fcmr_in_domain'] += r['fcmr_in_domain']
    return cands, seqs, fcmrs, cleans, res


def eval_unit_chunk(ctx, cands, seqs, fcmrs, cleans, idx):
    pool_begin()
    v = []
    v.append('Definition cands : list cand_case := ' + clist('(%s, %s)' % (cstr(b64(c['in'])), cstr(b64(c['out']))) for c in cands) + '.')
    v.append('Definition seqs : list seq_case := ' + clist(seq_term(c) for c in seqs) + '.')
    v.append('Definition fcmrs : list fcmr_case := ' + clist(
        '{| fc_path := %s; fc_roots := %s; fc_got := %s |}' % (cstr(c['path']), cstrs(c['roots']), cstr(c['got'])) for c in fcmrs) + '.')
    v.append('Definition cleans : list cleanup_case := ' + clist(
        '{| cc_entries := %s; cc_roots := %s; cc_target := %s; cc_got := %s; cc_err := %s |}' % (
            clist('(%s, %s)' % (cstr(e['path']), EKIND[e['kind']]) for e in c['entries']), cstrs(c['roots']), cstr(c['target']),
            cstrs(c['got']), cbool(c['err'])) for c in cleans) + '.')
    v.append('Definition U1 := Eval vm_compute in failing cand_agrees 0 cands.')
    v.append('Definition U2 := Eval vm_compute in failing seq_agrees 0 seqs.')
    v.append('Definition U3 := Eval vm_compute in failing fcmr_agrees 0 fcmrs.')
    v.append('Definition U4 := Eval vm_compute in failing fcmr_meets_spec 0 fcmrs.')
    v.append('Definition U5 := Eval vm_compute in failing cleanup_agrees 0 cleans.')
    v.append('Definition U6 := Eval vm_compute in length (filter fcmr_in_domain fcmrs).')
    v.append('Print U1. Print U2. Print U3. Print U4. Print U5. Print U6.')
    v = ['From Regal Require Import Check.C13Check.', 'Open Scope N_scope.'] + pool_defs() + v
    rc, out = vlib.coq_eval(ctx, 'Cases_C13_unit_%s' % idx, '\n'.join(v))
    if rc != 0:
        raise RuntimeError('unit case evaluation failed:\n' + out[-3000:])
    res = {k: vlib.parse_nat_list(out, k) for k in ('U1', 'U2', 'U3', 'U4', 'U5')}
    m6 = re.search(r'U6 = (\d+)', out)
    res['fcmr_in_domain'] = int(m6.group(1)) if m6 else 0
    return res


# ------------------------------------------------------------------------------------------ workspaces

def npath(rel):
    return '/R' if rel == '' else '/R/' + rel


def file_content(f, fixed=False):
    c = ('# bad\n' if fixed else '#bad\n') if f['dirty'] else ''
    return 'package %s\n\n%sf%d := %d\n' % (f['pkg'], c, f['id'], f['id'])


def arg_is_walked(ws, a):
    """filepath.WalkDir does not follow a symbolic link given as its root: an absolute argument whose last component
    is the link through which the workspace is reached (ws.via == "link", argument = the workspace root) selects nothing"""
    return not (ws.get('via') == 'link' and ws.get('abs_args') and a == '')


def selected(ws):
    """the .rego files the command loads: below an argument, not below an ignored directory"""
    out = []
    for f in ws['files'] or []:
        pth = f['path']
        under = any(a == '' or pth == a or pth.startswith(a + '/') for a in ws['args'] if arg_is_walked(ws, a))
        ign = ws.get('ignore') or ''
        if ign and ign.rstrip('/') in pth.split('/')[:-1]:
            under = False
        if under:
            out.append(pth)
    return sorted(set(out))


def content_ids(ws):
    """content text -> short id; id -> (package parts, id after the non-moving fixes)"""
    ids, lint = {}, {}
    for f in ws['files'] or []:
        cid = 'c%d' % f['id']
        ids[file_content(f)] = cid
        parts = f['pkg'].split('.')
        if f['dirty']:
            ids[file_content(f, True)] = cid + 'f'
            lint[cid] = (parts, cid + 'f')
            lint[cid + 'f'] = (parts, None)
        else:
            lint[cid] = (parts, None)
    return ids, lint


def snap_ids(snap, ids):
    """files of a snapshot as (normalised path, content id); unknown contents get a stable id"""
    out = []
    for rel, txt in sorted(snap['files'].items()):
        out.append((npath(rel), ids.get(txt, 'o:' + rel if txt == 'other ' + rel + '\n' else 'u:' + txt)))
    return out


def classify(r):
    ws = r['ws']
    if r['exit'] == 0:
        return 'OutDryRun' if ws['dry_run'] else 'OutDone'
    e = r['stderr']
    if 'fixing failed due to conflicts' in e:
        return 'OutConflicts'
    if re.search(r'failed to (delete file|delete directory|delete empty directories|create directory|write file)', e):
        return 'OutCommitFailed'
    if 'failed to fix' in e or 'failed to create file provider' in e:
        return 'OutFixerError'
    return 'OutOther'


def ws_term(r, classify_fn=None):
    classify_fn = classify_fn or classify
    ws = r['ws']
    ids, lint = content_ids(ws)
    roots = []
    for x in r['roots'] or []:
        if x.startswith('^') or x.startswith('!'):
            raise RuntimeError('unexpected root outside the workspace: %r' % (r['roots'],))
        roots.append(npath(x))
    lint_t = clist('(%s, (%s, %s))' % (cstr(k), clist(cstr(x) for x in v[0]), 'None' if v[1] is None else '(Some %s)' % cstr(v[1]))
                   for k, v in sorted(lint.items()))
    return ('{| w_policy := %s; w_dry := %s; w_files := %s; w_dirs := %s; w_sel := %s; w_roots := %s; w_lint := %s; '
            'w_out := %s; w_after_files := %s; w_after_dirs := %s |}') % (
        POL[ws['policy']], cbool(ws['dry_run']), cmap(snap_ids(r['before'], ids)), cstrs(npath(d) for d in r['before']['dirs']),
        cstrs(npath(x) for x in selected(ws)), cstrs(roots), lint_t, classify_fn(r) if classify_fn(r) != 'OutOther' else 'OutOutOfFuel',
        cmap(snap_ids(r['after'], ids)), cstrs(npath(d) for d in r['after']['dirs']))


def eval_ws(ctx, results, name='Cases_C13_ws', chunk=300):
    """evaluated in chunks: one coqc over thousands of trees needs gigabytes"""
    bad, leaves = [], []
    for i in range(0, len(results), chunk):
        b, l = eval_ws_chunk(ctx, results[i:i + chunk], '%s_%d' % (name, i // chunk))
        bad += [i + x for x in b]
        leaves += l
    return bad, leaves


def eval_ws_chunk(ctx, results, name):
    pool_begin()
    v = ['Definition wss : list ws_case := ' + clist(ws_term(r) for r in results) + '.']
    v.append('Definition W1 := Eval vm_compute in failing ws_agrees 0 wss.')
    v.append('Definition W2 := Eval vm_compute in map ws_leaves wss.')
    v.append('Print W1. Print W2.')
    v = ['From Regal Require Import Check.C13Check.', 'Open Scope N_scope.'] + pool_defs() + v
    rc, out = vlib.coq_eval(ctx, name, '\n'.join(v))
    if rc != 0:
        raise RuntimeError('workspace case evaluation failed:\n' + out[-3000:])
    return vlib.parse_nat_list(out, 'W1'), vlib.parse_nat_list(out, 'W2')


# ---- root discovery: the model (Model/RootDiscovery.v) against config.FindBundleRootDirectories / GetPotentialRoots ----

def tree_term(before):
    """the snapshot as Model.RootDiscovery.rnode; a file carries the project.roots its text declares"""
    root = {}
    for d in before['dirs']:
        n = root
        for c in (d.split('/') if d else []):
            n = n.setdefault(c, {})
    for f, txt in before['files'].items():
        n = root
        comps = f.split('/')
        for c in comps[:-1]:
            n = n.setdefault(c, {})
        n[comps[-1]] = parse_cfg_roots(txt) if comps[-1] in ('.regal.yaml', 'config.yaml') else []

    def term(n):
        if isinstance(n, list):
            return 'RFile %s' % cstrs(n)
        return 'RDir %s' % clist('(%s, %s)' % (cstr(k), term(v)) for k, v in sorted(n.items()))
    return term(root)


def disc_ok(r):
    """a result the discovery model is asked about: reached by its real path, every observed root inside the tree"""
    if r['ws'].get('via') or r.get('fbrd') is None:
        return False
    seen = list(r['roots'] or []) + [x for v in r['fbrd'].values() for x in v]
    if any(x.startswith('^') for x in seen):
        raise RuntimeError('unexpected root outside the workspace: %r' % (seen,))
    return not any(x.startswith('!') for x in seen)


def disc_term(r):
    ws = r['ws']
    return '{| dc_tree := %s; dc_args := %s; dc_fbrd := %s; dc_gpr := %s |}' % (
        tree_term(r['before']),
        clist(cstrs([c for c in arg_dir(ws, a).split('/') if c]) for a in ws['args']),
        clist(cstrs(npath(x) for x in r['fbrd'][a]) for a in ws['args']),
        cstrs(npath(x) for x in r['roots'] or []))


def eval_disc(ctx, results, chunk=700):
    """indices (into results) of the trees on which model and implementation disagree; marker-directory counts"""
    idx = [i for i, r in enumerate(results) if disc_ok(r)]
    bad, markers = [], []
    for k in range(0, len(idx), chunk):
        part = idx[k:k + chunk]
        pool_begin()
        v = ['Definition discs : list disc_case := ' + clist(disc_term(results[i]) for i in part) + '.',
             'Definition D1 := Eval vm_compute in failing disc_agrees 0 discs.',
             'Definition D2 := Eval vm_compute in map (fun c => marker_dirs (dc_tree c)) discs.',
             'Print D1. Print D2.']
        v = ['From Regal Require Import Check.C13Check.', 'Open Scope N_scope.'] + pool_defs() + v
        rc, out = vlib.coq_eval(ctx, 'Cases_C13_disc_%d' % (k // chunk), '\n'.join(v))
        if rc != 0:
            raise RuntimeError('discovery case evaluation failed:\n' + out[-3000:])
        bad += [part[x] for x in vlib.parse_nat_list(out, 'D1')]
        markers += vlib.parse_nat_list(out, 'D2')
    return idx, bad, markers


# ---- the property, computed on the two snapshots alone (no model) --------------------------------

def declared_roots(ws):
    """project roots as the workspace declares them (.regal directories, project.roots, .manifest files); without any
    declaration the argument directories"""
    roots = set()
    for d in ws.get('regal_dirs') or []:
        roots.add(d)
        if d == '':
            roots.update(ws.get('cfg_roots') or [])
    roots.update(ws.get('manifests') or [])
    if ws.get('extra'):      # configurations in sub-directories / .regal.yaml (round 3): the roots the invocation must know
        roots = set(spec_gpr(ws))
    if not roots:
        roots.update(ws['args'])
    return roots


def contains(root, pth):
    return root == '' or pth == root or pth.startswith(root + '/')


# ---- which directories are project roots, worked out from the workspace DESCRIPTION alone (round 3) -------------
# Nothing here looks at the materialised tree or asks regal: the description says where .manifest files, .regal
# directories (with the project.roots of their config.yaml, a rules directory) and .regal.yaml files are put.
# README "Project Roots": a directory containing a .manifest file is a root; a directory containing a .regal
# directory is a root; project.roots of the configuration declares roots.  Which configurations count for an
# invocation: the closest .regal directory and the closest .regal.yaml at or above the argument (the project's
# configuration; together with every .manifest below that project directory), and every .regal directory at or
# below the argument; a .regal.yaml BELOW the argument is not a marker.

SKIP_NAMES = ('.git', '.idea', 'node_modules')


def pjoin(d, x):
    import posixpath
    r = posixpath.normpath(posixpath.join(d, x) if d else x)
    return '' if r == '.' else r


def parse_cfg_roots(txt):
    """project.roots of a configuration text as the generators write it"""
    roots, inside = [], False
    for line in txt.splitlines():
        if line.strip() == 'roots:':
            inside = True
        elif inside:
            m = re.match(r'\s+- (.*)$', line)
            if not m:
                break
            roots.append(m.group(1).strip())
    return roots


def root_decls(ws):
    """(regal: dir -> project.roots, yaml: dir -> project.roots, dirs holding a .manifest FILE, dirs with .regal/rules)"""
    regal, yaml, rules = {}, {}, set()
    for d in ws.get('regal_dirs') or []:
        regal.setdefault(d, [])
        if d == '':
            regal[d] = regal[d] + list(ws.get('cfg_roots') or [])
    for pth, txt in (ws.get('extra') or {}).items():
        if pth == '.regal/config.yaml' or pth.endswith('/.regal/config.yaml'):
            d = pth[:-len('.regal/config.yaml')].rstrip('/')
            regal[d] = regal.get(d, []) + parse_cfg_roots(txt)
        elif pth == '.regal.yaml' or pth.endswith('/.regal.yaml'):
            d = pth[:-len('.regal.yaml')].rstrip('/')
            yaml[d] = parse_cfg_roots(txt)
    described = [f['path'] for f in ws['files'] or []] + list(ws.get('others') or []) + list(ws.get('extra') or {}) + \
        [e + '/' for e in ws.get('empty_dirs') or []]
    for e in described:
        i = ('/' + e).find('/.regal/rules/')
        if i >= 0:
            d = ('/' + e)[1:i] if i > 0 else ''
            regal.setdefault(d, [])
            rules.add(d)
    return regal, yaml, set(ws.get('manifests') or []), rules


def arg_dir(ws, a):
    """GetPotentialRoots takes the directory of an argument that is a file"""
    if any(f['path'] == a for f in ws['files'] or []) or a in (ws.get('others') or []):
        return a.rsplit('/', 1)[0] if '/' in a else ''
    return a


def spec_fbrd(ws, a):
    """the project roots an invocation on the directory a must know, per the description"""
    regal, yaml, mans, rules = root_decls(ws)
    found = set()

    def project(d, roots, is_dir):
        found.add(d)
        for r in roots:
            found.add(pjoin(d, r))
        if is_dir and d in rules:
            found.add(pjoin(d, '.regal/rules'))
        for m in mans:      # the bundles of that project (the search for them leaves out .git, .idea, node_modules)
            rel = m[len(d):].strip('/') if d else m
            if contains(d, m) and not any(c in SKIP_NAMES for c in rel.split('/')):
                found.add(m)
    ups = [a]
    while ups[-1] != '':
        ups.append(ups[-1].rsplit('/', 1)[0] if '/' in ups[-1] else '')
    for d in ups:
        if d in regal:
            project(d, regal[d], True)
            break
    for d in ups:
        if d in yaml:
            project(d, yaml[d], False)
            break
    for d in regal:
        if contains(a, d):
            project(d, regal[d], True)
    for m in mans:
        if contains(a, m):
            found.add(m)
    return found


def spec_gpr(ws):
    args = [arg_dir(ws, a) for a in ws['args']]
    found = set()
    for a in args:
        found |= spec_fbrd(ws, a)
    return found or set(args)


def discovery_predicate(r):
    """what config.FindBundleRootDirectories / config.GetPotentialRoots answered on the materialised workspace against
    the roots the description declares"""
    ws = r['ws']
    if ws.get('via') or r.get('fbrd') is None:     # reached through a symbolic link: WalkDir does not follow its root
        return None
    for a in ws['args']:
        got = r['fbrd'].get(a)
        want = sorted(spec_fbrd(ws, arg_dir(ws, a)))
        if got is not None and sorted(got) != want:
            lost = [x or '.' for x in want if x not in got]
            extra = [x or '.' for x in got if x not in want]
            return 'FindBundleRootDirectories(%s): %s%s' % (a or '.', ('misses ' + ', '.join(lost) + ' ') if lost else '',
                                                             ('has ' + ', '.join(extra) + ' which is not declared') if extra else '')
    # as SETS: without any declaration GetPotentialRoots answers with the argument directories as given, so an argument
    # named twice is listed twice (the same root; Check.C13Check.disc_agrees compares sets as well)
    got, want = sorted(set(r['roots'] or [])), sorted(spec_gpr(ws))
    if got != want:
        return 'GetPotentialRoots(%s) = %s, declared: %s' % (', '.join(x or '.' for x in ws['args']), [x or '.' for x in got], [x or '.' for x in want])
    return None


def spec_root(ws, pth):
    """the deepest root enclosing pth, among the roots of the description"""
    roots = set(declared_roots(ws))
    if not ws.get('via'):
        roots |= spec_gpr(ws)
    cands = [r for r in roots if contains(r, pth)]
    return max(cands, key=len) if cands else None


def predicate(r):
    """list of (kind, detail) violations of C13 visible in before/after alone"""
    ws = r['ws']
    before, after = r['before'], r['after']
    bad = []
    cls = classify(r)
    if ws['dry_run'] and before != after:
        bad.append(('dry-run-changed-disk', ''))
    if r['exit'] != 0 and (before['files'] != after['files'] or (cls == 'OutConflicts' and before != after)):
        bad.append(('failed-but-changed-disk', cls))
    if cls == 'OutOther':
        bad.append(('unexpected-failure', r['stderr'][:300]))
    # one-to-one: every original file's content (as is, or fixed) is in exactly one file afterwards
    origin = {}
    for f in ws['files'] or []:
        origin[file_content(f)] = f['path']
        origin[file_content(f, True)] = f['path']
    where = {}
    for rel, txt in after['files'].items():
        o = origin.get(txt)
        if o is not None:
            where.setdefault(o, []).append(rel)
        elif before['files'].get(rel) != txt:
            bad.append(('unknown-content-after', rel))
    for rel, txt in before['files'].items():
        if txt in origin:
            n = len(where.get(origin[txt], []))
            if n == 0:
                bad.append(('file-lost', rel))
            elif n > 1:
                bad.append(('file-duplicated', rel))
        elif after['files'].get(rel) != txt:
            bad.append(('other-file-changed', rel))
    sel = set(selected(ws))
    for rel in before['files']:
        if rel not in sel and after['files'].get(rel) != before['files'][rel]:
            if ('file-lost', rel) not in bad:
                bad.append(('unselected-file-changed', rel))
    # a moved file stays inside the project root it belonged to
    for o, rels in where.items():
        for rel in rels:
            if rel != o:
                sr = spec_root(ws, o)
                if sr is None:      # below no declared root: the file's own directory is taken as the root
                    sr = o.rsplit('/', 1)[0] if '/' in o else ''
                if not contains(sr, rel):
                    bad.append(('moved-out-of-root', '%s -> %s (root %s)' % (o, rel, sr or '.')))
    # directories are removed only if really empty, and every bystander is untouched: a directory may only disappear
    # when everything that was below it (at any depth) was a selected file that is no longer where it was (moved away)
    # or a directory; hidden files, non-rego files, symbolic links and unselected files keep their directory alive,
    # and a directory from below which nothing moved away (an empty or hidden sub-directory) is none of fix's business
    if r['exit'] == 0 and not ws['dry_run']:
        sel_set = set(selected(ws))
        moved_out = {rel for rel in before['files'] if rel in sel_set and rel not in after['files']}
        for d in before['dirs']:
            if d in after['dirs']:
                continue
            below = [rel for rel in before['files'] if contains(d, rel)]
            keep = [rel for rel in below if rel not in moved_out]
            if keep:
                bad.append(('non-empty-directory-removed', '%s (held %s)' % (d or '.', keep[0])))
            elif not below:
                bad.append(('bystander-directory-removed', d or '.'))
    # directories: none that still is (an ancestor of) a declared root disappears
    for d in before['dirs']:
        if d not in after['dirs'] and any(contains(d, rt) for rt in declared_roots(ws) if rt in before['dirs'] or rt == ''):
            bad.append(('root-directory-removed', d))
    return bad


def root_relations(ws):
    """how the declared roots of a workspace stand to each other and to the arguments (evidence histogram)"""
    regal, yaml, mans, rules = root_decls(ws)
    roots = sorted(spec_gpr(ws))
    out = set()
    for a in roots:
        for b in roots:
            if a != b and contains(a, b):
                ka = 'manifest' if a in mans else 'regal' if a in regal else 'yaml' if a in yaml else 'cfgroot'
                kb = 'manifest' if b in mans else 'regal' if b in regal else 'yaml' if b in yaml else 'cfgroot'
                out.add('%s-in-%s' % (kb, ka))
            elif a != b and b.startswith(a) and not contains(a, b) and a != '':
                out.add('prefix-siblings')
    args = [arg_dir(ws, a) for a in ws['args']]
    outer = [r for r in roots if not any(o != r and contains(o, r) for o in roots)]
    for a in args:
        for o in outer:
            out.add('arg-at-outer-root' if a == o else 'arg-above-outer-root' if contains(a, o) else 'arg-below-outer-root' if contains(o, a) else 'arg-beside-root')
    ups = set()
    for a in args:
        while True:
            ups.add(a)
            if a == '':
                break
            a = a.rsplit('/', 1)[0] if '/' in a else ''
    out.add('config-at-or-above-arg' if any(d in regal or d in yaml for d in ups) else 'no-config-at-or-above-arg')
    return out


def root_discovery_evidence(disc_all, disc_idx, disc_bad, disc_markers, disc_hits):
    h = {}
    for r in disc_all:
        if not r['ws'].get('via'):
            for k in root_relations(r['ws']):
                h[k] = h.get(k, 0) + 1
    return {'trees_compared_with_model': len(disc_idx), 'model_mismatches': len(disc_bad), 'declared_vs_discovered_mismatches': disc_hits,
            'trees_only_discovered_not_run': sum(1 for r in disc_all if r['kind'] == 'disc'),
            'marker_directories_per_tree': {str(k): disc_markers.count(k) for k in sorted(set(disc_markers))},
            'relations': dict(sorted(h.items()))}


def bystanders(ws):
    """entries of the workspace other than its rego files and root declarations, by kind"""
    out = []
    for o in ws.get('others') or []:
        b = o.rsplit('/', 1)[-1]
        out.append('hidden-file' if b.startswith('.') else 'file-in-subdir' if '/sub/' in '/' + o or '/.cache/' in '/' + o else 'plain-file')
    for d in ws.get('empty_dirs') or []:
        if d.rsplit('/', 1)[-1] in ('sub', '.cache'):
            out.append('hidden-dir' if d.rsplit('/', 1)[-1].startswith('.') else 'empty-subdir')
    for l, t in (ws.get('symlinks') or {}).items():
        out.append('symlink-to-dir' if t in ('.', '..') else 'symlink-to-file')
    return out


def bystander_hist(results):
    h = {}
    for r in results:
        for k in set(bystanders(r['ws'])):
            h[k] = h.get(k, 0) + 1
    return h


CORPUS = os.path.join(vlib.VERIF, 'corpus', 'C13')


def run_ws(ctx, h, regal, replay_ws=None, tag=''):
    wd = os.path.join(ctx.tmp, 'ws13' + tag)
    os.makedirs(wd, exist_ok=True)
    out = os.path.join(ctx.tmp, 'c13_ws%s.jsonl' % tag)
    env = dict(os.environ, VERIF_SEED=str(ctx.seed))
    if replay_ws is not None:
        cf = os.path.join(ctx.tmp, 'c13_replay_case%s.json' % tag)
        json.dump(replay_ws, open(cf, 'w'))
        rc, log = vlib.run([h, 'replay', out, cf, wd, regal], env=env, timeout=900)
    else:
        rc, log = vlib.run([h, 'gen', out, ctx.tier, wd, regal, CORPUS], env=env, timeout=3000)
    if rc != 0:
        raise RuntimeError('c13 harness failed: ' + log[-2000:])
    return [json.loads(l) for l in open(out)]


def fails(x, kind):
    if kind == 'root-discovery-differs':
        return discovery_predicate(x) is not None
    return any(k == kind for k, _ in predicate(x))


def shrink(ctx, h, regal, r, kind):
    """greedy: drop files / declarations of the workspace while the same predicate still fails"""
    ws = json.loads(json.dumps(r['ws']))
    best = r
    n = 0

    def still(cand):
        nonlocal n
        n += 1
        rs = run_ws(ctx, h, regal, cand, tag='_s%d' % n)
        # (the stored workspace is run several times: the order of the moves differs from run to run)
        return next((x for x in rs if fails(x, kind)), None)
    changed = True
    while changed and n < 16:
        changed = False
        for key in ('files', 'others', 'empty_dirs', 'manifests', 'cfg_roots', 'symlinks', 'extra', 'regal_dirs'):
            for i in range(len(ws.get(key) or [])):
                cand = json.loads(json.dumps(ws))
                if key in ('symlinks', 'extra'):
                    del cand[key][sorted(cand[key])[i]]
                else:
                    del cand[key][i]
                if key == 'files' and not cand['files']:
                    continue
                got = still(cand)
                if got is not None:
                    ws, best, changed = cand, got, True
                    break
            if changed:
                break
    return best


def sig_key(r, kind):
    ws = r['ws']
    return json.dumps({'files': [[f['path'], f['pkg']] for f in ws['files'] or []], 'others': ws.get('others') or [],
                       'empty_dirs': ws.get('empty_dirs') or [], 'symlinks': ws.get('symlinks') or {},
                       'regal_dirs': ws.get('regal_dirs') or [], 'cfg_roots': ws.get('cfg_roots') or [], 'manifests': ws.get('manifests') or [],
                       **({'extra': ws['extra']} if ws.get('extra') else {}),
                       'args': ws['args'], 'ignore': ws.get('ignore') or '', 'policy': ws['policy']}, sort_keys=True)


def run(ctx):
    from concurrent.futures import ThreadPoolExecutor
    h = vlib.build_harness(ctx, 'c13')
    regal = vlib.build_regal(ctx)
    replay_ws = replay_unit = None
    replay_disc = False
    if ctx.replay:
        case = json.load(open(ctx.replay)).get('case') or {}
        replay_ws = case.get('ws')
        replay_disc = bool(case.get('disc'))
        if case.get('hist'):
            replay_unit = ('seq', case['hist'])
        elif case.get('tree'):
            replay_unit = ('cleanup', case['tree'])

    import time
    tm = {}

    def unit_part():
        if replay_ws is not None:
            return eval_unit(ctx, [])
        t1 = time.time()
        cases = run_overlays(ctx, replay_unit)
        tm['overlay_tests'] = round(time.time() - t1, 1)
        t1 = time.time()
        res = eval_unit(ctx, cases)
        tm['unit_case_evaluation'] = round(time.time() - t1, 1)
        return res

    def ws_part():
        if replay_unit is not None:
            return [], [], [], [], ([], [], [])
        t1 = time.time()
        allres = run_ws(ctx, h, regal, replay_ws)
        tm['workspace_runs'] = round(time.time() - t1, 1)
        # kind "disc": trees that were only shown to the discovery functions (also: the replay of a discovery case)
        results = [r for r in allres if r['kind'] == 'ws' and not replay_disc]
        discs = [r for r in allres if r['kind'] == 'disc' or replay_disc]
        t1 = time.time()
        with ThreadPoolExecutor(max_workers=2) as ex2:
            fd = ex2.submit(eval_disc, ctx, results + discs)
            w1, w2 = eval_ws(ctx, results)
            dres = fd.result()
        tm['workspace_case_evaluation'] = round(time.time() - t1, 1)
        return results, w1, w2, discs, dres
    with ThreadPoolExecutor(max_workers=2) as ex:
        fu = ex.submit(unit_part)
        fw = ex.submit(ws_part)
        cands, seqs, fcmrs, cleans, ures = fu.result()
        results, w1, leaves, discs, (disc_idx, disc_bad, disc_markers) = fw.result()
    disc_all = results + discs

    # ---- verdicts: first the property on the implementation's own outputs
    pred_hits, reported = {}, 0
    for r in results:
        hits = predicate(r)
        for kind, detail in hits:
            pred_hits[kind] = pred_hits.get(kind, 0) + 1
        if hits and reported < 2:
            kind = hits[0][0]
            small = shrink(ctx, h, regal, r, kind) if not ctx.replay else r
            hs = [x for x in predicate(small) if x[0] == kind] or hits
            vlib.violation(ctx, {'kind': kind, 'detail': hs[0][1], 'case': {'ws': small['ws']}, 'cmd': small['cmd'], 'exit': small['exit'],
                                 'stderr': small['stderr'][:400], 'before': small['before'], 'after': small['after'],
                                 'what': 'regal fix --force: ' + kind + ' ' + hs[0][1]},
                           signature={'kind': kind, 'key': sig_key(small, kind)})
            reported += 1
    # root discovery on the real functions against the roots the description declares (every workspace, run or not)
    disc_hits, disc_reported = 0, 0
    for r in sorted(disc_all, key=lambda r: (len(r['ws']['files'] or []) + len(r['ws'].get('extra') or {}) + len(r['ws'].get('manifests') or []))):
        w = discovery_predicate(r)
        if w:
            disc_hits += 1
            if disc_reported < 1:
                small = r if ctx.replay else shrink(ctx, h, regal, r, 'root-discovery-differs')
                w = discovery_predicate(small) or w
                vlib.violation(ctx, {'kind': 'root-discovery-differs', 'detail': w, 'case': {'ws': small['ws'], 'disc': True},
                                     'observed': {'GetPotentialRoots': small['roots'], 'FindBundleRootDirectories': small.get('fbrd')},
                                     'tree': sorted(small['before']['files']),
                                     'what': 'project roots of the workspace as declared (.manifest / .regal / config) vs. pkg/config: ' + w},
                               signature={'kind': 'root-discovery-differs', 'key': sig_key(small, '')})
                disc_reported += 1
    hist_hits = clean_hits = 0
    # (the small named shapes first: they make the most readable replays)
    for c in sorted(seqs, key=lambda c: (0 if (c.get('hist') or {}).get('shape', 'random') != 'random' else 1, len(c['ops']))):
        w = history_predicate(c)
        if w:
            hist_hits += 1
            if hist_hits <= 2:
                disk = c.get('disk') or []
                hist = c.get('hist') or {'shape': 'random-ops', 'policy': c['policy'], 'disk': bool(disk), 'init': c['init'],
                                         'unloaded': [d for d in disk if d != '/R' and d not in {k for k, _ in c['init']}
                                                      and not any(x.startswith(d + '/') for x in disk)],
                                         'moves': [{'from': o['a'], 'to': o['b']} for o in c['ops']]}
                vlib.violation(ctx, {'kind': 'fixer-history-not-conserved', 'case': {'hist': hist},
                                     'observed': {k: c[k] for k in ('files', 'modified', 'deleted', 'conflicts', 'has_conflicts')},
                                     'what': 'Fixer.handleRename on a real InMemoryFileProvider (%s, policy %s), moves in this order: %s: %s' % (
                                         'from disk' if hist['disk'] else 'from a map', c['policy'],
                                         '; '.join('%s -> %s' % (o['a'], o['b']) for o in c['ops']), w)},
                               signature={'kind': 'fixer-history-not-conserved', 'key': json.dumps([c['policy'], c['init'], c['ops']], sort_keys=True)})
    for c in cleans:
        w = cleanup_predicate(c)
        if w:
            clean_hits += 1
            if clean_hits <= 2:
                vlib.violation(ctx, {'kind': 'cleanup-lists-non-empty-directory', 'case': {'tree': c['tree']}, 'got': c['got'],
                                     'what': 'DirCleanUpPaths(%s, %r) = %r on a real tree (entries %s): %s' % (
                                         c['target'], c['roots'], c['got'], ' '.join(e['path'] for e in c['entries']), w)},
                               signature={'kind': 'cleanup-lists-non-empty-directory', 'key': json.dumps(c['tree'], sort_keys=True)})
    for c in seqs:
        if c['status'] == 'hang':
            vlib.violation(ctx, {'kind': 'rename-loop-does-not-terminate', 'case': {'seq': c},
                                 'what': 'Fixer.handleRename did not return within 10 s on this provider and operation sequence (policy %s)' % c['policy']},
                           signature={'kind': 'rename-loop-does-not-terminate', 'key': json.dumps([c['init'], c['ops']], sort_keys=True)})
            break
    for i in ures['U4'][:1]:
        c = fcmrs[i]
        vlib.violation(ctx, {'kind': 'closest-root-not-an-ancestor', 'case': {'fcmr': c},
                             'what': 'FindClosestMatchingRoot(%r, %r) = %r' % (c['path'], c['roots'], c['got'])},
                       signature={'kind': 'closest-root-not-an-ancestor', 'key': json.dumps([c['path'], c['roots']])})
    # ---- then the correspondence
    rel = [('U1', 'Check.C13Check.cand_agrees (Model.Rename.rename_candidate vs renameCandidate)', cands),
           ('U2', 'Check.C13Check.seq_agrees (Model.Provider / handle_rename vs InMemoryFileProvider / handleRename)', seqs),
           ('U3', 'Check.C13Check.fcmr_agrees (find_closest_matching_root vs FindClosestMatchingRoot)', fcmrs),
           ('U5', 'Check.C13Check.cleanup_agrees (dir_cleanup_paths vs DirCleanUpPaths)', cleans)]
    for key, name, lst in rel:
        if ures[key] and not ctx.violations:
            c = lst[ures[key][0]]
            if key == 'U1':
                c = {'in': b64(c['in']).decode('latin-1'), 'out': b64(c['out']).decode('latin-1')}
            vlib.violation(ctx, {'kind': 'correspondence', 'relation': name, 'case': c, 'n_mismatches': len(ures[key])}, no_input=True)
    if disc_bad and not ctx.violations:
        r = disc_all[disc_bad[0]]
        vlib.violation(ctx, {'kind': 'correspondence', 'relation': 'Check.C13Check.disc_agrees (Model.RootDiscovery find_bundle_roots / get_potential_roots vs '
                             'config.FindBundleRootDirectories / config.GetPotentialRoots)', 'case': {'ws': r['ws'], 'disc': True},
                             'observed': {'GetPotentialRoots': r['roots'], 'FindBundleRootDirectories': r.get('fbrd')}, 'tree': sorted(r['before']['files']),
                             'n_mismatches': len(disc_bad)}, no_input=True)
    if w1 and not ctx.violations:
        r = results[w1[0]]
        vlib.violation(ctx, {'kind': 'correspondence', 'relation': 'Check.C13Check.ws_agrees (fix_loop + finish_command vs the regal binary)',
                             'case': {'ws': r['ws']}, 'cmd': r['cmd'], 'exit': r['exit'], 'stderr': r['stderr'][:300], 'roots': r['roots'],
                             'before': r['before'], 'after': r['after'], 'n_mismatches': len(w1)}, no_input=True)
    proof_gate(ctx)

    moved = sum(1 for r in results if r['before']['files'] != r['after']['files'])
    hist = {}
    for r in results:
        k = '%s|%s%s' % (classify(r), r['ws']['policy'], '|dry' if r['ws']['dry_run'] else '')
        hist[k] = hist.get(k, 0) + 1
    distinct = len({json.dumps(r['ws'], sort_keys=True) for r in results})
    nontrivial = len({sig_key(r, '') + str(r['ws']['dry_run']) for r, lv in zip(results, leaves)
                      if r['before'] != r['after'] or r['exit'] != 0 or lv > 1})
    cov = proof_coverage(ctx, {
        'evaluations': len(cands) + len(seqs) + len(fcmrs) + len(cleans) + len(results) + len(disc_idx),
        'distinct_nontrivial': nontrivial,
        'rule': 'workspaces (distinct files/config/arguments/policy) run through the real binary in which something happened: the tree changed, the '
                'command failed, or more than one violation order was possible; unit cases are counted in evaluations only',
        'workspace_runs': len(results), 'workspaces_distinct': distinct, 'workspaces_tree_changed': moved,
        'schedule_leaves_histogram': {str(k): leaves.count(k) for k in sorted(set(leaves))},
        'outcome_histogram': hist, 'predicate_hits': pred_hits,
        'timing_s': tm,
        'root_discovery': root_discovery_evidence(disc_all, disc_idx, disc_bad, disc_markers, disc_hits),
        'unit_predicate_hits': {'fixer_history': hist_hits, 'dir_cleanup': clean_hits},
        'workspaces_with_bystanders': sum(1 for r in results if bystanders(r['ws'])),
        'workspace_bystander_kinds': bystander_hist(results),
        'ordered_histories': {'total': sum(1 for c in seqs if c.get('hist')),
                              'by_shape': {k: sum(1 for c in seqs if (c.get('hist') or {}).get('shape') == k)
                                           for k in sorted({(c.get('hist') or {}).get('shape') for c in seqs if c.get('hist')})}},
        'cleanup_trees_with_bystanders': sum(1 for c in cleans if any(e['kind'] == 'symlink' or (e['kind'] == 'file' and not e['path'].endswith('.rego')
                                                                         and e['path'] != '/R/keep.txt') or e['path'].endswith(('/sub', '/.cache')) for e in c['entries'])),
        'unit_cases': {'rename_candidate': len(cands), 'provider_handle_rename_sequences': len(seqs), 'closest_root': len(fcmrs), 'closest_root_in_spec_domain': ures['fcmr_in_domain'], 'dir_cleanup': len(cleans)},
        'mismatch': {'rename_candidate': len(ures['U1']), 'sequences': len(ures['U2']), 'closest_root': len(ures['U3']), 'closest_root_vs_spec': len(ures['U4']),
                     'dir_cleanup': len(ures['U5']), 'workspaces': len(w1), 'root_discovery': len(disc_bad)},
        'samples': [{'name': r['ws']['name'], 'cmd': r['cmd'], 'exit': r['exit'], 'before': sorted(r['before']['files']), 'after': sorted(r['after']['files'])}
                    for r in results[:3]],
        'exhaustive': False,
    })
    return vlib.finish(ctx, 'proof', cov, [
        'Go stdlib path functions (path.Clean/Join, filepath.Dir/Base/Ext), strconv.Atoi, the regexp of renameCandidate are modelled and validated by '
        'this correspondence only',
        'the linter is an oracle: package path per content and the content after non-moving fixes; the directory-package-mismatch rule itself '
        '(last n directory components vs package path) is modelled and validated through the binary',
        'file system: regular files and directories only; permissions, symlinks, concurrent modification are outside the model',
        'root discovery: the fix_loop model takes config.GetPotentialRoots as observed; the discovery itself is modelled separately (Model/RootDiscovery.v, '
        'YAML parsing an oracle, nothing above the workspace directory holds a regal config) and compared on every workspace; the snapshot predicate uses '
        'the roots worked out from the workspace description',
    ])
