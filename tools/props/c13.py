"""C13: fixing conserves files (nothing lost or overwritten, conflicts honoured).

Layers of the tie (all built from vlib.REPO's working tree):
  unit   overlay tests inside pkg/fixer and internal/util: renameCandidate, handleRename op sequences on the
         real InMemoryFileProvider (map- and disk-backed), FindClosestMatchingRoot, DirCleanUpPaths on temp trees
  ws     small workspaces through the real `regal fix --force` binary: before/after tree snapshots against the set
         of trees the model allows (the order of violations is schedule dependent), plus the conservation predicate
         computed on the snapshots alone
"""
import base64, json, os, re
import vlib
from vlib import cstr, clist, cbool, cnat
from common import proof_gate, proof_coverage

HERE = os.path.dirname(os.path.abspath(__file__))
OVERLAY = os.path.join(vlib.VERIF, 'harness', 'overlay')


def b64(s):
    return base64.b64decode(s)


def cstrs(xs):
    return clist(cstr(x) for x in (xs or []))


def cmap(kvs):
    return clist('(%s, %s)' % (cstr(k), cstr(v)) for k, v in (kvs or []))


POL = {'error': 'PError', 'rename': 'PRename'}
RES = {'ok': 0, 'conflict': 1, 'notfound': 2}


def op_term(o):
    if o['op'] == 'put':
        return 'OpPut %s %s' % (cstr(o['a']), cstr(o['b']))
    if o['op'] == 'delete':
        return 'OpDelete %s' % cstr(o['a'])
    if o['op'] == 'rename':
        return 'OpRename %s %s %s' % (cstr(o['a']), cstr(o['b']), cnat(RES[o['root']]))
    return 'OpMove %s %s %s' % (cstr(o['root']), cstr(o['a']), cstr(o['b']))


def conf_term(c):
    return '(%s, %s, %s, %s)' % ('CManyToOne' if c['kind'] == 'm2o' else 'CSourceFile', cstr(c['root']), cstr(c['to']), cstr(c['from']))


def seq_term(c):
    return ('{| sc_policy := %s; sc_init := %s; sc_starting := %s; sc_disk := %s; sc_ops := %s; sc_ok := %s; '
            'sc_files := %s; sc_modified := %s; sc_deleted := %s; sc_conflicts := %s |}') % (
        POL[c['policy']], cmap(c['init']), cstrs(c['starting']), cstrs(c.get('disk')), clist(op_term(o) for o in c['ops']),
        cbool(c['status'] == 'ok'), cmap(c['files']), cstrs(c['modified']), cstrs(c['deleted']),
        clist(conf_term(x) for x in (c['conflicts'] or [])))


def run_overlays(ctx):
    """returns the list of unit cases observed on the implementation"""
    env = {'VERIF_SEED': str(ctx.seed), 'VERIF_TIER': ctx.tier}
    out1 = os.path.join(ctx.tmp, 'c13_fixer.jsonl')
    rc, log = vlib.go_test_overlay(ctx, './pkg/fixer', {'pkg/fixer/zz_verif_c13_test.go': os.path.join(OVERLAY, 'c13_fixer_test.go')},
                                   'TestVerifC13$', env_extra=dict(env, VERIF_OUT=out1))
    if rc != 0 or not os.path.exists(out1):
        raise vlib.HarnessBuildError('overlay test in pkg/fixer failed:\n' + log[-3000:])
    out2 = os.path.join(ctx.tmp, 'c13_util.jsonl')
    rc, log = vlib.go_test_overlay(ctx, './internal/util', {'internal/util/zz_verif_c13_test.go': os.path.join(OVERLAY, 'c13_util_test.go')},
                                   'TestVerifC13Util$', env_extra=dict(env, VERIF_OUT=out2))
    if rc != 0 or not os.path.exists(out2):
        raise vlib.HarnessBuildError('overlay test in internal/util failed:\n' + log[-3000:])
    return [json.loads(l) for l in open(out1)] + [json.loads(l) for l in open(out2)]


def eval_unit(ctx, cases):
    cands = [c for c in cases if c['kind'] == 'cand']
    seqs = [c for c in cases if c['kind'] == 'seq']
    fcmrs = [c for c in cases if c['kind'] == 'fcmr']
    cleans = [c for c in cases if c['kind'] == 'cleanup']
    v = ['From Regal Require Import Check.C13Check.', 'Open Scope N_scope.']
    v.append('Definition cands : list cand_case := ' + clist('(%s, %s)' % (cstr(b64(c['in'])), cstr(b64(c['out']))) for c in cands) + '.')
    v.append('Definition seqs : list seq_case := ' + clist(seq_term(c) for c in seqs) + '.')
    v.append('Definition fcmrs : list fcmr_case := ' + clist(
        '{| fc_path := %s; fc_roots := %s; fc_got := %s |}' % (cstr(c['path']), cstrs(c['roots']), cstr(c['got'])) for c in fcmrs) + '.')
    v.append('Definition cleans : list cleanup_case := ' + clist(
        '{| cc_files := %s; cc_dirs := %s; cc_roots := %s; cc_target := %s; cc_got := %s; cc_err := %s |}' % (
            cstrs(c['files']), cstrs(c['dirs']), cstrs(c['roots']), cstr(c['target']), cstrs(c['got']), cbool(c['err'])) for c in cleans) + '.')
    v.append('Definition U1 := Eval vm_compute in failing cand_agrees 0 cands.')
    v.append('Definition U2 := Eval vm_compute in failing seq_agrees 0 seqs.')
    v.append('Definition U3 := Eval vm_compute in failing fcmr_agrees 0 fcmrs.')
    v.append('Definition U4 := Eval vm_compute in failing fcmr_meets_spec 0 fcmrs.')
    v.append('Definition U5 := Eval vm_compute in failing cleanup_agrees 0 cleans.')
    v.append('Print U1. Print U2. Print U3. Print U4. Print U5.')
    rc, out = vlib.coq_eval(ctx, 'Cases_C13_unit', '\n'.join(v))
    if rc != 0:
        raise RuntimeError('unit case evaluation failed:\n' + out[-3000:])
    res = {k: vlib.parse_nat_list(out, k) for k in ('U1', 'U2', 'U3', 'U4', 'U5')}
    return cands, seqs, fcmrs, cleans, res


def run(ctx):
    raise NotImplementedError
