"""C12: fixing terminates, removes what it claims to fix, and is idempotent.

The harness (harness/cmd/c12) runs the real Fixer.Fix loop on generated file sets x subsets of the six fixable rules
under an iteration cap and a deadline, records the files seen by every iteration and what the linter reports for
them, re-lints the result and fixes a second time.  Here:
  * predicate on the implementation alone: no cap/deadline hit, no error on a lintable set, no violation of an enabled
    fixable rule left (unless a conflict was reported), second fix changes nothing;
  * correspondence: Model/FixLoop.v [pass] (one iteration: skip logic, text fixes of Model/Fixes.v, formatter and
    rename results tabulated from the real fixes) must lead from the files of iteration k to those of iteration k+1;
    in rename mode the numbered name is the model's own (C13's rename_candidate iterated on the name tried last), and every
    fp.Rename request the provider saw is compared with Model/FixLoop.v [rename_loop] (number of rounds, every name asked);
  * file sets with k-way collisions of moves (2-4 files of one base name and package, candidate names already taken) under
    BOTH conflict modes; a candidate loop that does not end is cut by a cap on Rename requests = non-termination;
  * directory-package-mismatch, rule (Rego) vs fix (Go) as two implementations of "the directory a package belongs in":
    generated package paths (_test in every position, quoted components, names the fix refuses) x exclude-test-suffix x
    placements; predicate on the observations alone (the fix's target is accepted by the rule, "in place" only where the rule
    is silent, the fix leaves its own target alone) and correspondence with Model/DpmAgree.v; plus end-to-end file sets.
  * the command itself (both tiers): `regal fix --force` of the REAL BINARY on a few file sets that exercise the disk phase
    of cmd/fix.go (moves into directories emptied by the same run, swapped directories, chains, a move plus content
    fixes): exit status 0, the tree on disk is what Fixer.Fix computed in memory, `regal lint` of the resulting tree
    reports no violation of an enabled fixable rule, and a second `regal fix` changes nothing (same tree, directories
    included).  The thorough tier also runs the binary on every regression file set."""
import base64, collections, json, os, re
import vlib
from vlib import clist
from common import proof_gate, proof_coverage

RULE = {'use-assignment-operator': 'RUao', 'no-whitespace-comment': 'RNwc', 'non-raw-regex-pattern': 'RNrr',
        'opa-fmt': 'RFmt', 'use-rego-v1': 'RV1', 'directory-package-mismatch': 'RDpm'}
SHORT = {'fmt': 'RFmt', 'v1': 'RV1', 'dpm': 'RDpm'}


class Enc:
    def __init__(self):
        self.names = {}
        self.defs = []

    def name(self, b):
        if isinstance(b, str):
            b = b.encode('utf-8', 'surrogateescape')
        if b in self.names:
            return self.names[b]
        n = 's%d' % len(self.names)
        self.names[b] = n
        words = [len(b)]
        for i in range(0, len(b), 7):
            words.append(int.from_bytes(b[i:i + 7].ljust(7, b'\0'), 'big'))
        self.defs.append('Definition %s := packed [%s]%%uint63.' % (n, ';'.join(map(str, words))))
        return n


def zlit(n):
    return '(%d)%%Z' % n


def fs_v(E, files):
    return clist('(%s, %s)' % (E.name(f['path']), E.name(base64.b64decode(f['content']))) for f in files)


def viol_v(E, vs):
    return clist('{| v_rule := %s; v_file := %s; v_loc := {| l_row := %s; l_col := %s |} |}' % (
        RULE[v['title']], E.name(v['file']), zlit(v['row']), zlit(v['col'])) for v in vs if v['title'] in RULE)


def table_v(E, oracle):
    out = []
    for e in oracle or []:
        if e['err']:
            res = 'FError'
        elif not e['changed']:
            res = 'FNone'
        elif e['rule'] == 'dpm':
            res = '(FRename %s)' % E.name(e['to'])
        else:
            res = '(FContent %s)' % E.name(base64.b64decode(e['out']))
        out.append('{| o_rule := %s; o_file := %s; o_in := %s; o_res := %s |}' % (
            SHORT[e['rule']], E.name(e['file']), E.name(base64.b64decode(e['in'])), res))
    return clist(out)


def dec(s):
    return base64.b64decode(s or '').decode('utf-8', 'backslashreplace')


def files_plain(fs):
    return {f['path']: dec(f['content']) for f in fs or []}


def literal_unconvertible(line, col):
    """is the string literal starting at character column col one that has no raw equivalent on one line?"""
    chars = list(line)
    i = col - 1
    if i < 0 or i >= len(chars) or chars[i] != '"':
        return False
    i += 1
    while i < len(chars):
        ch = chars[i]
        if ch == '"':
            return False
        if ch == '`':
            return True
        if ch == '\\':
            if i + 1 < len(chars) and chars[i + 1] == '\\':
                i += 2
                continue
            return True
        i += 1
    return True


def residual_class(c, v):
    """remaining violation -> class used as the signature key"""
    final = files_plain(c['final'])
    text = final.get(v['file'], '')
    lines = text.replace('\r\n', '\n').split('\n')
    line = lines[v['row'] - 1] if 1 <= v['row'] <= len(lines) else ''
    if v['title'] == 'non-raw-regex-pattern' and literal_unconvertible(line, v['col']):
        return 'non-raw-regex-pattern:literal-has-no-raw-equivalent'
    if v['title'] == 'use-assignment-operator' and v.get('head_fallback'):
        return 'use-assignment-operator:operator-and-value-on-different-rows'
    return None


ALL_RULES = ['uao', 'nwc', 'nrr', 'fmt', 'v1', 'dpm']


def disk_scenarios(ctx):
    """file sets (corpus format) for the disk phase of the command: every file is in the directory of ANOTHER package,
    so that directories are emptied by moves and receive moved files in the same run.  Four fixed shapes + one drawn
    from the run's PRNG (a permutation of 2-4 directories, one or two files each, with or without content fixes)."""
    plain = 'package %s\n\nallow if input.x == %d\n'
    out = [
        {'name': 'disk-swapped-directories', 'rules': ['dpm'], 'mode': 'error', 'files': {
            '/ws/billing/policy.rego': plain % ('shipping', 1), '/ws/shipping/rules.rego': plain % ('billing', 2)}},
        {'name': 'disk-moved-into-directory-emptied', 'rules': ALL_RULES, 'mode': 'error', 'files': {
            '/ws/billing/policy.rego': plain % ('other', 1), '/ws/misc/rules.rego': plain % ('billing', 2),
            '/ws/misc/main.rego': plain % ('misc', 3)}},
        {'name': 'disk-chain-of-three-nested', 'rules': ['fmt', 'dpm'], 'mode': 'rename', 'files': {
            '/ws/a/a.rego': plain % ('b.sub', 1), '/ws/b/sub/b.rego': plain % ('c', 2), '/ws/c/c.rego': plain % ('a', 3),
            '/ws/c/deep/er/d.rego': plain % ('b', 4)}},
        {'name': 'disk-swap-plus-content-fixes', 'rules': ALL_RULES, 'mode': 'error', 'files': {
            '/ws/p/a.rego': 'package q\n\nx = 1 #c\n\nallow if {\n\tregex.match("[0-9]+", input.x)\n}\n',
            '/ws/q/sub/b.rego': 'package p\n\n#comment\ny  =  "a=b"\n\nz = 2 if   input.y\n'}},
        # package paths whose _test component is not the last one (and one where it is): rule and fix must agree on the place
        {'name': 'disk-package-paths-with-test-suffix', 'rules': ['dpm'], 'mode': 'error', 'files': {
            '/ws/helpers.rego': 'package authz_test.helpers\n\nallow if input.x == 1\n',
            '/ws/x/policy_test.rego': 'package authz.policy_test\n\ntest_allow if true\n',
            '/ws/authz/other/util.rego': 'package authz_test.other\n\nu := 1\n'}},
        {'name': 'disk-test-suffix-kept-by-configuration', 'rules': ['dpm'], 'mode': 'error', 'no_exclude_test_suffix': True, 'files': {
            '/ws/authz/policy/policy_test.rego': 'package authz.policy_test\n\ntest_allow if true\n',
            '/ws/x.rego': 'package a_test.b\n\nu := 1\n'}},
    ]
    pool = ['alpha', 'beta/one', 'gamma', 'delta/x/y', 'eps', 'zeta/inner']
    bodies = ['allow if input.x == %d\n', 'x = %d #c\n', 'r%d  :=  "a=b"\n\ndeny contains m if m := "x"\n',
              'ok if {\n\tregex.match("a+%d", input.s)\n}\n']
    k = 2 + ctx.rng.below(3)
    dirs = ctx.rng.shuffle(pool)[:k]
    rot = 1 + ctx.rng.below(k - 1)
    files = {}
    for i, d in enumerate(dirs):
        target = dirs[(i + rot) % k]
        for j in range(1 + ctx.rng.below(2)):
            n = len(files)
            files['/ws/%s/f%d.rego' % (d, n)] = 'package %s\n\n%s' % (target.replace('/', '.'), ctx.rng.choice(bodies) % n)
    out.append({'name': 'disk-drawn-rotation-of-%d' % k, 'rules': ALL_RULES, 'mode': ctx.rng.choice(['error', 'rename']), 'files': files})
    return out


def config_yaml(no_exclude):
    """.regal/config.yaml of a workspace handed to the binary"""
    if no_exclude:
        return 'rules:\n  idiomatic:\n    directory-package-mismatch:\n      level: error\n      exclude-test-suffix: false\n'
    return 'rules: {}\n'


def tree_of(root):
    """(files: /ws-path -> bytes, directories incl. empty ones) under root, the .regal directory left out"""
    files, dirs = {}, set()
    for d, ds, fs in os.walk(root):
        if '.regal' in ds:
            ds.remove('.regal')
        rel = os.path.relpath(d, root)
        if rel != '.':
            dirs.add('/ws/' + rel)
        for f in fs:
            q = os.path.join(d, f)
            files['/ws/' + os.path.relpath(q, root)] = open(q, 'rb').read()
    return files, sorted(dirs)


def binary_disk_run(regal, workdir, c):
    """one file set through the real command: regal fix, regal lint of the result, regal fix again.
    c: {'files': {path: bytes}, 'rules': [short], 'mode'} -> observations (no verdict here)"""
    import shutil, subprocess
    shutil.rmtree(workdir, ignore_errors=True)
    root = os.path.join(workdir, 'ws')
    for p, b in c['files'].items():
        q = os.path.join(root, os.path.relpath(p, '/ws'))
        os.makedirs(os.path.dirname(q), exist_ok=True)
        open(q, 'wb').write(b)
    os.makedirs(os.path.join(root, '.regal'), exist_ok=True)
    open(os.path.join(root, '.regal', 'config.yaml'), 'w').write(config_yaml(c.get('no_exclude_test_suffix')))
    enable = [x for r in c['rules'] for x in ('--enable', LONG[r])]
    fix = [regal, 'fix', '--force', '--disable-all', '--on-conflict', c['mode']] + enable + [root]
    o = {'cmd': fix[1:-1], 'runs': 0}

    def call(cmd):
        o['runs'] += 1
        try:
            p = subprocess.run(cmd, cwd=root, stdout=subprocess.PIPE, stderr=subprocess.PIPE, timeout=300)
            return p.returncode, p.stdout.decode('utf-8', 'replace'), p.stderr.decode('utf-8', 'replace')
        except subprocess.TimeoutExpired:
            return None, '', 'still running after 300 s'
    o['fix_exit'], out, err = call(fix)
    o['fix_output'] = (out + err).replace(workdir, '')[-600:]
    o['after_fix'] = tree_of(root)
    if o['fix_exit'] != 0:
        return o
    rc, out, err = call([regal, 'lint', '--format', 'json', '--disable-all'] + enable + [root])
    o['lint_exit'] = rc
    try:
        rep = json.loads(out)
        o['lint_violations'] = [{'title': v['title'], 'file': '/ws/' + os.path.relpath(os.path.join(root, v['location']['file']), root),
                                 'row': v['location'].get('row'), 'col': v['location'].get('col')} for v in rep.get('violations') or []]
    except (ValueError, KeyError, TypeError):
        o['lint_violations'] = None
        o['lint_output'] = (out + err).replace(workdir, '')[-600:]
    o['fix2_exit'], out, err = call(fix)
    o['fix2_output'] = (out + err).replace(workdir, '')[-300:]
    o['after_fix2'] = tree_of(root)
    shutil.rmtree(workdir, ignore_errors=True)
    return o


def plain(tree):
    return {k: v.decode('utf-8', 'backslashreplace') for k, v in tree.items()}


def same_tree(got, want, mode):
    """files on disk vs files computed in memory.  In rename mode, WHICH of two colliding files gets the numbered name
    depends on the order in which the linter's workers return their violations (not fixed, neither in the model: the
    correspondence is existential over that order): there the trees are compared up to a `_<n>` suffix of the name (`_<n>_test` for test files)"""
    if got == want:
        return True
    if mode != 'rename':
        return False
    key = lambda t: sorted((re.sub(r'_\d+((?:_test)?\.rego)$', r'\1', p_), b) for p_, b in t.items())
    return key(got) == key(want)


def binary_disk_verdicts(c, o, report, cli):
    """c: the harness' record of the same file set (in memory), o: what the command did on disk"""
    cli['run'] += o['runs']
    cli['file_sets'] = cli.get('file_sets', 0) + 1
    extra = {'binary': True, 'cmd': o['cmd'], 'exit': o['fix_exit'], 'output': o['fix_output'],
             'on_disk': plain(o['after_fix'][0]), 'directories_on_disk': o['after_fix'][1]}
    if o['fix_exit'] is None:
        cli['timeouts'] += 1
        report('non-termination', c, None, dict(extra, what='regal fix --force (the binary) still running after 300 s'))
        return
    if c['err'] or c['conflicts']:
        return   # the in-memory run failed / reported a conflict: the command refuses, nothing to compare on disk
    if o['fix_exit'] != 0:
        cli['failures'] = cli.get('failures', 0) + 1
        report('binary-fix-fails-on-lintable-input', c, None, dict(extra, what='regal fix --force exits %d on a file set that lint accepts and '
               'that Fixer.Fix fixes without error or conflict; files left on disk: %s' % (o['fix_exit'], sorted(o['after_fix'][0]))))
        return
    if not same_tree(o['after_fix'][0], files_plain_bytes(c['final']), c['mode']):
        cli['diffs'] += 1
        report('binary-differs-from-fixer', c, None, dict(extra, what='files on disk after regal fix --force differ from what Fixer.Fix computed in memory'))
    if o.get('lint_violations') is None or o['lint_exit'] not in (0, 3):
        report('binary-result-does-not-lint', c, None, dict(extra, what='regal lint of the fixed tree failed', lint_exit=o.get('lint_exit'),
               lint_output=o.get('lint_output', '')))
    else:
        left = [v for v in o['lint_violations'] if v['title'] in [LONG[r] for r in c['rules']]]
        for v in left[:1]:
            cli['violations_left'] = cli.get('violations_left', 0) + 1
            report('binary-violation-remains', c, None, dict(extra, violation=v, what='regal lint still reports a violation of an enabled fixable '
                   'rule for the tree regal fix left on disk'))
    if o['fix2_exit'] != 0 or o['after_fix2'] != o['after_fix']:
        cli['second_changes'] = cli.get('second_changes', 0) + 1
        report('binary-second-fix-changes', c, None, dict(extra, what='a second regal fix --force changed the tree (or failed: exit %s %s)'
               % (o['fix2_exit'], o['fix2_output']), after_second_fix=plain(o['after_fix2'][0]), directories_after_second_fix=o['after_fix2'][1]))


def binary_runs(ctx, corpus_sets, cli, report):
    """regal fix --force on disk must finish under a generous timeout and leave the files Fixer.Fix computed in memory"""
    import shutil, subprocess
    regal = vlib.build_regal(ctx)
    for n, c in enumerate(corpus_sets):
        files = files_plain_bytes(c['files'])
        if any(p.startswith('/ws/v0/') for p in files) or c['err']:
            continue   # the v0 root needs a configuration file: covered in process only
        root = os.path.join(ctx.tmp, 'cli_%d' % n, 'ws')
        for p, b in files.items():
            q = os.path.join(root, os.path.relpath(p, '/ws'))
            os.makedirs(os.path.dirname(q), exist_ok=True)
            open(q, 'wb').write(b)
        os.makedirs(os.path.join(root, '.regal'), exist_ok=True)
        open(os.path.join(root, '.regal', 'config.yaml'), 'w').write(config_yaml(c.get('no_exclude_test_suffix')))
        cmd = [regal, 'fix', '--force', '--disable-all', '--on-conflict', c['mode']]
        for r in c['rules']:
            cmd += ['--enable', LONG[r]]
        cmd.append(root)
        cli['run'] += 1
        try:
            p = subprocess.run(cmd, cwd=root, stdout=subprocess.PIPE, stderr=subprocess.STDOUT, timeout=300)
        except subprocess.TimeoutExpired:
            cli['timeouts'] += 1
            report('non-termination', c, None, {'what': 'regal fix --force (the binary) still running after 300 s', 'cmd': cmd[1:-1]})
            continue
        got = {}
        for d, _, fs in os.walk(root):
            if '.regal' in d:
                continue
            for f in fs:
                q = os.path.join(d, f)
                got['/ws/' + os.path.relpath(q, root)] = open(q, 'rb').read()
        want = files if c['conflicts'] else files_plain_bytes(c['final'])
        if not same_tree(got, want, c['mode']):
            cli['diffs'] += 1
            report('binary-differs-from-fixer', c, None, {
                'what': 'files on disk after regal fix --force differ from what Fixer.Fix computed in memory',
                'on_disk': {k: v.decode('utf-8', 'backslashreplace') for k, v in got.items()}, 'exit': p.returncode,
                'output': p.stdout.decode('utf-8', 'replace')[-600:]})
        shutil.rmtree(os.path.dirname(root), ignore_errors=True)


def files_plain_bytes(fs):
    return {f['path']: base64.b64decode(f['content']) for f in fs or []}


def dpm_predicate(d):
    """directory-package-mismatch, rule vs fix, on the observations of one package path alone (no model):
    list of (kind, detail)"""
    out = []
    places = d.get('places') or []
    by_file = {p_['file']: p_ for p_ in places}
    for p_ in places:
        if p_['rule'] < 0:
            out.append(('dpm-rule-evaluation-failed', {'place': p_}))
            continue
        if p_['fix'] == 'none' and p_['rule'] != 0:
            out.append(('dpm-reported-but-fix-finds-it-in-place', {'place': p_, 'what': 'the rule reports the file, the fix answers "file is where '
                        'it should be": the violation can never be fixed'}))
        if p_['fix'] == 'move':
            t = by_file.get(p_['to'])
            if t is None:
                out.append(('dpm-fix-target-outside-workspace', {'place': p_}))
            elif t['rule'] != 0:
                out.append(('dpm-fix-target-rejected-by-rule', {'place': p_, 'target': t, 'what': 'the fix moves the file to a directory where '
                            'the rule still reports it'}))
            elif t['fix'] != 'none':
                out.append(('dpm-fix-moves-its-own-target', {'place': p_, 'target': t}))
        if p_['fix'] == 'error' and 'can only handle' not in (p_.get('fix_err') or ''):
            out.append(('dpm-fix-fails', {'place': p_, 'what': 'the fix fails for another reason than its documented limitation on package names'}))
    if len({p_['fix'] == 'error' for p_ in places}) > 1:
        out.append(('dpm-fix-refuses-depending-on-placement', {'places': places}))
    return out


def dpm_case_v(E, d):
    obs = {'none': 'ObsNone', 'error': 'ObsErr'}
    pl = clist('{| dp_file := %s; dp_rule := %d%%nat; dp_fix := %s |}' % (
        E.name(p_['file']), max(p_['rule'], 0), obs.get(p_['fix']) or '(ObsMove %s)' % E.name(p_['to'])) for p_ in d['places'])
    return '{| d_pkg := %s; d_exclude := %s; d_root := %s; d_places := %s |}' % (
        clist(E.name(x) for x in d['pkg']), vlib.cbool(d['exclude']), E.name('/ws'), pl)


def rename_groups(c):
    """the fp.Rename requests of one fix, grouped per handleRename: [(iteration, from, [to...], settled)]"""
    out = []
    for r_ in c.get('renames') or []:
        if out and out[-1][0] == r_['iter'] and out[-1][1] == r_['from'] and not out[-1][3]:
            out[-1][2].append(r_['to'])
            out[-1][3] = not r_['conflict'] and not r_['err']
        else:
            out.append([r_['iter'], r_['from'], [r_['to']], not r_['conflict'] and not r_['err']])
    return out


LONG = {'uao': 'use-assignment-operator', 'nwc': 'no-whitespace-comment', 'nrr': 'non-raw-regex-pattern',
        'fmt': 'opa-fmt', 'v1': 'use-rego-v1', 'dpm': 'directory-package-mismatch'}


def run_harness(ctx, h, replay=None, extra_corpus=None):
    import shutil
    out = os.path.join(ctx.tmp, 'c12.jsonl')
    corpus = os.path.join(ctx.tmp, 'corpus')
    os.makedirs(corpus, exist_ok=True)
    src = os.path.join(vlib.VERIF, 'corpus', 'C12')
    for f in sorted(os.listdir(src)) if os.path.isdir(src) else []:
        if f.endswith('.json'):
            shutil.copy(os.path.join(src, f), os.path.join(corpus, f))
    if extra_corpus:
        json.dump(extra_corpus, open(os.path.join(corpus, 'zz_disk_scenarios.json'), 'w'))
    cmd = [h, out, ctx.tier, corpus]
    if replay:
        cmd.append(replay)
    rc, log = vlib.run(cmd, env=dict(os.environ, VERIF_SEED=str(ctx.seed)), timeout=3300)
    if rc != 0:
        raise RuntimeError('c12 harness failed: ' + log[-2000:])
    return [json.loads(l) for l in open(out)]


def run(ctx):
    import threading, time
    phases, t_last = {'coq_build_and_props': round(time.time() - ctx.t0, 1)}, [time.time()]

    def phase(name):
        phases[name] = round(time.time() - t_last[0], 1)
        t_last[0] = time.time()
    h = vlib.build_harness(ctx, 'c12')
    phase('harness_build')
    # the real binary on the disk-phase file sets, next to the in-process runs (its verdicts need their results)
    scen = [] if ctx.replay else disk_scenarios(ctx)
    rp = json.load(open(ctx.replay)) if ctx.replay else None
    if rp and rp.get('binary') and 'case' in rp:
        scen = [{'name': 'replay', 'files': files_plain(rp['case']['files']), 'rules': rp['case']['rules'], 'mode': rp['case']['mode'],
                 'no_exclude_test_suffix': rp['case'].get('no_exclude_test_suffix', False)}]
    disk = {}

    def _disk():
        try:
            regal = vlib.build_regal(ctx)
            pool = []
            for n, sc in enumerate(scen):
                c_ = {'files': {p: t.encode('utf-8', 'surrogateescape') for p, t in sc['files'].items()}, 'rules': sc['rules'], 'mode': sc['mode'],
                      'no_exclude_test_suffix': sc.get('no_exclude_test_suffix', False)}
                t = threading.Thread(target=lambda n=n, sc=sc, c_=c_: disk.__setitem__(sc['name'], binary_disk_run(regal, os.path.join(ctx.tmp, 'disk_%d' % n), c_)))
                t.start()
                pool.append(t)
            for t in pool:
                t.join()
        except BaseException as e:     # re-raised in the main thread
            disk['exc'] = e
    th = threading.Thread(target=_disk)
    if scen:
        th.start()
    cases = run_harness(ctx, h, replay=ctx.replay, extra_corpus=None if ctx.replay else scen)
    phase('harness_run')
    meta = [c for c in cases if c.get('kind') == 'meta']
    dpm = [c for c in cases if c.get('kind') == 'dpm']
    cases = [c for c in cases if c.get('kind') == 'set']
    sets = [c for c in cases if c.get('lintable')]
    expected_fixes = sorted(RULE)
    for m in meta:
        if m['fixes'] != expected_fixes or not set(m['formatter_fixes']) <= set(expected_fixes):
            vlib.violation(ctx, {'kind': 'model-out-of-date', 'what': 'fixes.NewDefaultFixes() / NewDefaultFormatterFixes() name other fixes than the '
                                 'loop model knows (Model/FixLoop.v rule)', 'in_repo': m, 'in_model': expected_fixes}, no_input=True)

    # ---- predicate on the implementation -------------------------------------------------------------
    classes = collections.Counter()
    reported = set()

    def report(kind, c, key, extra=None, limit=5):
        classes[kind + ('' if key is None or not isinstance(key, str) else ':' + key)] += 1
        sig_key = key if isinstance(key, str) else json.dumps([files_plain(c['files']), c['rules'], c['mode']], sort_keys=True)
        k = (kind, sig_key if isinstance(key, str) else tuple(c['rules']))
        if k in reported or len(reported) >= limit:
            return
        reported.add(k)
        obj = {'kind': kind, 'case': c, 'files': files_plain(c['files']), 'result': files_plain(c['final']), 'rules': c['rules'],
               'mode': c['mode'], 'iterations': c['iters'], 'errmsg': c.get('errmsg', '')}
        obj.update(extra or {})
        vlib.violation(ctx, obj, signature={'kind': kind, 'key': sig_key})

    for c in sets:
        if c['err'] == 'renamecap':
            asked = [r_['to'] for r_ in (c.get('renames') or [])]
            report('non-termination', c, None, {'what': 'handleRename (--on-conflict=rename) keeps asking the file provider for renames: cut after the '
                   'cap on Rename requests; the loop has no other exit and does not look at the context', 'first_requests': asked[:8],
                   'distinct_names_asked': sorted(set(asked))[:8]})
            continue
        if c['err'] in ('itercap', 'deadline'):
            report('non-termination', c, None, {'what': 'Fixer.Fix still finds something to fix after %d iterations' % c['iters']})
            continue
        if c['err']:
            report('fix-fails-on-lintable-input:' + c['err'], c, None, {'what': 'Fixer.Fix returned an error on files the linter accepts'})
            continue
        if c.get('relint_err'):
            report('result-does-not-lint', c, None)
            continue
        if not c['conflicts']:
            for v in c.get('relint') or []:
                rc_ = residual_class(c, v)
                report('violation-remains', c, rc_, {'violation': v, 'what': 'a violation of an enabled fixable rule is still reported after fix'})
        if c['second_changed'] or c.get('second_err'):
            report('second-fix-changes', c, None, {'what': 'fixing the result again changed it (or failed: %s)' % c.get('second_err', '')})

    # ---- directory-package-mismatch: rule and fix as two implementations, on the observations alone -----------------------
    dpm_ok = [d for d in dpm if d.get('parses')]
    dpm_kinds = collections.Counter()
    for d in dpm_ok:
        for kind, detail in dpm_predicate(d):
            dpm_kinds[kind] += 1
            k = (kind, None)
            if k in reported or len(reported) >= 5:
                continue
            reported.add(k)
            classes[kind] += 1
            vlib.violation(ctx, dict({'kind': kind, 'case': d, 'package': d['text'].split('\n')[0], 'exclude_test_suffix': d['exclude']}, **detail),
                           signature={'kind': kind, 'key': json.dumps([d['pkg'], d['exclude']])})
    if dpm and not ctx.replay:
        placed = [p_ for d in dpm_ok for p_ in d['places']]
        targets = {(d['id'], p_['to']) for d in dpm_ok for p_ in d['places'] if p_['fix'] == 'move'}
        if len(dpm_ok) < len(dpm) // 2 or not any(p_['rule'] == 1 for p_ in placed) or \
                not any(p_['rule'] == 0 and (d['id'], p_['file']) in targets for d in dpm_ok for p_ in d['places']):
            raise RuntimeError('the directory-package-mismatch cases of the harness are vacuous (few parse, or the rule never / always reports)')

    # ---- thorough tier: the real binary on the regression file sets (files on disk after regal fix --force) -----
    cli = {'run': 0, 'timeouts': 0, 'diffs': 0}
    if scen:
        th.join()
        if 'exc' in disk:
            raise disk['exc']
        for sc in scen:
            match = [c for c in sets if c['src'] == ('replay' if ctx.replay else 'corpus:' + sc['name'])]
            if not match:
                if not ctx.replay:
                    raise RuntimeError('disk scenario %s is not lintable: the generator of tools/props/c12.py is broken' % sc['name'])
                continue
            binary_disk_verdicts(match[0], disk[sc['name']], report, cli)
    if not ctx.quick() and not ctx.replay:
        binary_runs(ctx, [c for c in sets if c['src'].startswith('corpus:') and not c['src'].startswith('corpus:disk-')], cli, report)

    phase('predicates_and_binary_runs')
    # ---- correspondence: one iteration of the model loop per recorded iteration ---------------------------------
    # the iterations are spread over NS coqc processes (all iterations of a file set in one of them: its oracle table is shared)
    NS = 3 if ctx.quick() else 6
    encs = [Enc() for _ in range(NS)]
    sh_iters = [[] for _ in range(NS)]
    sh_owner = [[] for _ in range(NS)]
    for si, c in enumerate(sets):
        if c['err'] in ('itercap', 'deadline', 'renamecap'):
            continue
        tr = c.get('trace') or []
        if len(tr) != c['iters']:
            continue   # trace was cut (long runs): verdict does not depend on it
        E = encs[si % NS]
        table = table_v(E, c.get('oracle'))
        for k, st in enumerate(tr):
            if st.get('linterr'):
                break
            last = (k == len(tr) - 1)
            if last and c['err']:
                break   # the iteration ended in an error: nothing to compare
            nxt = c['final'] if last else tr[k + 1]['files']
            # hint for the order of the per-file groups (the linter's own order is not observable): files whose content
            # changed, then the file that went away (a move ends the iteration), then the untouched ones; the Coq side
            # tries this order first and every permutation of the groups when it fails
            after = {f['path']: f['content'] for f in nxt}
            rank = lambda path, before={f['path']: f['content'] for f in st['files']}: (
                0 if path in after and after[path] != before.get(path) else (1 if path not in after else 2))
            hinted = sorted(st.get('viol') or [], key=lambda v_: rank(v_['file']))
            sh_iters[si % NS].append('{| i_files := %s; i_viol := %s; i_next := %s; i_last := %s; i_table := %s; i_rename := %s |}' % (
                fs_v(E, st['files']), viol_v(E, hinted), fs_v(E, nxt), vlib.cbool(last), table,
                vlib.cbool(c['mode'] == 'rename')))
            sh_owner[si % NS].append((c, k))
    iters = [x for l_ in sh_iters for x in l_]
    owner = [x for l_ in sh_owner for x in l_]
    E = encs[0]
    # every handleRename as the file provider saw it vs Model/FixLoop.v rename_loop with C13's rename_candidate
    # (evaluated by a second coqc beside the first: own string table E2)
    E2 = Enc()
    rcases, rowner = [], []
    for c in sets:
        if c['err']:
            continue
        tr = c.get('trace') or []
        for it, frm, asked, settled in rename_groups(c):
            if not (1 <= it <= len(tr)):
                continue
            rcases.append('{| r_files := %s; r_rename := %s; r_asked := %s; r_settled := %s |}' % (
                fs_v(E2, tr[it - 1]['files']), vlib.cbool(c['mode'] == 'rename'), clist(E2.name(x) for x in asked), vlib.cbool(settled)))
            rowner.append((c, it, frm, asked))
    dcases = [dpm_case_v(E2, d) for d in dpm_ok]
    # self-test of the comparison: an iteration whose observed successor is perturbed must be flagged
    pert_v = None
    for c in sets:
        tr = c.get('trace') or []
        if not c['err'] and len(tr) == c['iters'] and len(tr) >= 2 and not tr[0].get('linterr'):
            bad_next = [dict(f) for f in tr[1]['files']]
            bad_next[0]['content'] = base64.b64encode(base64.b64decode(bad_next[0]['content']) + b' ').decode()
            pert_v = '{| i_files := %s; i_viol := %s; i_next := %s; i_last := false; i_table := %s; i_rename := %s |}' % (
                fs_v(E, tr[0]['files']), viol_v(E, tr[0].get('viol') or []), fs_v(E, bad_next), table_v(E, c.get('oracle')),
                vlib.cbool(c['mode'] == 'rename'))
            break
    head = ['From Coq Require Import Uint63.', 'From Regal Require Import Check.C12Check.', 'Open Scope N_scope.']
    CH = 100
    v_shards = []
    for j in range(NS):
        v = []
        chunks = []
        for k in range(0, len(sh_iters[j]), CH):
            v.append('Definition iters_%d : list iter_case := %s.' % (k // CH, clist(sh_iters[j][k:k + CH])))
            chunks.append('iters_%d' % (k // CH))
        v.append('Definition iters := %s.' % (' ++ '.join(chunks) if chunks else '(@nil iter_case)'))
        v.append('Definition R1 := Eval vm_compute in failing iter_agrees 0 iters.')
        v.append('Definition R2 := Eval vm_compute in failing (fun c => negb (iter_unmodelled c)) 0 iters.')
        if j == 0:
            v.append('Definition R3 := %s.' % ('Eval vm_compute in failing iter_agrees 0 [%s]' % pert_v if pert_v else '[0]%nat'))
            v.append('Print R3.')
        v.append('Print R1. Print R2.')
        v_shards.append(v)
    v = []
    for nm, typ, items in (('rcases', 'rename_case', rcases), ('dcases', 'dpm_case', dcases)):
        parts = []
        for k in range(0, len(items), CH):
            v.append('Definition %s_%d : list %s := %s.' % (nm, k // CH, typ, clist(items[k:k + CH])))
            parts.append('%s_%d' % (nm, k // CH))
        v.append('Definition %s := %s.' % (nm, ' ++ '.join(parts) if parts else '(@nil %s)' % typ))
    v.append('Definition R4 := Eval vm_compute in failing rename_agrees 0 rcases.')
    v.append('Definition R5 := Eval vm_compute in failing dpm_agrees 0 dcases.')
    # self-tests: a rename that settled one name early / a fix target one directory off must be flagged
    multi = [x for x in rowner if len(x[3]) >= 2 and x[0]['mode'] == 'rename']
    if multi:
        c_, it_, _, asked_ = multi[0]
        v.append('Definition R6 := Eval vm_compute in failing rename_agrees 0 [{| r_files := %s; r_rename := true; r_asked := %s; r_settled := true |}].'
                 % (fs_v(E2, c_['trace'][it_ - 1]['files']), clist(E2.name(x) for x in asked_[:-1])))
    else:
        v.append('Definition R6 := [0]%nat.')
    moved = [(d, p_) for d in dpm_ok for p_ in d['places'] if p_['fix'] == 'move']
    if moved:
        d_, p_ = moved[0]
        bad = json.loads(json.dumps(d_))
        for q in bad['places']:
            if q['file'] == p_['file']:
                q['to'] = '/ws/elsewhere/x.rego'
        v.append('Definition R7 := Eval vm_compute in failing dpm_agrees 0 [%s].' % dpm_case_v(E2, bad))
    else:
        v.append('Definition R7 := [0]%nat.')
    v.append('Print R4. Print R5. Print R6. Print R7.')
    # two coqc processes side by side; string tables last: the self-tests name new strings
    from concurrent.futures import ThreadPoolExecutor
    def timed_eval(name, text):
        t_ = time.time()
        r_ = vlib.coq_eval(ctx, name, text)
        phases['coq_eval_' + name] = round(time.time() - t_, 1)
        return r_
    with ThreadPoolExecutor(NS + 1) as ex:
        fs_ = [ex.submit(timed_eval, 'Cases_C12_%d' % j, '\n'.join(head + encs[j].defs + v_shards[j])) for j in range(NS)]
        fb = ex.submit(timed_eval, 'Cases_C12b', '\n'.join(head + E2.defs + v))
        outs = [f_.result() for f_ in fs_]
        rcb, coutb = fb.result()
    for rc_, cout_ in outs + [(rcb, coutb)]:
        if rc_ != 0:
            raise RuntimeError('case evaluation failed:\n' + cout_[-3000:])
    cout = coutb + '\n' + outs[0][1]     # R3..R7
    phase('coq_eval')
    r1, r2, base_ = [], [], 0
    for j in range(NS):
        a_, b_ = vlib.parse_nat_list(outs[j][1], 'R1'), vlib.parse_nat_list(outs[j][1], 'R2')
        if a_ is None or b_ is None:
            raise RuntimeError('could not read the results of the case evaluation:\n' + outs[j][1][-2000:])
        r1 += [base_ + x for x in a_]
        r2 += [base_ + x for x in b_]
        base_ += len(sh_iters[j])
    if vlib.parse_nat_list(cout, 'R3') != [0]:
        raise RuntimeError('self-test failed: a perturbed successor state was not flagged by Check.C12Check.iter_agrees')
    r4, r5 = vlib.parse_nat_list(cout, 'R4'), vlib.parse_nat_list(cout, 'R5')
    if r4 is None or r5 is None:
        raise RuntimeError('could not read the results of the case evaluation:\n' + cout[-2000:])
    if vlib.parse_nat_list(cout, 'R6') != [0] or vlib.parse_nat_list(cout, 'R7') != [0]:
        raise RuntimeError('self-test failed: a rename settled one candidate early / a fix target elsewhere was not flagged by Check.C12Check')
    if r1 and not ctx.violations:
        c, k = owner[r1[0]]
        vlib.violation(ctx, {'kind': 'correspondence', 'relation': 'Check.C12Check.iter_agrees (Model/FixLoop.v pass vs one iteration of applyLinterFixes)',
                             'iteration': k, 'files_before': files_plain(c['trace'][k]['files']), 'violations': c['trace'][k].get('viol'),
                             'files_after': files_plain(c['final'] if k == len(c['trace']) - 1 else c['trace'][k + 1]['files']),
                             'case': c, 'n_mismatches': len(r1)}, no_input=True)
    if r4 and not ctx.violations:
        c, it, frm, asked = rowner[r4[0]]
        vlib.violation(ctx, {'kind': 'correspondence', 'relation': 'Check.C12Check.rename_agrees (Model/FixLoop.v rename_loop with Model/Rename.v '
                             'rename_candidate vs the Rename requests of one handleRename: number of candidate rounds and every name asked for)',
                             'iteration': it, 'from': frm, 'names_asked': asked, 'files_held': sorted(files_plain(c['trace'][it - 1]['files'])),
                             'case': c, 'n_mismatches': len(r4)}, no_input=True)
    if r5 and not ctx.violations:
        d = dpm_ok[r5[0]]
        vlib.violation(ctx, {'kind': 'correspondence', 'relation': 'Check.C12Check.dpm_agrees (Model/DpmAgree.v rule_reports / fix_answer_of vs the real '
                             'rule body and the real DirectoryPackageMismatch.Fix)', 'case': d, 'n_mismatches': len(r5)}, no_input=True)
    proof_gate(ctx)

    nontrivial = [c for c in sets if c['iters'] > 1]
    hist = collections.Counter('+'.join(c['rules']) for c in sets)
    cov = proof_coverage(ctx, {
        'evaluations': len(cases) + len(iters),
        'distinct_nontrivial': len({json.dumps([c['files'], c['rules'], c['mode']], sort_keys=True) for c in nontrivial}),
        'rule': 'file sets of 1-4 files (v1 and v0 roots, files in wrong directories, colliding moves, CRLF, several interacting '
                'violations per file and per row, literals without raw equivalent) x subsets of the 6 fixable rules x conflict mode, '
                'through Fixer.Fix with an iteration cap of 30 and a deadline; distinct = distinct (files, rules, mode) that needed at '
                'least one fixing iteration',
        'file_sets': len(cases), 'lintable': len(sets), 'iterations_compared_with_model': len(iters),
        'iterations_with_unmodelled_rename': len(r2),
        'iterations_histogram': dict(collections.Counter(str(c['iters']) for c in sets)),
        'conflicts_reported': sum(1 for c in sets if c['conflicts']),
        'rule_subsets': dict(hist), 'modes': dict(collections.Counter(c['mode'] for c in sets)),
        'errors': dict(collections.Counter(c['err'] or 'none' for c in sets)),
        'mismatch_model_iteration': len(r1), 'predicate_failures': dict(classes), 'binary_runs': cli,
        'file_set_sources': dict(collections.Counter(c['src'].split(':')[0] for c in sets)),
        'rename_requests': {'handle_rename_calls_compared_with_model': len(rcases), 'mismatch_model_rename': len(r4),
                            'candidate_rounds_histogram': dict(collections.Counter(str(len(x[3]) - 1) for x in rowner if x[0]['mode'] == 'rename')),
                            'conflict_modes': dict(collections.Counter(x[0]['mode'] for x in rowner))},
        'dpm_rule_vs_fix': {'package_paths_x_setting': len(dpm), 'parsed': len(dpm_ok), 'placements': sum(len(d['places']) for d in dpm_ok),
                            'compared_with_model': len(dcases), 'mismatch_model_dpm': len(r5), 'predicate_failures': dict(dpm_kinds),
                            'fix_answers': dict(collections.Counter(p_['fix'] for d in dpm_ok for p_ in d['places'])),
                            'rule_reports': dict(collections.Counter(str(p_['rule']) for d in dpm_ok for p_ in d['places'])),
                            'paths_with_inner_test_component': sum(1 for d in dpm_ok if any(x.endswith('_test') for x in d['pkg'][:-1])),
                            'samples': [{'package': d['text'].split('\n')[0], 'exclude_test_suffix': d['exclude'],
                                         'places': [[p_['file'], p_['rule'], p_['fix'], p_.get('to', '')] for p_ in d['places'][:4]]} for d in dpm_ok[5:7]]},
        'disk_phase_file_sets': [{'name': sc['name'], 'files': sorted(sc['files']), 'rules': sc['rules'], 'mode': sc['mode'],
                                  'after_fix': sorted(disk[sc['name']]['after_fix'][0]) if sc['name'] in disk else None} for sc in scen],
        'samples': [{'files': files_plain(c['files']), 'rules': c['rules'], 'mode': c['mode'], 'iterations': c['iters'],
                     'result': files_plain(c['final'])} for c in nontrivial[:2]],
        'phase_seconds': phases, 'exhaustive': False,
    })
    return vlib.finish(ctx, 'proof', cov, [
        'the linter (which violations are reported, at which locations), OPA formatter and directory-package-mismatch are oracles of '
        'the loop model; their results are tabulated from the real code for the correspondence',
        'loop_terminates is conditional on the progress hypothesis; it is discharged in Coq for every combination of the three text '
        'rules (text_rules_terminate: measure = double quotes + lone "=" + tight "#"; the only assumption on the linter is that '
        'no-whitespace-comment violations point at a "#" followed by a non-blank, which the C11 correspondence validates on every '
        'reported violation), and unconditionally for use-assignment-operator alone and non-raw-regex-pattern alone; combinations '
        'with the formatter and directory-package-mismatch are covered by the harness only',
        'the order in which the linter returns violations of different files is a permutation argument of the correspondence',
        'the name chosen after a rename conflict is computed with C13\'s model of renameCandidate (Model/Rename.v; its correctness against '
        'pkg/fixer/rename.go is C13\'s correspondence), iterated by this property\'s own model of the loop (Model/FixLoop.v rename_loop)',
        'directory-package-mismatch: the text of a package path component as the fix reads it (Trim of the quoted form) is modelled as the '
        'component itself when it matches the fix\'s regular expression, and as refused otherwise; observed on every generated component',
        'regal fix (cmd/fix.go) writes the provider contents to disk after Fixer.Fix returned without error: driven through the '
        'real binary on a handful of file sets per run (disk phase: moves into emptied directories, swaps, chains), and on every '
        'regression file set in the thorough tier; the conservation of files by that phase is C13\'s subject',
    ])
