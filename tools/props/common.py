"""helpers shared by the per-property modules"""
import json, os, re
import vlib


def proof_gate(ctx, theorem_hint=''):
    """A broken proof obligation is a violation unless a failing input explains it; callers
    call this after their own search: returns True when the gate raised a violation."""
    if ctx.proofs_ok and not ctx.forbidden:
        return False
    if ctx.violations:
        return True   # a concrete failing input was already reported
    what = 'Props/%s.v (or a file it depends on) no longer compiles' % ctx.prop
    if ctx.forbidden:
        what = 'forbidden constructs in the development: ' + '; '.join(ctx.forbidden[:5])
    vlib.violation(ctx, {'kind': 'proof-obligation', 'what': what, 'theorems': ctx.obligations,
                         'hint': theorem_hint, 'coq_output_tail': (ctx.coq_log or ctx.assumptions_text)[-3000:]},
                   no_input=True)
    return True


def assumptions_summary(ctx):
    t = ctx.assumptions_text or ''
    closed = len(re.findall(r'Closed under the global context', t))
    axioms = re.findall(r'^([A-Za-z_][A-Za-z0-9_.\']*)\s*:', t, re.M)
    return {'closed_under_global_context': closed, 'axioms_listed': sorted(set(axioms))}


def proof_coverage(ctx, extra):
    a = assumptions_summary(ctx)
    n = len(ctx.obligations)
    cov = {
        'obligations': n,
        'discharged': n if (ctx.proofs_ok and not ctx.forbidden) else 0,
        'checker_cmd': 'make -C coq -j16 (coq_makefile, full .vo build, coqc 8.16.1) ; coqc Props/%s.v with Print Assumptions' % ctx.prop,
        'theorems': ctx.obligations,
        'print_assumptions': a,
        'trusted_base': list(vlib.GLOBAL_TRUSTED),
    }
    if ctx.tier == 'thorough' and ctx.proofs_ok:
        ok, summ = vlib.coqchk(ctx.prop)
        cov['coqchk'] = {'ok': ok, 'summary': summ}
        if not ok:
            cov['discharged'] = 0
            vlib.violation(ctx, {'kind': 'proof-obligation', 'what': 'coqchk does not accept Props/%s.vo: %s' % (ctx.prop, summ[-1500:])},
                           no_input=True)
    cov.update(extra)
    return cov
