"""C18: nearest configuration wins; merging only overrides what the user set; yaml round trip."""
import json, os, re, sys, time
import vlib
from vlib import cstr, clist, copt, cbool
from common import proof_gate, proof_coverage

DASH = 'true'      # features.remote is read from "check-version" (false: "check_version", the pinned key)

REGAL = {'none': 'RAbsent', 'file': 'RIsFile', 'empty': '(RDir false)', 'cfg': '(RDir true)'}
YAML = {'none': 'YAbsent', 'file': 'YIsFile', 'dir': 'YIsDir'}
FERR = {'notfound': 'ENotFound', 'conflict': 'EConflict', 'noconfigindir': 'ENoConfigInDir', 'stat': 'ENotFound'}
UERR = {'decode': 'EDecode', 'notamap': 'ENotAMap', 'ignoreshape': 'EIgnoreShape', 'capsexclusive': 'ECapsExclusive',
        'capsversion': 'ECapsVersion', 'capslookup': 'ECapsLookup'}


def log(msg):
    if os.environ.get('C18_VERBOSE'):
        print('[c18] ' + msg, file=sys.stderr)


class Interner:
    """every distinct string (and every distinct large term) becomes one Coq constant; pure literal sharing"""
    def __init__(self):
        self.ids = {}
        self.defs = []
        self.terms = {}

    def share(self, prefix, typ, term):
        i = self.terms.get((typ, term))
        if i is None:
            i = '%s%d' % (prefix, len(self.terms))
            self.terms[(typ, term)] = i
            self.defs.append('Definition %s : %s := %s.' % (i, typ, term))
        return i

    def s(self, x):
        if x == '':
            return '[]'
        i = self.ids.get(x)
        if i is None:
            i = 's%d' % len(self.ids)
            self.ids[x] = i
            self.defs.append('Definition %s : str := %s.' % (i, cstr(x)))
        return i


def tbl(i):
    return 'Tbl_' + re.sub(r'\W', '_', i)


def contents(d):
    return '{| c_regal := %s; c_yaml := %s |}' % (REGAL[d['regal']], YAML[d['yaml']])


EMPTY = '{| c_regal := RAbsent; c_yaml := YAbsent |}'


def tree_cases(I, t):
    """the case of the tree itself and one case per differently spelled start path"""
    # the temporary tree root is called "/R" in the case data (no temp paths): the chain handed to
    # the model is "/" (empty), "R" (the tree root), then the levels of the tree
    root = t['root']
    at_root = bool(t.get('at_root'))

    def canon(p):
        if at_root:
            return p
        assert p == root or p.startswith(root + '/'), (p, root)
        return '/R' + p[len(root):]
    dirs = t['spec']['dirs']
    lv = [] if at_root else ['(%s, %s)' % (I.s('R'), contents(dirs[0]))]
    for name, d in zip(t.get('names') or [], dirs[1:]):
        lv.append('(%s, %s)' % (I.s(name), contents(d)))
    c0 = contents(dirs[0]) if at_root else EMPTY

    def fres(path, err):
        if err:
            return '(FErr %s)' % FERR.get(err, 'EOutOfFuel')
        return '(FFound %s)' % I.s(canon(path))

    def ures(path, err):
        if err == 'nil-file-nil-error':
            return 'UFuel'
        return 'UNone' if err else '(UFound %s)' % I.s(canon(path))
    cli = 'None'
    if t['spec']['cli']:
        ch = t.get('cli_choice', '')
        if ch.startswith('file:'):
            c = '(UseFile %s)' % I.s(canon(ch[5:]))
        elif ch == 'global':
            c = 'UseGlobal'
        elif ch == 'defaults':
            c = 'UseDefaults'
        elif ch == 'fatal':
            c = 'Fatal'
        else:
            c = None
        if c:
            home = t['spec']['home']
            cli = '(Some (%s, %s, %s))' % (cbool(home in ('dir', 'cfg')), cbool(home == 'cfg'), c)

    def case(levels, file, cwd, arg, o, cli):
        return ('{| tc_root := %s; tc_levels := %s; tc_file := %s; tc_cwd := %s; tc_arg := %s; tc_found := %s; tc_dir := %s; '
                'tc_yaml := %s; tc_cli := %s |}'
                % (c0, clist(levels), file, I.s(cwd), I.s(arg), fres(o['found'], o['found_err']),
                   ures(o['regal_dir'], o['regal_dir_err']), ures(o['yaml_file'], o['yaml_file_err']), cli))
    file = copt(I.s('p.rego') if t['spec']['start_file'] else None)
    out = [(case(lv, file, '/', canon(t['start']), t, cli), None)]
    for so in t.get('spelled') or []:
        arg = so['arg'] if so['cwd'] else canon(so['arg'])
        cwd = so['cwd'] or '/'
        if so['target'] == 'parent':
            if not lv:
                continue
            out.append((case(lv[:-1], 'None', cwd, arg, so, 'None'), so))
        else:
            out.append((case(lv, file, cwd, arg, so, 'None'), so))
    return out


def jval(I, v):
    if v is None:
        return 'JNull'
    if isinstance(v, bool):
        return '(JBool %s)' % cbool(v)
    if isinstance(v, int):
        return '(JNum (%d)%%Z)' % v
    if isinstance(v, float):
        if v.is_integer():
            return '(JNum (%d)%%Z)' % int(v)
        return '(JStr %s)' % I.s('float:%r' % v)
    if isinstance(v, str):
        return '(JStr %s)' % I.s(v)
    if isinstance(v, list):
        return '(JArr %s)' % clist(jval(I, x) for x in v)
    if isinstance(v, dict):
        return '(JObj %s)' % clist('(%s, %s)' % (I.s(k), jval(I, x)) for k, x in sorted(v.items()))
    raise ValueError(v)


def config(I, o):
    cats = clist('(%s, %s)' % (I.s(k), I.s(v)) for k, v in sorted((o.get('cats') or {}).items()))
    rules = []
    for cat, rs in sorted((o.get('rules') or {}).items()):
        rl = []
        for name, r in sorted(rs.items()):
            ign = 'None' if r['ignore'] is None else '(Some %s)' % clist(I.s(f) for f in r['ignore'])
            extra = clist('(%s, %s)' % (I.s(k), jval(I, v)) for k, v in sorted((r.get('extra') or {}).items()))
            rl.append('(%s, %s)' % (I.s(name), I.share('rl', 'rule', '{| r_level := %s; r_ignore := %s; r_extra := %s |}' % (I.s(r['level']), ign, extra))))
        rules.append('(%s, %s)' % (I.s(cat), clist(rl)))
    caps = 'None'
    if o.get('has_caps'):
        caps = '(Some %s)' % tbl(o['caps_ref'])
    f = o.get('features')
    if f is None:
        feats = 'None'
    elif f.get('remote') is None:
        feats = '(Some None)'
    else:
        feats = '(Some (Some %s))' % cbool(f['remote'])
    p = o.get('project')
    if p is None:
        proj = 'None'
    else:
        def zopt(x):
            return 'None' if x is None else '(Some (%d)%%Z)' % x
        if p.get('roots') is None:
            roots = 'None'
        else:
            roots = '(Some %s)' % clist('{| rt_path := %s; rt_ver := %s |}' % (I.s(r['path']), zopt(r['ver'])) for r in p['roots'])
        proj = '(Some {| p_roots := %s; p_ver := %s |})' % (roots, zopt(p.get('ver')))
    return I.share('cfg', 'config',
                   '{| c_defaults := {| d_global := %s; d_cats := %s |}; c_rules := %s; c_caps := %s; c_features := %s; '
                   'c_project := %s; c_caps_url := %s; c_ignore := %s |}'
                   % (I.s(o.get('global') or ''), cats, clist(rules), caps, feats, proj, I.s(o.get('caps_url') or ''),
                      clist(I.s(x) for x in (o.get('ignore') or []))))


def chunks(xs, n):
    for i in range(0, len(xs), n):
        yield xs[i:i + n]


def eval_lists(ctx, name, header, defs, queries):
    """defs: Coq text; queries: {marker: coq term of type list nat}"""
    v = [header] + defs
    for k, q in queries.items():
        v.append('Definition %s := Eval vm_compute in %s.' % (k, q))
        v.append('Print %s.' % k)
    t0 = time.time()
    rc, out = vlib.coq_eval(ctx, name, '\n'.join(v))
    log('coq_eval %s: %.1fs, %d KB' % (name, time.time() - t0, sum(len(x) for x in v) // 1024))
    if os.environ.get('C18_KEEP'):
        import shutil
        shutil.copy(os.path.join(ctx.tmp, name + '.v'), os.environ['C18_KEEP'])
    if rc != 0:
        raise RuntimeError('case evaluation failed (%s):\n%s' % (name, out[-3000:]))
    return {k: vlib.parse_nat_list(out, k) or [] for k in queries}


HEADER = 'From Regal Require Import Check.C18Check Gen.ProvidedConfig.\nOpen Scope N_scope.\n'


def run_harness(ctx, mode, h, regal=None, specs=None):
    out = os.path.join(ctx.tmp, 'c18_%s.jsonl' % mode)
    wd = os.path.join(ctx.tmp, 'ws_' + mode)
    os.makedirs(wd, exist_ok=True)
    cmd = [h, mode, out, wd, ctx.tier]
    if mode == 'tree':
        cmd.append(regal or '')
    if specs is not None:
        sp = os.path.join(ctx.tmp, 'specs_%s.jsonl' % mode)
        with open(sp, 'w') as f:
            for s in specs:
                f.write(json.dumps(s) + '\n')
        cmd.append(sp)
    t0 = time.time()
    rc, hlog = vlib.run(cmd, env=dict(os.environ, VERIF_SEED=str(ctx.seed)), timeout=3000)
    log('harness %s: %.1fs' % (mode, time.time() - t0))
    if rc != 0:
        raise RuntimeError('c18 harness (%s) failed: %s' % (mode, hlog[-3000:]))
    return [json.loads(l) for l in open(out)]


def run_jail(ctx, h, regal, specs=None):
    """trees whose top directory is "/" itself: the harness and the binary run inside a chroot jail.
    Returns (records, reason-if-skipped)."""
    import shutil
    jail = os.path.join(ctx.tmp, 'jail')
    os.makedirs(os.path.join(jail, 'bin'), exist_ok=True)
    shutil.copy(h, os.path.join(jail, 'bin', 'h_c18'))
    shutil.copy(regal, os.path.join(jail, 'bin', 'regal'))
    cmd = ['chroot', jail, '/bin/h_c18', 'roottree', '/out.jsonl', ctx.tier, '/bin/regal']
    if specs is not None:
        with open(os.path.join(jail, 'specs.jsonl'), 'w') as f:
            for s in specs:
                f.write(json.dumps(s) + '\n')
        cmd.append('/specs.jsonl')
    t0 = time.time()
    try:
        rc, hlog = vlib.run(cmd, env=dict(os.environ, VERIF_SEED=str(ctx.seed), C18_JAIL='1'), timeout=3000)
    except OSError as e:
        return [], 'chroot not available: %s' % e
    log('harness roottree (jail): %.1fs' % (time.time() - t0))
    if rc != 0:
        if 'Operation not permitted' in hlog or 'cannot change root' in hlog or 'No such file' in hlog:
            return [], 'chroot not permitted here: ' + hlog.strip()[-200:]
        raise RuntimeError('c18 harness (roottree) failed: %s' % hlog[-3000:])
    return [json.loads(l) for l in open(os.path.join(jail, 'out.jsonl'))], None


def _paths(d, prefix=(), depth=4):
    out = []
    if isinstance(d, dict) and depth > 0:
        for k in sorted(d):
            out.append(prefix + (k,))
            out += _paths(d[k], prefix + (k,), depth - 1)
    return out


def _without(d, path):
    import copy
    d = copy.deepcopy(d)
    cur = d
    for k in path[:-1]:
        if not isinstance(cur, dict) or k not in cur:
            return d
        cur = cur[k]
    if isinstance(cur, dict):
        cur.pop(path[-1], None)
    return d


def shrink_merge(ctx, h, spec, fails, rounds=12):
    """delta-debugging on the user document and the synthetic provided document: drop one key at a
    time (all candidates of a round go through the real code in one harness run) while [fails] holds"""
    spec = dict(spec)
    for _ in range(rounds):
        cands = []
        for path in _paths(spec['yaml_doc']):
            c = dict(spec)
            c['yaml_doc'] = _without(spec['yaml_doc'], path)
            c['model_doc'] = _without(spec['model_doc'], path)
            cands.append(c)
        if spec.get('provided'):
            for path in _paths(spec['provided']):
                c = dict(spec)
                c['provided'] = _without(spec['provided'], path)
                if isinstance(c['provided'].get('rules'), dict):
                    cands.append(c)
        if not cands:
            break
        recs = [x for x in run_harness(ctx, 'merge', h, specs=cands) if x['kind'] == 'merge']
        better = [x for x in recs if fails(x)]
        if not better:
            break
        spec = min(better, key=lambda x: len(json.dumps([x['spec']['yaml_doc'], x['spec'].get('provided')])))['spec']
    return spec


def eval_config_chunk(ctx, k, items, tables, lookup, preal):
    """items: [(global index, merge record)]; returns ({check: failing global indices (R*: (index, which))}, #u, #m, #r)"""
    I = Interner()
    tdefs = []
    for tid, t in sorted(tables.items()):
        I.defs.append('Definition %s : caps := %s.' % (tbl(tid), clist('(%s, %s)' % (I.s(n), I.s(d)) for n, d in t)))
    tdefs.append('Definition lookup_tbl : list (str * caps) := %s.' % clist('(%s, %s)' % (I.s(u), tbl(t)) for u, t in sorted(lookup.items())))
    if preal is not None:
        tdefs.append('Definition provided_real : config := %s.' % config(I, preal))
    ucases, mcases, rcases = [], [], []
    uidx, midx, ridx = [], [], []    # global index (+ which round trip) of each case
    for n, x in items:
        doc = jval(I, x['spec']['model_doc'])
        # the 200-entry capability lists are compared in Coq for documents with a capabilities section and
        # for every 8th other case; for the rest the harness itself checked them against the default table
        full = cbool('capabilities' in x['spec']['yaml_doc'] or n % 8 == 0)
        if 'user_err' in x:
            if x['user_err'] not in UERR:
                continue
            ucases.append('{| uc_full := %s; uc_doc := %s; uc_got := Err %s |}' % (full, doc, UERR[x['user_err']]))
            uidx.append(n)
            continue
        user = config(I, x['user'])
        ucases.append('{| uc_full := %s; uc_doc := %s; uc_got := Ok %s |}' % (full, doc, user))
        uidx.append(n)
        if 'merged' not in x:
            continue
        prov = 'provided_real' if x.get('provided_ref') == 'real' else config(I, x['provided'])
        mcases.append('{| mc_full := %s; mc_provided := %s; mc_user := %s; mc_merged := %s; mc_dcaps := Tbl_dcaps |}'
                      % (full, prov, user, config(I, x['merged'])))
        midx.append(n)
        for which, c in (('rt_user', user), ('rt_merged', config(I, x['merged']))):
            rt = x.get(which)
            if rt is None:
                continue
            if 'marshal_err' in rt:
                rcases.append('{| rc_full := %s; rc_config := %s; rc_doc := None; rc_reloaded := Err EDecode |}' % (full, c))
            elif 'reload_err' in rt:
                rcases.append('{| rc_full := %s; rc_config := %s; rc_doc := Some %s; rc_reloaded := Err %s |}'
                              % (full, c, I.share('doc', 'jval', jval(I, rt['doc'])), UERR.get(rt['reload_err'], 'EDecode')))
            else:
                rcases.append('{| rc_full := %s; rc_config := %s; rc_doc := Some %s; rc_reloaded := Ok %s |}'
                              % (full, c, I.share('doc', 'jval', jval(I, rt['doc'])), config(I, rt['reloaded'])))
            ridx.append((n, which))
    defs = list(I.defs) + tdefs
    defs.append('Definition ucases : list unmarshal_case := %s.' % clist(ucases))
    defs.append('Definition mcases : list merge_case := %s.' % clist(mcases))
    defs.append('Definition rcases : list roundtrip_case := %s.' % clist(rcases))
    q = {
        'U1': 'failing (unmarshal_ok lookup_tbl %s) 0 ucases' % DASH,
        'U2': 'failing (fun c => doc_wf (uc_doc c)) 0 ucases',
        'M1': 'failing merge_model_ok 0 mcases',
        'M2': 'failing merge_spec_ok 0 mcases',
        'M3': 'failing merge_in_domain 0 mcases',
        'R1': 'failing marshal_model_ok 0 rcases',
        'R2': 'failing (reload_model_ok lookup_tbl %s) 0 rcases' % DASH,
        'R3': 'failing roundtrip_spec_ok 0 rcases',
        'R4': 'failing roundtrip_caps_ok 0 rcases',
        'R5': 'failing roundtrip_in_domain 0 rcases',
    }
    if preal is not None and k == 0:
        q['G1'] = '(if config_eqb_nocaps provided_real provided_config && negb provided_has_capabilities then [] else [0])%nat'
    r = eval_lists(ctx, 'Cases_C18_configs_%d' % k, HEADER, defs, q)
    out = {'U1': [uidx[i] for i in r['U1']], 'U2': [uidx[i] for i in r['U2']], 'G1': r.get('G1', [])}
    for key in ('M1', 'M2', 'M3'):
        out[key] = [midx[i] for i in r[key]]
    for key in ('R1', 'R2', 'R3', 'R4', 'R5'):
        out[key] = [ridx[i] for i in r[key]]
    return out, len(ucases), len(mcases), len(rcases)


def restated_default_probe(ctx, regal):
    """through the real binary (Go merge + Rego rule): a user configuration that restates ONE option of
    style.rule-length with its provided value must not change the lint result.  Returns a list of
    (config text, rule-length rows without config, rows with it) that differ."""
    import subprocess
    from concurrent.futures import ThreadPoolExecutor
    lines = ['package p_test', '', 'import rego.v1', '', 'test_long if {'] + ['\tx%d := %d' % (i, i) for i in range(70)] + ['}', '', 'obj := {'] \
        + ['\t"k%d": %d,' % (i, i) for i in range(40)] + ['}', '', 'short if {'] + ['\ty%d := %d' % (i, i) for i in range(35)] + ['}', '']
    data = __import__('yaml').safe_load(open(os.path.join(vlib.REPO, 'bundle', 'regal', 'config', 'provided', 'data.yaml')))
    opts = {k: v for k, v in data['rules']['style']['rule-length'].items() if k != 'level'}

    def rows(job):
        n, cfg = job
        d = os.path.join(ctx.tmp, 'probe%d' % n)
        pol = os.path.join(d, 'p')
        home = os.path.join(d, 'home')
        os.makedirs(pol, exist_ok=True)
        os.makedirs(home, exist_ok=True)
        with open(os.path.join(pol, 'p_test.rego'), 'w') as f:
            f.write('\n'.join(lines))
        if cfg is not None:
            with open(os.path.join(d, '.regal.yaml'), 'w') as f:
                f.write(cfg)
        p = subprocess.run([regal, 'lint', '--format', 'json', pol], cwd=d, env=dict(os.environ, HOME=home), capture_output=True, text=True, timeout=300)
        try:
            rep = json.loads(p.stdout)
        except ValueError:
            return 'unparsable: ' + (p.stderr or p.stdout)[-300:]
        return sorted(v['location']['row'] for v in rep.get('violations', []) if v['title'] == 'rule-length')
    cfgs = [None] + ['rules:\n  style:\n    rule-length:\n      %s: %s\n' % (k, json.dumps(v)) for k, v in sorted(opts.items())]
    with ThreadPoolExecutor(max_workers=6) as ex:
        res = list(ex.map(rows, enumerate(cfgs)))
    base = res[0]
    bad = [{'config': c, 'rule_length_rows_without_config': base, 'rule_length_rows_with_config': r}
           for c, r in zip(cfgs[1:], res[1:]) if r != base]
    return base, bad


def corpus_specs(kind):
    d = os.path.join(vlib.VERIF, 'corpus', 'C18')
    out = []
    if os.path.isdir(d):
        for f in sorted(os.listdir(d)):
            if f.endswith('.json'):
                for s in json.load(open(os.path.join(d, f))):
                    if s.get('kind') == kind:
                        out.append(s)
    return out


def tree_key(spec):
    return json.dumps([[d['regal'], d['yaml']] for d in spec['dirs']] + [spec['start_file'], spec['home'] if spec['cli'] else None]
                      + (['at-root'] if spec.get('at_root') else []))


def run(ctx):
    t0 = time.time()
    # static binaries: part of the trees is run inside a chroot jail whose "/" is the tree root
    os.environ['CGO_ENABLED'] = '0'
    h = vlib.build_harness(ctx, 'c18')
    regal = vlib.build_regal(ctx)
    log('go builds: %.1fs (since start %.1fs)' % (time.time() - t0, time.time() - ctx.t0))

    replay_tree = replay_merge = None
    if ctx.replay:
        rp = json.load(open(ctx.replay))
        case = rp.get('case')
        if case and case.get('kind') == 'tree':
            replay_tree, replay_merge = [case], []
        elif case and case.get('kind') == 'merge':
            replay_tree, replay_merge = [], [case]

    # ---------------------------------------------------------------- trees
    trees = []
    jail_skipped = None
    if replay_tree is None:
        cs = corpus_specs('tree')
        if cs:
            trees += run_harness(ctx, 'tree', h, regal, cs)
        trees += run_harness(ctx, 'tree', h, regal)
        jtrees, jail_skipped = run_jail(ctx, h, regal)
        trees += jtrees
    elif replay_tree:
        if replay_tree[0].get('at_root'):
            jtrees, jail_skipped = run_jail(ctx, h, regal, replay_tree)
            trees += jtrees
        else:
            trees += run_harness(ctx, 'tree', h, regal, replay_tree)
    env_err = [t for t in trees if t['kind'] == 'env-error']
    if env_err:
        raise RuntimeError(env_err[0]['what'])
    trees = [t for t in trees if t['kind'] == 'tree']

    TK = ('T1', 'T2', 'T3', 'T4', 'T5', 'T6')
    r = {k: [] for k in TK}

    spelled_bad = []     # (tree index, spelled observation, failing check)
    n_spelled = [0]

    def eval_tree_chunk(kc):
        k, idx = kc
        I = Interner()
        tdefs, owner = [], []
        for i in idx:
            for term, so in tree_cases(I, trees[i]):
                tdefs.append(term)
                owner.append((i, so))
        n_spelled[0] += sum(1 for _, so in owner if so is not None)
        defs = list(I.defs) + ['Definition trees : list tree_case := %s.' % clist(tdefs)]
        rr = eval_lists(ctx, 'Cases_C18_trees_%d' % k, HEADER, defs, {
            'T1': 'failing tree_model_ok 0 trees',
            'T2': 'failing tree_spec_ok 0 trees',
            'T3': 'failing tree_cli_model_ok 0 trees',
            'T4': 'failing tree_cli_spec_ok 0 trees',
            'T5': 'failing tree_in_domain 0 trees',
            'T6': 'failing tree_file_spec_ok 0 trees',
        })
        for key in TK:
            for j in rr[key]:
                if owner[j][1] is not None:
                    spelled_bad.append((owner[j][0], owner[j][1], key))
        return {key: sorted({owner[j][0] for j in rr[key] if owner[j][1] is None}) for key in TK}
    if trees:
        from concurrent.futures import ThreadPoolExecutor
        TCH = 450
        tchunks = [(k, list(range(i, min(i + TCH, len(trees))))) for k, i in enumerate(range(0, len(trees), TCH))]
        with ThreadPoolExecutor(max_workers=4) as ex:
            for rr in ex.map(eval_tree_chunk, tchunks):
                for key in TK:
                    r[key] += rr[key]

    for t in trees:
        if t.get('at_root'):
            t['spec']['at_root'] = True

    def tree_sig(kind, t):
        return {'kind': kind, 'key': tree_key(t['spec'])}

    def tree_min(idx):
        # smallest failing case first: fewest directories, then fewest entries
        return sorted(idx, key=lambda i: (len(trees[i]['spec']['dirs']), json.dumps(trees[i]['spec'], sort_keys=True)))

    undecodable = [t for t in trees if t['spec']['cli'] and (t.get('cli_choice', '').startswith('undecodable') or not t.get('cli_choice'))]
    for t in undecodable[:1]:
        vlib.violation(ctx, {'kind': 'cli-undecodable', 'case': t['spec'], 'observed': t}, no_input=False,
                       signature=tree_sig('cli-undecodable', t))
    for t in [t for t in trees if t.get('pred_broken')][:1]:
        vlib.violation(ctx, {'kind': 'cli-debug-vs-effect', 'case': t['spec'], 'what': t['pred_broken']},
                       signature=tree_sig('cli-debug-vs-effect', t))
    for i in tree_min(r['T2'])[:1]:
        t = trees[i]
        vlib.violation(ctx, {'kind': 'find-vs-nearest', 'case': t['spec'], 'observed': {k: t[k] for k in ('start', 'found', 'found_err')},
                             'what': 'config.FindConfig did not return what the closest directory holding a configuration yields'},
                       signature=tree_sig('find-vs-nearest', t))
    # the same directory asked for with another spelling must give the same answer
    for i, so, key in sorted([x for x in spelled_bad if x[2] == 'T2'],
                             key=lambda x: (len(trees[x[0]]['spec']['dirs']), len(x[1]['arg'])))[:1]:
        t = trees[i]
        if True:
            vlib.violation(ctx, {'kind': 'find-vs-nearest-spelled', 'case': t['spec'], 'spelling': so,
                                 'what': 'config.FindConfig(%r) (cwd %r) does not give what the closest directory above the path it denotes yields'
                                         % (so['arg'].replace(t['root'], '<root>') if not t.get('at_root') else so['arg'], so['cwd'])},
                           signature={'kind': 'find-vs-nearest-spelled', 'key': tree_key(t['spec']) + '|' + so['target']})
    if [x for x in spelled_bad if x[2] in ('T1', 'T5')] and not ctx.violations:
        i, so, key = [x for x in spelled_bad if x[2] in ('T1', 'T5')][0]
        vlib.violation(ctx, {'kind': 'correspondence', 'relation': 'Check.C18Check.tree_model_ok on a spelled start path (Model/FindConfig.v abs_path / find_upwards)',
                             'case': trees[i]['spec'], 'spelling': so, 'check': key}, no_input=True)
    # the strict reading (only configuration FILES count): deviations that are explained by a .regal/ directory
    # without config.yaml are the open finding (one signature per effect), anything else has its own signature
    seen_file = set()
    for i in tree_min([i for i in r['T6'] if i not in set(r['T2'])]):
        t = trees[i]
        has_empty = any(d['regal'] == 'empty' for d in t['spec']['dirs'])
        if has_empty and t['found_err'] == 'noconfigindir':
            cls, sig = 'configless-regal-dir-hides-config', {'kind': 'configless-regal-dir', 'key': 'hides the configuration files of the directories above'}
        elif has_empty and t['found_err'] == 'conflict':
            cls, sig = 'configless-regal-dir-conflicts', {'kind': 'configless-regal-dir', 'key': 'conflicts with .regal.yaml in the same directory'}
        else:
            cls, sig = 'find-vs-nearest-file', tree_sig('find-vs-nearest-file', t)
        if cls in seen_file:
            continue
        seen_file.add(cls)
        vlib.violation(ctx, {'kind': cls, 'case': t['spec'], 'observed': {k: t[k] for k in ('start', 'found', 'found_err')},
                             'what': 'config.FindConfig did not return the configuration file of the closest directory that has one'},
                       signature=sig)
    # the CLI: a different signature per class of deviation (conflict swallowed is the known one)
    seen_cli = set()
    for i in tree_min(r['T4']):
        t = trees[i]
        cls = 'conflict-not-reported' if t['found_err'] == 'conflict' and t.get('cli_choice') in ('defaults', 'global') else 'cli-choice'
        if cls in seen_cli:
            continue
        seen_cli.add(cls)
        sig = {'kind': cls, 'key': 'regal lint with .regal/config.yaml and .regal.yaml in one directory'} if cls == 'conflict-not-reported' \
            else tree_sig(cls, t)
        vlib.violation(ctx, {'kind': cls, 'case': t['spec'], 'observed': {k: t.get(k) for k in ('start', 'found', 'found_err', 'cli_choice', 'cli_fired', 'cli_exit')},
                             'what': '`regal lint` used %s where the property asks for %s' % (
                                 t.get('cli_choice'), 'an error' if t['found_err'] == 'conflict' else 'the nearest configuration / user-level file / defaults')},
                       signature=sig)
    if (r['T1'] or r['T3']) and not ctx.violations:
        i = tree_min(r['T1'] or r['T3'])[0]
        vlib.violation(ctx, {'kind': 'correspondence', 'relation': 'Check.C18Check.tree_model_ok / tree_cli_model_ok (Model/FindConfig.v)',
                             'case': trees[i]['spec'], 'observed': trees[i], 'n_mismatches': len(r['T1']) + len(r['T3'])}, no_input=True)
    if r['T5']:
        raise RuntimeError('tree case outside the domain of the theorems: %r' % trees[r['T5'][0]]['root'])

    # ---------------------------------------------------------------- configurations
    recs = []
    if replay_merge is None:
        cs = corpus_specs('merge')
        extra = run_harness(ctx, 'merge', h, specs=cs) if cs else []
        recs = run_harness(ctx, 'merge', h)
        # corpus first; the tables of both runs are merged below
        recs = extra + recs
    elif replay_merge:
        recs = run_harness(ctx, 'merge', h, specs=replay_merge)
    tables, lookup, preal = {}, {}, None
    for x in recs:
        if x['kind'] == 'tables':
            tables.update(x['tables'])
            lookup.update(x['lookup'])
        elif x['kind'] == 'provided-real':
            preal = x['config']
    merges = [x for x in recs if x['kind'] == 'merge']
    for x in [x for x in merges if 'user_err' in x and x['user_err'] not in UERR][:1]:
        vlib.violation(ctx, {'kind': 'unmarshal-unclassified-error', 'case': x['spec'], 'error': x['user_err']}, no_input=True)

    # the cases are evaluated in chunks (own case file each, a few at a time)
    CH = 260
    chunks = [(k, list(range(i, min(i + CH, len(merges))))) for k, i in enumerate(range(0, len(merges), CH))]
    res = {k: [] for k in ('U1', 'U2', 'M1', 'M2', 'M3', 'R1', 'R2', 'R3', 'R4', 'R5', 'G1')}
    n_u = n_m = n_r = 0
    if merges:
        from concurrent.futures import ThreadPoolExecutor
        with ThreadPoolExecutor(max_workers=4) as ex:
            outs = list(ex.map(lambda kc: eval_config_chunk(ctx, kc[0], [(n, merges[n]) for n in kc[1]], tables, lookup, preal), chunks))
        for r1, cu, cm, cr in outs:
            for k in res:
                res[k] += r1[k]
            n_u, n_m, n_r = n_u + cu, n_m + cm, n_r + cr

    def size(x):
        return len(json.dumps(x['spec']['yaml_doc']))

    if os.environ.get('C18_VERBOSE'):
        for key in ('U1', 'M1', 'R1', 'R2'):
            for i in sorted([i if isinstance(i, int) else i[0] for i in res[key]], key=lambda i: size(merges[i]))[:3]:
                x = merges[i]
                log('%s mismatch: doc=%s user=%s err=%s' % (key, json.dumps(x['spec']['model_doc']), json.dumps(x.get('user'))[:600], x.get('user_err')))

    # property on the implementation's own outputs (Go side, independent of the model)
    go_oo = sorted([x for x in merges if x.get('pred_only_overrides')], key=size)
    for x in go_oo[:1]:
        small = shrink_merge(ctx, h, x['spec'], lambda r: bool(r.get('pred_only_overrides')))
        vlib.violation(ctx, {'kind': 'merge-changes-unwritten-setting', 'case': small, 'what': x['pred_only_overrides'][:5]},
                       signature={'kind': 'merge-changes-unwritten-setting', 'key': re.sub(r'[a-z0-9-]+/[a-z0-9-]+(/[a-z0-9-]+)?', 'X', x['pred_only_overrides'][0])})
    go_uw = sorted([x for x in merges if x.get('pred_user_wins')], key=size)
    for x in go_uw[:1]:
        small = shrink_merge(ctx, h, x['spec'], lambda r: bool(r.get('pred_user_wins')))
        vlib.violation(ctx, {'kind': 'user-setting-not-applied', 'case': small, 'what': x['pred_user_wins'][:5]},
                       signature={'kind': 'user-setting-not-applied', 'key': re.sub(r'[a-z0-9-]+/[a-z0-9-]+(/[a-z0-9-]+)?', 'X', x['pred_user_wins'][0])})
    for x in sorted([x for x in merges if x.get('pred_reload_differs')], key=size)[:1]:
        vlib.violation(ctx, {'kind': 'second-load-differs', 'case': x['spec']}, signature={'kind': 'second-load-differs', 'key': 'any'})
    for key in ('pred_default_caps_wrong', 'pred_merged_caps_not_users'):
        for x in sorted([x for x in merges if x.get(key)], key=size)[:1]:
            vlib.violation(ctx, {'kind': key, 'case': x['spec']}, signature={'kind': key, 'key': 'any'})
    for x in [x for x in merges if 'merge_err' in x][:1]:
        vlib.violation(ctx, {'kind': 'merge-error', 'case': x['spec'], 'error': x['merge_err']}, no_input=False)
    # the same property evaluated inside Coq on the observed merge (M2), when Go did not already report it
    if res['M2'] and not go_oo:
        x = merges[sorted(res['M2'], key=lambda i: size(merges[i]))[0]]
        vlib.violation(ctx, {'kind': 'merge-changes-unwritten-setting', 'case': x['spec'], 'what': 'Check.C18Check.merge_spec_ok is false on the observed merge'},
                       signature={'kind': 'merge-changes-unwritten-setting', 'key': 'coq'})
    # round trip: everything but the capabilities must come back
    rt_bad = sorted(res['R3'], key=lambda nw: size(merges[nw[0]]))
    classes = {}
    for n, which in rt_bad:
        d = merges[n][which]
        if 'reload_err' in d or 'marshal_err' in d:
            cls = 'reload-error'
        else:
            cls = ','.join(x for x in (d.get('diff') or []) if x not in ('caps', 'caps_url')) or 'coq-only'
        classes.setdefault(cls, (n, which))
    for cls, (n, which) in sorted(classes.items()):
        want = set(cls.split(','))
        small = merges[n]['spec'] if cls in ('coq-only', 'reload-error') else shrink_merge(
            ctx, h, merges[n]['spec'], lambda r, w=which: want <= set((r.get(w) or {}).get('diff') or []))
        vlib.violation(ctx, {'kind': 'yaml-roundtrip', 'case': small, 'which': which, 'lost': cls,
                             'what': 'yaml.Unmarshal(yaml.Marshal(c)) differs from c in: ' + cls},
                       signature={'kind': 'yaml-roundtrip', 'key': cls})
    # the same through the real binary and the Rego rule
    probe_base, probe_bad = ([], []) if ctx.replay else restated_default_probe(ctx, regal)
    for b in probe_bad[:1]:
        vlib.violation(ctx, {'kind': 'restating-a-default-changes-the-lint-result', 'case': {'kind': 'probe'}, 'observed': b,
                             'what': 'regal lint reports different rule-length violations once .regal.yaml restates one option of the rule with its default value'},
                       signature={'kind': 'merge-changes-unwritten-setting', 'key': 'option X lost (user did not set it)'})
    # correspondence
    for key, rel in (('U1', 'unmarshal_ok (Model/ConfigMerge.v unmarshal)'), ('M1', 'merge_model_ok (Model/ConfigMerge.v load)'),
                     ('R1', 'marshal_model_ok (Model/ConfigMerge.v marshal)'), ('R2', 'reload_model_ok (unmarshal (marshal c))')):
        if res[key] and not ctx.violations:
            i = sorted([i if isinstance(i, int) else i[0] for i in res[key]], key=lambda i: size(merges[i]))[0]
            x = merges[i]
            vlib.violation(ctx, {'kind': 'correspondence', 'relation': 'Check.C18Check.' + rel, 'case': x['spec'],
                                 'observed': {k: x.get(k) for k in ('user', 'user_err', 'merged', 'provided', 'rt_user', 'rt_merged')},
                                 'n_mismatches': len(res[key])}, no_input=True)
    if res['G1'] and not ctx.violations:
        vlib.violation(ctx, {'kind': 'correspondence', 'relation': 'Gen/ProvidedConfig.v vs the provided configuration the Go code loads from the embedded bundle'},
                       no_input=True)
    proof_gate(ctx)

    # ---------------------------------------------------------------- evidence
    hist = {}
    for t in trees:
        k = 'depth%d' % (len(t['spec']['dirs']) - 1)
        hist[k] = hist.get(k, 0) + 1
    outcomes = {}
    for t in trees:
        k = t['found_err'] or 'found'
        outcomes[k] = outcomes.get(k, 0) + 1
    uclass = {}
    for x in merges:
        k = x.get('user_err') or 'ok'
        uclass[k] = uclass.get(k, 0) + 1
    rt_caps_lost = len(res['R4'])
    distinct_trees = len({tree_key(t['spec']) for t in trees})
    distinct_cfg = len({json.dumps([x['spec'].get('provided'), x['spec']['yaml_doc']], sort_keys=True) for x in merges
                        if x['spec']['yaml_doc'].get('rules')})
    cov = proof_coverage(ctx, {
        'evaluations': (len(trees) + n_spelled[0]) * 3 + sum(1 for t in trees if t['spec']['cli']) + n_u + n_m + 2 * n_r,
        'distinct_nontrivial': distinct_trees + distinct_cfg,
        'rule': 'trees: distinct (placement of .regal / .regal.yaml entries per directory, start from dir or file, user-level state) tuples; '
                'exhaustive for {none,.regal/config.yaml} x {none,.regal.yaml} per directory on chains of depth 0..4 plus chains with '
                'config-less .regal/ directories and random wrong-kind entries; configs: distinct (provided, user yaml) pairs whose user '
                'document configures at least one rule',
        'trees_at_file_system_root': sum(1 for t in trees if t.get('at_root')), 'root_level_trees_skipped': jail_skipped,
        'spelled_start_paths': n_spelled[0], 'mismatch_spelled': len(spelled_bad) - sum(1 for x in spelled_bad if x[2] == 'T6'),
        'trees': len(trees), 'trees_through_cli': sum(1 for t in trees if t['spec']['cli']), 'tree_depth_histogram': hist,
        'tree_outcomes': outcomes,
        'unmarshal_cases': n_u, 'unmarshal_classes': uclass, 'merge_cases': n_m,
        'merge_cases_real_bundle': sum(1 for x in merges if x.get('provided_ref') == 'real' and 'merged' in x),
        'roundtrip_cases': n_r, 'roundtrip_capabilities_not_restored': rt_caps_lost,
        'user_documents_outside_theorem_domain': len(res['U2']), 'merge_cases_outside_theorem_domain': len(res['M3']), 'roundtrip_cases_outside_theorem_domain': len(res['R5']),
        'restated_default_probe': {'rule_length_rows': probe_base, 'configs_changing_the_result': len(probe_bad)},
        'user_config_mutated_by_load': sum(1 for x in merges if x.get('pred_user_mutated')),
        'mismatch_tree_model': len(r['T1']), 'mismatch_tree_spec': len(r['T2']), 'mismatch_tree_spec_files_only': len(r['T6']), 'mismatch_cli_model': len(r['T3']),
        'mismatch_cli_spec': len(r['T4']), 'mismatch_unmarshal': len(res['U1']), 'mismatch_merge_model': len(res['M1']),
        'mismatch_merge_spec': len(res['M2']), 'mismatch_marshal': len(res['R1']), 'mismatch_reload': len(res['R2']),
        'mismatch_roundtrip_spec': len(res['R3']),
        'samples': [trees[len(trees) // 2]['spec'] if trees else None,
                    {k: (trees[len(trees) // 3].get(k) or '').replace(trees[len(trees) // 3]['root'], '<root>')
                     for k in ('found', 'found_err', 'cli_choice')} if trees else None,
                    merges[len(merges) // 2]['spec']['yaml_doc'] if merges else None],
        'exhaustive': False,
    })
    return vlib.finish(ctx, 'proof', cov, [
        'Go stdlib path functions (filepath.Join/Dir, strings.Split) are modelled (Base/PathModel.v), validated by this correspondence',
        'the file system is a function from clean absolute paths to {absent, file, dir}; symlinks, permissions and relative start paths are not modelled',
        'yaml.v3 / jsoniter text layers are not modelled: documents enter the model as trees; mergo is modelled on the shapes of Config only '
        '(validated against the real mergo through LoadConfigWithDefaultsFromBundle with synthetic and real provided configurations)',
        'capabilities.Lookup, filepath.Abs and OPA\'s rendering of builtin declarations are oracles (Section variables / tables computed with OPA directly)',
        'the provided configuration carries no capabilities (Gen/ProvidedConfig.v provided_has_capabilities = false, checked each run)',
    ])
