"""C20: rego version of a file = nearest configured directory, however spelled."""
import json, os
import vlib
from vlib import cstr, clist, copt
from common import proof_gate, proof_coverage

VER = {'v0': 'V0', 'v1': 'V1', 'undef': 'VUndef'}
OUT = {'v0': 'OV0', 'v1': 'OV1', 'error': 'OErr', 'v0v1': 'OV1'}
KIND = {'both': 'KBoth', 'v0only': 'KV0only', 'v1only': 'KV1only'}


def vmap(kvs):
    return clist('(%s, %s)' % (cstr(kv['k']), VER[kv['v']]) for kv in (kvs or []))


def srcs(ss):
    return clist('(%s, %s)' % (cstr(s['dir']), 'None' if s['ver'] is None else '(Some V%d)' % s['ver']) for s in (ss or []))


def run(ctx):
    import time as _t
    T = {}
    t0 = _t.time()
    h = vlib.build_harness(ctx, 'c20')
    out = os.path.join(ctx.tmp, 'c20.jsonl')
    wd = os.path.join(ctx.tmp, 'ws')
    os.makedirs(wd)
    rc, log = vlib.run([h, out, ctx.tier, wd], env=dict(os.environ, VERIF_SEED=str(ctx.seed)), timeout=900)
    if rc != 0:
        raise RuntimeError('c20 harness failed: ' + log[-2000:])
    cases = [json.loads(l) for l in open(out)]
    T['harness'] = round(_t.time() - t0, 1); t0 = _t.time()
    if ctx.replay:
        rp = json.load(open(ctx.replay))
        if 'case' in rp:
            cases = [rp['case']]
    lookups = [c for c in cases if c['kind'] == 'lookup']
    trees = [c for c in cases if c['kind'] == 'tree' and 'error' not in c]
    tree_errs = [c for c in cases if c['kind'] == 'tree' and 'error' in c]

    v = ['From Regal Require Import Check.C20Check.', 'Open Scope N_scope.']
    v.append('Definition lookups : list lookup_case := ' + clist(
        'LookupCase %s %s %s' % (vmap(c['m']), cstr(c['file']), clist(VER[g] for g in c['got']))
        for c in lookups) + '.')
    tdefs = []
    for t in trees:
        obs = clist('{| o_file := %s; o_kind := %s; o_cwd := %s; o_arg := %s; o_got := %s |}' % (
            cstr(o['file']), KIND[o['kind']], cstr('' if o['cwd'] == '.' else o['cwd']),
            cstr(norm_arg(o)), OUT[o['got']]) for o in t['obs'])
        tdefs.append('{| t_manifests := %s; t_project := %s; t_roots := %s; t_vmap := %s; t_obs := %s |}' % (
            srcs(t['manifests']), copt(None if t['project'] is None else 'V%d' % t['project']),
            srcs(t['roots']), vmap(t['vmap']), obs))
    v.append('Definition trees : list tree_case := ' + clist(tdefs) + '.')
    v.append('Definition R1 := Eval vm_compute in failing lookup_agrees 0 lookups.')
    v.append('Definition R2 := Eval vm_compute in failing lookup_meets_spec 0 lookups.')
    v.append('Definition R3 := Eval vm_compute in failing (fun t => negb (tree_bad t)) 0 trees.')
    v.append('Definition R4 := Eval vm_compute in length (filter lookup_in_domain lookups).')
    v.append('Print R1. Print R2. Print R3. Print R4.')
    rc, cout = vlib.coq_eval(ctx, 'Cases_C20', '\n'.join(v))
    if rc != 0:
        raise RuntimeError('case evaluation failed:\n' + cout[-3000:])
    r1 = vlib.parse_nat_list(cout, 'R1')
    r2 = vlib.parse_nat_list(cout, 'R2')
    r3 = vlib.parse_nat_list(cout, 'R3')
    import re
    m4 = re.search(r'R4 = (\d+)', cout)
    in_dom = int(m4.group(1)) if m4 else 0

    T['coq_main'] = round(_t.time() - t0, 1); t0 = _t.time()
    overlay = run_overlay(ctx, lookups)
    T['overlay'] = round(_t.time() - t0, 1); t0 = _t.time()
    lsp_n, lsp_bad = lsp_cases(ctx, lookups, overlay)
    fm_n = frommap_cases(ctx, [c for c in cases if c['kind'] == 'frommap'])
    rl_n = reload_cases(ctx, overlay)
    T['coq_lsp_frommap_reload'] = round(_t.time() - t0, 1); t0 = _t.time()
    cli_n = cli_cases(ctx)
    T['cli'] = round(_t.time() - t0, 1)

    # ---- verdicts -------------------------------------------------------------------------
    for i in sorted(set(r2)):
        c = lookups[i]
        vlib.violation(ctx, {'kind': 'lookup-vs-spec', 'case': c,
                             'what': 'RegoVersionFromVersionsMap(%r, %r) returned %s, the deepest containing '
                                     'directory says otherwise' % (c['m'], c['file'], c['got'])},
                       signature={'kind': 'lookup-vs-spec', 'key': json.dumps([c['m'], c['file']], sort_keys=True)})
        break
    spelled = 0
    for i in r3:
        t = trees[i]
        # which part failed: ask again for details (cheap, one tree)
        det = tree_details(ctx, tdefs[i])
        bad_spec = [t['obs'][j] for j in det['spec']]
        bad_model = [t['obs'][j] for j in det['model']]
        if bad_spec:
            o = min(bad_spec, key=lambda o: (len(o['arg']), o['arg']))
            vlib.violation(ctx, {'kind': 'tree-vs-spec', 'case': t, 'observation': o,
                                 'what': 'file %s (%s) addressed as %s from cwd %s parsed as %s; manifests=%s project=%s roots=%s'
                                         % (o['file'], o['kind'], o['spelling'], o['cwd'], o['got'], t['manifests'], t['project'], t['roots'])},
                           signature={'kind': 'tree-vs-spec', 'key': json.dumps(
                               [t['manifests'], t['project'], t['roots'], o['file'], o['kind'], o['spelling']], sort_keys=True)})
            spelled += 1
        elif bad_model or not det['vmap']:
            vlib.violation(ctx, {'kind': 'correspondence', 'relation': 'Check.C20Check.tree_report (model of AllRegoVersions/InputFromPaths)',
                                 'case': t, 'vmap_agrees': det['vmap'], 'observations': bad_model[:5]}, no_input=True)
        if len(ctx.violations) >= 3:
            break
    if r1 and not ctx.violations:
        c = lookups[r1[0]]
        vlib.violation(ctx, {'kind': 'correspondence', 'relation': 'Check.C20Check.lookup_agrees (model of RegoVersionFromVersionsMap)',
                             'case': c, 'n_mismatches': len(r1)}, no_input=True)
    for c in tree_errs[:1]:
        vlib.violation(ctx, {'kind': 'tree-error', 'case': c}, no_input=False)
    proof_gate(ctx)

    nobs = sum(len(t['obs']) for t in trees)
    distinct = len({json.dumps([c['m'], c['file']], sort_keys=True) for c in lookups}) + \
        len({json.dumps([t['manifests'], t['project'], t['roots']], sort_keys=True) for t in trees})
    cov = proof_coverage(ctx, {
        'evaluations': len(lookups) + nobs + lsp_n + cli_n + fm_n + rl_n,
        'distinct_nontrivial': distinct,
        'rule': 'lookup cases: every pair of clean keys x versions x 18 directories (exhaustive) plus random maps of 1-3 keys '
                'incl. unclean spellings; tree cases: temp workspaces with manifests/project/roots over dirs {"",a,ab,a/b,b}, 15 files '
                'each addressed absolutely and relatively from 3-4 working directories. distinct = distinct (map,file) pairs + distinct trees',
        'lookup_cases': len(lookups), 'lookup_cases_in_spec_domain': in_dom, 'trees': len(trees), 'tree_observations': nobs,
        'lsp_cases': lsp_n, 'lsp_mismatches': lsp_bad, 'cli_runs': cli_n, 'input_from_map_cases': fm_n, 'lsp_reload_steps': rl_n,
        'mismatch_model_lookup': len(r1), 'mismatch_spec_lookup': len(r2), 'bad_trees': len(r3),
        'samples': [lookups[len(lookups) // 2], {k: trees[0][k] for k in ('manifests', 'project', 'roots', 'vmap')}, trees[0]['obs'][:3]],
        'exhaustive': False, 'phase_seconds': T,
    })
    return vlib.finish(ctx, 'proof', cov, [
        'stdlib path.Clean/Join/filepath.Dir are modelled (Base/PathModel.v), validated by this correspondence only',
        'OPA parser behaviour on the three fixed file contents is an oracle table (parse_outcome)',
        'LSP regoVersionForURI and the fixer (InputFromMap) use the same lookup; their relativisation is covered by the lookup cases with rooted names',
    ])


def norm_arg(o):
    a = o['arg']
    # the harness reports absolute arguments with the real temp root: make them "/R/..."
    if a.startswith('/'):
        assert a.startswith(o['root']), (a, o['root'])
        return '/R' + a[len(o['root']):]
    return a


def tree_details(ctx, tdef):
    v = ['From Regal Require Import Check.C20Check.', 'Open Scope N_scope.',
         'Definition T := %s.' % tdef,
         'Definition D1 := Eval vm_compute in (if vmap_agrees T then [1] else [0])%nat.',
         'Definition D2 := Eval vm_compute in failing (obs_agrees T) 0 (t_obs T).',
         'Definition D3 := Eval vm_compute in failing (obs_meets_spec T) 0 (t_obs T).',
         'Print D1. Print D2. Print D3.']
    rc, out = vlib.coq_eval(ctx, 'Det_C20', '\n'.join(v))
    return {'vmap': vlib.parse_nat_list(out, 'D1') == [1], 'model': vlib.parse_nat_list(out, 'D2') or [],
            'spec': vlib.parse_nat_list(out, 'D3') or []}


# ---- language server: LanguageServer.regoVersionForURI (overlay test in internal/lsp) --------------

def lsp_inputs(ctx, lookups):
    sel = [c for c in lookups if c['file'].startswith('/') and '//' not in c['file']][:400 if ctx.quick() else 3000]
    roots = ['file:///R', 'file:///tmp/w s']
    cases = []
    for i, c in enumerate(sel):
        root = roots[i % 2]
        cases.append({'m': [{'K': kv['k'], 'V': kv['v']} for kv in c['m']], 'root': root,
                      'uri': root.replace(' ', '%20') + c['file']})
    return cases


def run_overlay(ctx, lookups):
    """one `go test -overlay` run of package internal/lsp for both overlay tests (regoVersionForURI cases and
    configuration reload histories)"""
    import json as _j
    inp, outp = os.path.join(ctx.tmp, 'lsp_in.json'), os.path.join(ctx.tmp, 'lsp_out.json')
    _j.dump(lsp_inputs(ctx, lookups), open(inp, 'w'))
    hists = reload_histories(ctx)
    rinp, routp = os.path.join(ctx.tmp, 'reload_in.json'), os.path.join(ctx.tmp, 'reload_out.json')
    _j.dump([{'files': RELOAD_FILES, 'steps': [{'yaml': s['yaml']} for s in h]} for h in hists], open(rinp, 'w'))
    rc, log = vlib.go_test_overlay(ctx, './internal/lsp',
                                   {'internal/lsp/zz_verif_c20_test.go': os.path.join(vlib.VERIF, 'harness/overlay/c20_test.go')},
                                   'TestVerifC20', timeout=1200,
                                   env_extra={'VERIF_C20_IN': inp, 'VERIF_C20_OUT': outp,
                                              'VERIF_C20_RELOAD_IN': rinp, 'VERIF_C20_RELOAD_OUT': routp})
    if rc != 0 or not os.path.exists(outp) or not os.path.exists(routp):
        raise vlib.HarnessBuildError('C20 overlay tests failed: ' + log[-2500:])
    return {'lsp': _j.load(open(outp)), 'hists': hists, 'reload': _j.load(open(routp))}


def lsp_cases(ctx, lookups, overlay):
    """the lookup cases with rooted file names, addressed as file:// URIs below the workspace root"""
    import json as _j
    got = overlay['lsp']
    # model: strings.TrimPrefix(path(uri), path(root)) then the same lookup (any iteration order)
    v = ['From Regal Require Import Check.C20Check.', 'Open Scope N_scope.',
         'Definition cs : list lookup_case := ' + clist(
             'LookupCase %s (trim_prefix %s %s) [%s]' % (
                 vmap([{'k': e['K'], 'v': e['V']} for e in g['m']]),
                 cstr(g['uri'][len('file://'):].replace('%20', ' ')), cstr(g['root'][len('file://'):]), VER[g['got']])
             for g in got) + '.',
         'Definition L1 := Eval vm_compute in failing lookup_agrees 0 cs.',
         'Definition L2 := Eval vm_compute in failing lookup_meets_spec 0 cs.', 'Print L1. Print L2.']
    rc, out = vlib.coq_eval(ctx, 'Cases_C20_lsp', '\n'.join(v))
    if rc != 0:
        raise RuntimeError('lsp case evaluation failed: ' + out[-2000:])
    l1, l2 = vlib.parse_nat_list(out, 'L1') or [], vlib.parse_nat_list(out, 'L2') or []
    for i in l2[:1]:
        vlib.violation(ctx, {'kind': 'lsp-vs-spec', 'case': got[i],
                             'what': 'regoVersionForURI(%s) with versions %s under root %s returned %s' % (
                                 got[i]['uri'], got[i]['m'], got[i]['root'], got[i]['got'])},
                       signature={'kind': 'lsp-vs-spec', 'key': _j.dumps([got[i]['m'], got[i]['uri']], sort_keys=True)})
    if l1 and not l2:
        vlib.violation(ctx, {'kind': 'correspondence', 'relation': 'Check.C20Check.lookup_agrees on LSP regoVersionForURI',
                             'case': got[l1[0]], 'n_mismatches': len(l1)}, no_input=True)
    return len(got), len(set(l1) | set(l2))


# ---- the real binary: lint with relative/absolute spellings, and fix vs lint ---------------------------

CONFIG = """project:
  rego-version: 1
  roots:
    - path: a
      rego-version: 0
"""
FILES = {
    'a/v0only.rego': ('package a\n\nallow { input.x }\n', True),
    'a/v1only.rego': ('package a\n\nallow if input.x\n', False),
    'ab/v0only.rego': ('package ab\n\nallow { input.x }\n', False),
    'ab/v1only.rego': ('package ab\n\nallow if input.x\n', True),
    'a/b/v0only.rego': ('package a.b\n\nallow { input.x }\n', True),
}


def cli_cases(ctx):
    import json as _j, subprocess
    regal = vlib.build_regal(ctx)
    root = os.path.join(ctx.tmp, 'cli_ws')
    os.makedirs(os.path.join(root, '.regal'))
    open(os.path.join(root, '.regal', 'config.yaml'), 'w').write(CONFIG)
    for rel, (txt, _) in FILES.items():
        os.makedirs(os.path.dirname(os.path.join(root, rel)), exist_ok=True)
        open(os.path.join(root, rel), 'w').write(txt)
    n = 0

    def lint(cwd, arg):
        p = subprocess.run([regal, 'lint', '--format', 'json', '--disable-all', arg], cwd=cwd,
                           stdout=subprocess.PIPE, stderr=subprocess.PIPE, text=True, timeout=120)
        if p.returncode == 1 and 'rego_parse_error' in (p.stdout + p.stderr):
            return 'parse-error'
        try:
            r = _j.loads(p.stdout)
        except ValueError:
            return 'crash:%d' % p.returncode
        return 'parse-error' if r.get('errors') else 'ok'

    for rel, (_, should_parse) in FILES.items():
        d = os.path.dirname(rel)
        spellings = [('abs', root, os.path.join(root, rel)), ('rel-root', root, rel), ('rel-dot', root, './' + rel),
                     ('rel-dir', os.path.join(root, d), os.path.basename(rel)),
                     ('abs-from-elsewhere', '/', os.path.join(root, rel))]
        seen = {}
        for name, cwd, arg in spellings:
            seen[name] = lint(cwd, arg)
            n += 1
        want = 'ok' if should_parse else 'parse-error'
        bad = {k: v for k, v in seen.items() if v != want}
        if bad:
            k = sorted(bad)[0]
            vlib.violation(ctx, {'kind': 'cli-spelling', 'config': CONFIG, 'file': rel, 'content': FILES[rel][0],
                                 'observed': seen, 'expected': want,
                                 'what': "regal lint of %s spelled %s gave %s, the configured directory version demands %s" % (rel, k, bad[k], want)},
                           signature={'kind': 'cli-spelling', 'key': '%s|%s' % (rel, k)})
            break
    # fix must use the same version as lint: a file valid in both versions inside the v0 root gets use-rego-v1 from lint;
    # `regal fix` must then repair it (it is a fixable rule)
    fx = os.path.join(ctx.tmp, 'cli_fix')
    os.makedirs(os.path.join(fx, '.regal'))
    os.makedirs(os.path.join(fx, 'a'))
    open(os.path.join(fx, '.regal', 'config.yaml'), 'w').write(CONFIG)
    open(os.path.join(fx, 'a', 'both.rego'), 'w').write('package a\n\nx := 1\n')

    def titles():
        p = subprocess.run([regal, 'lint', '--format', 'json', 'a'], cwd=fx, stdout=subprocess.PIPE,
                           stderr=subprocess.PIPE, text=True, timeout=120)
        try:
            return sorted(v['title'] for v in _j.loads(p.stdout).get('violations', []))
        except ValueError:
            return ['<no json>']
    before = titles()
    subprocess.run([regal, 'fix', '--force', 'a'], cwd=fx, stdout=subprocess.PIPE, stderr=subprocess.PIPE, timeout=120)
    after = titles()
    n += 3
    if 'use-rego-v1' in before and 'use-rego-v1' in after:
        vlib.violation(ctx, {'kind': 'fix-ignores-configured-version', 'config': CONFIG, 'file': 'a/both.rego',
                             'content': 'package a\n\nx := 1\n', 'lint_before': before, 'lint_after_fix': after,
                             'what': 'regal lint parses a/both.rego as v0 (root a) and reports use-rego-v1; regal fix parses it as v1 and leaves it'},
                       signature={'kind': 'fix-ignores-configured-version',
                                  'key': 'cmd/fix.go+pkg/fixer: versions map relative to config dir vs absolute file names; FixCandidate.RegoVersion unset'})
    elif 'use-rego-v1' not in before:
        vlib.violation(ctx, {'kind': 'cli-spelling', 'what': 'lint of a/both.rego in v0 root did not report use-rego-v1', 'observed': before},
                       signature={'kind': 'cli-spelling', 'key': 'a/both.rego|use-rego-v1'})
    return n


# ---- InputFromMap: several files in one call (fixer / language-server fix path) -------------------------

def frommap_cases(ctx, fms):
    import json as _j
    if not fms:
        return 0
    v = ['From Regal Require Import Check.C20Check.', 'Open Scope N_scope.',
         'Definition fms : list frommap_case := ' + clist(
             'FromMapCase %s %s' % (vmap(c['m']), clist('(%s, %s)' % (cstr(f), clist(OUT[g] for g in c['got'][f])) for f in c['files']))
             for c in fms) + '.',
         'Definition F1 := Eval vm_compute in failing frommap_agrees 0 fms.',
         'Definition F2 := Eval vm_compute in failing frommap_meets_spec 0 fms.', 'Print F1. Print F2.']
    rc, out = vlib.coq_eval(ctx, 'Cases_C20_frommap', '\n'.join(v))
    if rc != 0:
        raise RuntimeError('frommap case evaluation failed: ' + out[-2000:])
    f1, f2 = vlib.parse_nat_list(out, 'F1') or [], vlib.parse_nat_list(out, 'F2') or []
    for i in (f2 or f1)[:1]:
        c = fms[i]
        bad = {f: g for f, g in c['got'].items() if len(g) > 1 or 'error' in g}
        vlib.violation(ctx, {'kind': 'input-from-map', 'case': c,
                             'what': 'rules.InputFromMap over files %s with versions %s parsed them as %s (10 repetitions; a file\'s version must '
                                     'depend on its own directory only, detection v1 first when no directory is configured)' % (c['files'], c['m'], c['got']),
                             'order_dependent_files': bad},
                       signature={'kind': 'input-from-map', 'key': _j.dumps([c['m'], c['files']], sort_keys=True)})
    return sum(len(c['files']) for c in fms)


# ---- language server: histories of configuration (re)loads through the real config worker -----------------

RELOAD_FILES = ['/p.rego', '/a/p.rego', '/a/b/p.rego', '/ab/p.rego', '/b/p.rego']


def reload_histories(ctx):
    rng = ctx.rng
    dirs = ['a', 'ab', 'a/b', 'b']

    def cfg():
        proj = rng.choice([None, None, 0, 1])
        roots = [{'dir': d, 'ver': rng.choice([None, 0, 1, 0, 1])} for d in dirs if rng.below(3) == 0]
        y = 'project:\n'
        if proj is not None:
            y += '  rego-version: %d\n' % proj
        if roots:
            y += '  roots:\n'
            for r in roots:
                y += '    - path: %s\n' % r['dir']
                if r['ver'] is not None:
                    y += '      rego-version: %d\n' % r['ver']
        if proj is None and not roots:
            y = 'rules: {}\n'
        return {'project': proj, 'roots': roots, 'yaml': y}
    fixed = [[{'project': None, 'roots': [{'dir': 'a', 'ver': 0}, {'dir': 'b', 'ver': 1}], 'yaml': 'project:\n  roots:\n    - path: a\n      rego-version: 0\n    - path: b\n      rego-version: 1\n'},
              {'project': None, 'roots': [{'dir': 'b', 'ver': 1}], 'yaml': 'project:\n  roots:\n    - path: b\n      rego-version: 1\n'},
              {'project': 1, 'roots': [], 'yaml': 'project:\n  rego-version: 1\n'},
              {'project': None, 'roots': [], 'yaml': 'rules: {}\n'}]]
    hists = fixed + [[cfg() for _ in range(3 + (0 if ctx.quick() else rng.below(2)))] for _ in range(1 if ctx.quick() else 25)]
    return hists


def reload_cases(ctx, overlay):
    import json as _j
    hists, got = overlay['hists'], overlay['reload']
    vs = ['From Regal Require Import Check.C20Check.', 'Open Scope N_scope.']
    for hi, (h, g) in enumerate(zip(hists, got)):
        steps = clist('{| r_project := %s; r_roots := %s; r_obs := %s |}' % (
            copt(None if s['project'] is None else 'V%d' % s['project']), srcs(s['roots']),
            clist('(%s, %s)' % (cstr(f), VER.get(gs['got'].get(f, 'undef'), 'VUndef')) for f in RELOAD_FILES))
            for s, gs in zip(h, g['steps']))
        vs.append('Definition H%d := Eval vm_compute in reload_steps_bad [] 0 %s.' % (hi, steps))
        vs.append('Print H%d.' % hi)
    rc, out = vlib.coq_eval(ctx, 'Cases_C20_reload', '\n'.join(vs))
    if rc != 0:
        raise RuntimeError('reload case evaluation failed: ' + out[-2000:])
    n = 0
    for hi, (h, g) in enumerate(zip(hists, got)):
        n += len(h)
        if any('<timeout>' in st['got'] for st in g['steps']):
            raise RuntimeError('config worker did not reload within the deadline')
        bad = vlib.parse_nat_list(out, 'H%d' % hi) or []
        if bad:
            i = bad[0]
            vlib.violation(ctx, {'kind': 'lsp-config-reload', 'history': [s['yaml'] for s in h[:i + 1]], 'step': i,
                                 'observed': g['steps'][i]['got'],
                                 'what': 'after loading the %d-th configuration of this history the language server answers %s for the files; '
                                         'the current configuration alone (project=%s roots=%s) decides otherwise' % (
                                             i + 1, g['steps'][i]['got'], h[i]['project'], h[i]['roots'])},
                           signature={'kind': 'lsp-config-reload', 'key': _j.dumps([s['yaml'] for s in h[:i + 1]])})
            break
    return n
