"""C20: rego version of a file = nearest configured directory, however spelled."""
import json, os
import vlib
from vlib import cstr, clist, copt
from common import proof_gate, proof_coverage

VER = {'v0': 'V0', 'v1': 'V1', 'undef': 'VUndef'}
OUT = {'v0': 'OV0', 'v1': 'OV1', 'error': 'OErr', 'v0v1': 'OV1'}
KIND = {'both': 'KBoth', 'v0only': 'KV0only', 'v1only': 'KV1only'}


def vmap(kvs):
    return clist('(%s, %s)' % (cstr(kv['k']), VER[kv['v']]) for kv in (kvs or []))


def srcs(ss):
    return clist('(%s, %s)' % (cstr(s['dir']), 'V%d' % s['ver']) for s in (ss or []))


def run(ctx):
    h = vlib.build_harness(ctx, 'c20')
    out = os.path.join(ctx.tmp, 'c20.jsonl')
    wd = os.path.join(ctx.tmp, 'ws')
    os.makedirs(wd)
    rc, log = vlib.run([h, out, ctx.tier, wd], env=dict(os.environ, VERIF_SEED=str(ctx.seed)), timeout=900)
    if rc != 0:
        raise RuntimeError('c20 harness failed: ' + log[-2000:])
    cases = [json.loads(l) for l in open(out)]
    if ctx.replay:
        rp = json.load(open(ctx.replay))
        if 'case' in rp:
            cases = [rp['case']]
    lookups = [c for c in cases if c['kind'] == 'lookup']
    trees = [c for c in cases if c['kind'] == 'tree' and 'error' not in c]
    tree_errs = [c for c in cases if c['kind'] == 'tree' and 'error' in c]

    v = ['From Regal Require Import Check.C20Check.', 'Open Scope N_scope.']
    v.append('Definition lookups : list lookup_case := ' + clist(
        'LookupCase %s %s %s' % (vmap(c['m']), cstr(c['file']), clist(VER[g] for g in c['got']))
        for c in lookups) + '.')
    tdefs = []
    for t in trees:
        obs = clist('{| o_file := %s; o_kind := %s; o_cwd := %s; o_arg := %s; o_got := %s |}' % (
            cstr(o['file']), KIND[o['kind']], cstr('' if o['cwd'] == '.' else o['cwd']),
            cstr(norm_arg(o)), OUT[o['got']]) for o in t['obs'])
        tdefs.append('{| t_manifests := %s; t_project := %s; t_roots := %s; t_vmap := %s; t_obs := %s |}' % (
            srcs(t['manifests']), copt(None if t['project'] is None else 'V%d' % t['project']),
            srcs(t['roots']), vmap(t['vmap']), obs))
    v.append('Definition trees : list tree_case := ' + clist(tdefs) + '.')
    v.append('Definition R1 := Eval vm_compute in failing lookup_agrees 0 lookups.')
    v.append('Definition R2 := Eval vm_compute in failing lookup_meets_spec 0 lookups.')
    v.append('Definition R3 := Eval vm_compute in failing (fun t => negb (tree_bad t)) 0 trees.')
    v.append('Definition R4 := Eval vm_compute in length (filter lookup_in_domain lookups).')
    v.append('Print R1. Print R2. Print R3. Print R4.')
    rc, cout = vlib.coq_eval(ctx, 'Cases_C20', '\n'.join(v))
    if rc != 0:
        raise RuntimeError('case evaluation failed:\n' + cout[-3000:])
    r1 = vlib.parse_nat_list(cout, 'R1')
    r2 = vlib.parse_nat_list(cout, 'R2')
    r3 = vlib.parse_nat_list(cout, 'R3')
    import re
    m4 = re.search(r'R4 = (\d+)', cout)
    in_dom = int(m4.group(1)) if m4 else 0

    # ---- verdicts -------------------------------------------------------------------------
    for i in sorted(set(r2)):
        c = lookups[i]
        vlib.violation(ctx, {'kind': 'lookup-vs-spec', 'case': c,
                             'what': 'RegoVersionFromVersionsMap(%r, %r) returned %s, the deepest containing '
                                     'directory says otherwise' % (c['m'], c['file'], c['got'])},
                       signature={'kind': 'lookup-vs-spec', 'key': json.dumps([c['m'], c['file']], sort_keys=True)})
        break
    spelled = 0
    for i in r3:
        t = trees[i]
        # which part failed: ask again for details (cheap, one tree)
        det = tree_details(ctx, tdefs[i])
        bad_spec = [t['obs'][j] for j in det['spec']]
        bad_model = [t['obs'][j] for j in det['model']]
        if bad_spec:
            o = min(bad_spec, key=lambda o: (len(o['arg']), o['arg']))
            vlib.violation(ctx, {'kind': 'tree-vs-spec', 'case': t, 'observation': o,
                                 'what': 'file %s (%s) addressed as %s from cwd %s parsed as %s; manifests=%s project=%s roots=%s'
                                         % (o['file'], o['kind'], o['spelling'], o['cwd'], o['got'], t['manifests'], t['project'], t['roots'])},
                           signature={'kind': 'tree-vs-spec', 'key': json.dumps(
                               [t['manifests'], t['project'], t['roots'], o['file'], o['kind'], o['spelling']], sort_keys=True)})
            spelled += 1
        elif bad_model or not det['vmap']:
            vlib.violation(ctx, {'kind': 'correspondence', 'relation': 'Check.C20Check.tree_report (model of AllRegoVersions/InputFromPaths)',
                                 'case': t, 'vmap_agrees': det['vmap'], 'observations': bad_model[:5]}, no_input=True)
        if len(ctx.violations) >= 3:
            break
    if r1 and not ctx.violations:
        c = lookups[r1[0]]
        vlib.violation(ctx, {'kind': 'correspondence', 'relation': 'Check.C20Check.lookup_agrees (model of RegoVersionFromVersionsMap)',
                             'case': c, 'n_mismatches': len(r1)}, no_input=True)
    for c in tree_errs[:1]:
        vlib.violation(ctx, {'kind': 'tree-error', 'case': c}, no_input=False)
    proof_gate(ctx)

    nobs = sum(len(t['obs']) for t in trees)
    distinct = len({json.dumps([c['m'], c['file']], sort_keys=True) for c in lookups}) + \
        len({json.dumps([t['manifests'], t['project'], t['roots']], sort_keys=True) for t in trees})
    cov = proof_coverage(ctx, {
        'evaluations': len(lookups) + nobs,
        'distinct_nontrivial': distinct,
        'rule': 'lookup cases: every pair of clean keys x versions x 18 directories (exhaustive) plus random maps of 1-3 keys '
                'incl. unclean spellings; tree cases: temp workspaces with manifests/project/roots over dirs {"",a,ab,a/b,b}, 15 files '
                'each addressed absolutely and relatively from 3-4 working directories. distinct = distinct (map,file) pairs + distinct trees',
        'lookup_cases': len(lookups), 'lookup_cases_in_spec_domain': in_dom, 'trees': len(trees), 'tree_observations': nobs,
        'mismatch_model_lookup': len(r1), 'mismatch_spec_lookup': len(r2), 'bad_trees': len(r3),
        'samples': [lookups[len(lookups) // 2], {k: trees[0][k] for k in ('manifests', 'project', 'roots', 'vmap')}, trees[0]['obs'][:3]],
        'exhaustive': False,
    })
    return vlib.finish(ctx, 'proof', cov, [
        'stdlib path.Clean/Join/filepath.Dir are modelled (Base/PathModel.v), validated by this correspondence only',
        'OPA parser behaviour on the three fixed file contents is an oracle table (parse_outcome)',
        'LSP regoVersionForURI and the fixer (InputFromMap) use the same lookup; their relativisation is covered by the lookup cases with rooted names',
    ])


def norm_arg(o):
    a = o['arg']
    # the harness reports absolute arguments with the real temp root: make them "/R/..."
    if a.startswith('/'):
        assert a.startswith(o['root']), (a, o['root'])
        return '/R' + a[len(o['root']):]
    return a


def tree_details(ctx, tdef):
    v = ['From Regal Require Import Check.C20Check.', 'Open Scope N_scope.',
         'Definition T := %s.' % tdef,
         'Definition D1 := Eval vm_compute in (if vmap_agrees T then [1] else [0])%nat.',
         'Definition D2 := Eval vm_compute in failing (obs_agrees T) 0 (t_obs T).',
         'Definition D3 := Eval vm_compute in failing (obs_meets_spec T) 0 (t_obs T).',
         'Print D1. Print D2. Print D3.']
    rc, out = vlib.coq_eval(ctx, 'Det_C20', '\n'.join(v))
    return {'vmap': vlib.parse_nat_list(out, 'D1') == [1], 'model': vlib.parse_nat_list(out, 'D2') or [],
            'spec': vlib.parse_nat_list(out, 'D3') or []}
