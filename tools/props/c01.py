"""C01: the lint verdict is a pure function of its inputs (schedule / path order / repetition)."""
import glob, hashlib, json, os, re, subprocess
import vlib
from vlib import cstr, clist, cnat
from common import proof_gate, proof_coverage

PROCS = [16, 2, 1]


def short(key):
    """the model only compares these keys for equality: a 60-bit digest instead of the text (Coq reads literals slowly)"""
    return hashlib.sha1(key.encode()).hexdigest()[:15]


def c_viol(v):
    return '{| v_file := %s; v_key := %s |}' % (cstr(v['file']), cstr(short(v['key'])))


def c_notice(n):
    return '{| n_key := %s; n_sev := %s |}' % (cstr(short(n['key'])), cstr(n['sev']))


def c_amap(aggs):
    return clist('(%s, %s)' % (cstr(a['key']), clist(cstr(x) for x in a['aggs'])) for a in aggs)


def c_dmap(dirs):
    return clist('(%s, %s)' % (cstr(d[0]), cstr(d[1])) for d in dirs)


def c_result(fr):
    return '{| r_viol := %s; r_notices := %s; r_aggs := %s; r_dirs := %s |}' % (
        clist(c_viol(v) for v in fr['viol']), clist(c_notice(n) for n in fr['notices']),
        c_amap(fr['aggs']), c_dmap(fr['dirs']))


def c_obs(c):
    return ('{| o_viol := %s; o_aggviol := %s; o_notices := %s; o_scanned := %s; o_failed := %s; '
            'o_skipped := %s; o_num := %s; o_aggs := %s; o_dirs := %s |}') % (
        clist(c_viol(v) for v in c['viol'] if not v['agg']), clist(c_viol(v) for v in c['viol'] if v['agg']),
        clist(c_notice(n) for n in c['notices']), cnat(c['scanned']), cnat(c['failed']), cnat(c['skipped']),
        cnat(c['num']), c_amap(c['aggs']), c_dmap(c.get('dirs') or []))


def c_val(j):
    if isinstance(j, dict):
        return '(VObj %s)' % clist('(%d, %s)' % (int(k[1:]), c_val(v)) for k, v in sorted(j.items()))
    return '(VLeaf %d)' % int(j)


def c_cache_case(c):
    ops, got = [], []
    for o in c['ops'] or []:
        ref = clist(str(k) for k in o[1])
        if o[0] == 'put':
            ops.append('OPut %s' % ref)
        else:
            ops.append('OGet %s' % ref)
            got.append('None' if o[2] is None else '(Some %s)' % c_val(o[2]))
    return '{| cc_doc := %s; cc_ops := %s; cc_got := %s |}' % (c_val(c['doc']), clist(ops), clist(got))


def run_cache_overlay(ctx, race):
    """internal/cache is reached with an overlay test (nothing is added to the repository)"""
    out = os.path.join(ctx.tmp, 'cache.jsonl')
    rc, log = vlib.go_test_overlay(ctx, './internal/cache',
                                   {'internal/cache/zz_verif_c01_test.go': os.path.join(vlib.VERIF, 'harness', 'overlay', 'c01_test.go')},
                                   'TestVerifC01', args=[out, str(ctx.seed), ctx.tier], race=race, timeout=1200)
    if rc != 0 and ('DATA RACE' in log or 'concurrent map' in log):
        return [], log
    if rc != 0:
        if re.search(r'\[build failed\]|cannot find package|undefined:', log):
            raise vlib.HarnessBuildError(log)
        raise RuntimeError('overlay test failed:\n' + log[-3000:])
    return [json.loads(l) for l in open(out)], None


def ws_key(ws):
    extra = [ws.get(k) for k in ('opts', 'manifests', 'roots', 'project_version', 'ignore', 'rule_levels')]
    base = [ws['config'], ws['custom'], ws['files'], ws.get('rule_ignore'), ws.get('caps_version'), ws.get('args')]
    return hashlib.sha1(json.dumps(base + (extra if any(extra) else []), sort_keys=True).encode()).hexdigest()[:16]


def canon_key(c):
    return json.dumps(c, sort_keys=True)


def run(ctx):
    import time
    phases = {}
    t0 = time.time()

    def mark(name):
        nonlocal t0
        phases[name] = round(time.time() - t0, 1)
        t0 = time.time()
    race = not ctx.quick()
    h = vlib.build_harness(ctx, 'c01')
    # thorough tier: the GOMAXPROCS=16 process runs under the race detector (about 7x slower per lint)
    h_race = vlib.build_harness(ctx, 'c01', race=True) if race else None
    fixed = []
    only = False
    if ctx.replay:
        rp = json.load(open(ctx.replay))
        if 'case' in rp and 'ws' in rp['case']:
            fixed, only = [rp['case']['ws']], True
    if not only:
        for f in sorted(glob.glob(os.path.join(vlib.VERIF, 'corpus', 'C01', '*.json'))):
            fixed.append(json.load(open(f)))
    fixed_path = os.path.join(ctx.tmp, 'fixed.json')
    json.dump(fixed, open(fixed_path, 'w'))
    procs = []
    # one process per GOMAXPROCS value; the single-threaded one (the slowest) as three processes that share the workspaces
    for p, shard in [(16, None), (2, None), (1, '0/3'), (1, '1/3'), (1, '2/3')]:
        tag = '%d%s' % (p, '_' + shard[0] if shard else '')
        out = os.path.join(ctx.tmp, 'c01_%s.jsonl' % tag)
        cmd = [h_race if (race and p == 16) else h, out, ctx.tier, os.path.join(ctx.tmp, 'g' + tag), str(p),
               '1' if p == 16 else '0', fixed_path]
        if only:
            cmd.append('only')
        env = dict(os.environ, VERIF_SEED=str(ctx.seed))
        if shard:
            env['VERIF_SHARD'] = shard
        if race and p == 16:
            env['GORACE'] = 'halt_on_error=0 exitcode=66 log_path=' + os.path.join(ctx.tmp, 'race_%d' % p)
        procs.append((p, out, subprocess.Popen(cmd, env=env, stdout=subprocess.PIPE, stderr=subprocess.STDOUT, text=True)))
    mark('build')
    # the overlay test of internal/cache runs while the lint processes work
    cache_recs, cache_race = ([], None) if ctx.replay else run_cache_overlay(ctx, race)
    mark('basecache_overlay')
    by_ws = {}
    order = []
    race_reports = []
    for p, out, pr in procs:
        log, _ = pr.communicate(timeout=3000)
        for rf in glob.glob(os.path.join(ctx.tmp, 'race_%d.*' % p)):
            race_reports.append({'procs': p, 'report': open(rf, errors='replace').read()[:6000]})
        if pr.returncode not in (0, 66):
            raise RuntimeError('c01 harness (GOMAXPROCS=%d) failed rc=%s: %s' % (p, pr.returncode, log[-3000:]))
        for l in open(out):
            o = json.loads(l)
            if o.get('kind') == 'timing':
                k = 'harness_gomaxprocs_%d' % o['procs']
                phases[k] = max(phases.get(k, 0), round(o['seconds'], 1))
                continue
            wid = o['ws']['id']
            if wid not in by_ws:
                by_ws[wid] = {}
                order.append(wid)
            by_ws[wid][p] = o

    mark('lint_processes')
    # ---- the property on the implementation's own outputs --------------------------------------
    total_runs = 0
    orders_total = 0
    distinct_cases = set()
    hist = {}
    bad_ws = set()
    input_cases = []
    perfile = {'notice_sets': 0, 'violation_counts': 0, 'aggregate_shapes': 0, 'directives': 0}   # workspaces whose per-file results differ in ..
    arg_lists = []
    versioned = []
    agg_rules = {}
    for wid in order:
        per = by_ws[wid]
        ws = per[PROCS[0]]['ws']
        n = per[PROCS[0]]['n']
        hist['files=%d' % n] = hist.get('files=%d' % n, 0) + 1
        hist['config=%s' % ws['config']] = hist.get('config=%s' % ws['config'], 0) + 1
        if ws.get('rule_ignore'):
            hist['per-rule-ignore'] = hist.get('per-rule-ignore', 0) + 1
        if ws.get('family'):
            hist['family=%s' % ws['family']] = hist.get('family=%s' % ws['family'], 0) + 1
        if ws.get('args') and not ws.get('family'):
            hist['argument-list'] = hist.get('argument-list', 0) + 1
            arg_lists.append({'args': ws['args'], 'orders_run': len({json.dumps(o['variants'][r['variant']]) for o in per.values() for r in o['runs']}), 'files': n})
        orc0 = (per[PROCS[0]].get('oracle') or {}).get('files') or []
        if len(orc0) > 1:
            def shape(f):
                return sorted((a['key'], 'marker' if a['aggs'] == [''] else 'entries') for a in f['aggs'])
            if len({json.dumps(sorted(x['key'] for x in f['notices'])) for f in orc0}) > 1:
                perfile['notice_sets'] += 1
            if len({len(f['viol']) for f in orc0}) > 1:
                perfile['violation_counts'] += 1
            if len({json.dumps(shape(f)) for f in orc0}) > 1:
                perfile['aggregate_shapes'] += 1
            if len({len(f['dirs']) for f in orc0}) > 1 or len({d[1] for f in orc0 for d in f['dirs']}) > 1:
                perfile['directives'] += 1
        seen = {}
        for p, o in per.items():
            total_runs += len(o['runs'])
            if n >= 2:
                orders_total += o['orders']
                for r in o['runs']:
                    distinct_cases.add((ws_key(ws), p, json.dumps(o['variants'][r['variant']]), r['conc']))
            for e in o['errors'][:1]:
                bad_ws.add(wid)
                vlib.violation(ctx, {'kind': 'lint-error', 'case': {'ws': ws}, 'gomaxprocs': p, 'error': e},
                               signature={'kind': 'lint-error', 'key': ws_key(ws)})
            for r in o['runs']:
                if r['canon'] >= 0:
                    k = canon_key(o['canons'][r['canon']])
                    seen.setdefault(k, []).append({'gomaxprocs': p, 'args': o['variants'][r['variant']],
                                                   'rep': r['rep'], 'concurrent': r['conc']})
        per['_canons'] = [json.loads(k) for k in seen]
        if len(ctx.violations) >= 3:
            if len(seen) > 1:
                bad_ws.add(wid)
            continue
        if len(seen) > 1:
            bad_ws.add(wid)
            ks = sorted(seen, key=lambda k: -len(seen[k]))
            a, b = json.loads(ks[0]), json.loads(ks[1])
            vlib.violation(ctx, {
                'kind': 'report-differs', 'case': {'ws': ws},
                'what': 'the same workspace linted %d times gave %d different reports' % (sum(len(v) for v in seen.values()), len(seen)),
                'run_a': seen[ks[0]][0], 'run_b': seen[ks[1]][0],
                'summary_a': {k: a[k] for k in ('scanned', 'failed', 'skipped', 'num')},
                'summary_b': {k: b[k] for k in ('scanned', 'failed', 'skipped', 'num')},
                'only_in_a': [v for v in a['viol'] if v not in b['viol']][:10] + [x for x in a['notices'] if x not in b['notices']][:5],
                'only_in_b': [v for v in b['viol'] if v not in a['viol']][:10] + [x for x in b['notices'] if x not in a['notices']][:5],
                'aggs_a': a['aggs'] if a['aggs'] != b['aggs'] else 'same', 'aggs_b': b['aggs'] if a['aggs'] != b['aggs'] else 'same',
            }, signature={'kind': 'report-differs', 'key': ws_key(ws)})
        o16 = per.get(16)
        if o16 and o16.get('lookups'):
            versioned.append({'ws': wid, 'versions_map': o16.get('version_keys'), 'files': len(o16['lookups']),
                              'lookups_per_file': o16['lookups'][0]['calls'], 'identical_lint_calls': {str(p): len(o['runs']) for p, o in per.items() if isinstance(p, int)}})
            unstable = [l for l in o16['lookups'] if len(l['versions']) != 1]
            if unstable:
                bad_ws.add(wid)
                vlib.violation(ctx, {'kind': 'rego-version-differs', 'case': {'ws': ws}, 'versions_map': o16.get('version_keys'),
                                     'what': 'rules.RegoVersionFromVersionsMap selected different Rego versions for %s over %d calls with the map '
                                             'config.AllRegoVersions builds for this workspace: %s' % (
                                                 unstable[0]['file'], unstable[0]['calls'], unstable[0]['versions']),
                                     'files_affected': [l['file'] for l in unstable]},
                               signature={'kind': 'rego-version-differs', 'key': ws_key(ws)})
        if o16 and o16.get('oracle'):
            for r in o16.get('agg_rule_list') or []:
                agg_rules.setdefault(r, {'workspaces_with_entries_of_2_or_more_files': 0, 'orders_evaluated': 0, 'violations_reported': 0,
                                         'lint_runs_of_those_workspaces': 0})
            for rc in o16['oracle'].get('agg_rules') or []:
                a = agg_rules.setdefault(rc['rule'], {'workspaces_with_entries_of_2_or_more_files': 0, 'orders_evaluated': 0, 'violations_reported': 0,
                                                      'lint_runs_of_those_workspaces': 0, 'not_in_bundle': True})
                a['violations_reported'] += rc['violations']
                if rc['files'] >= 2:
                    a['workspaces_with_entries_of_2_or_more_files'] += 1
                    a['orders_evaluated'] += rc['orders']
                    a['lint_runs_of_those_workspaces'] += sum(len(o['runs']) for p, o in per.items() if isinstance(p, int))
            if not o16['oracle']['aggperm_ok']:
                bad_ws.add(wid)
                d = o16['oracle'].get('agg_diff') or {}
                vlib.violation(ctx, {'kind': 'aggregate-rule-order-dependent', 'case': {'ws': ws}, 'rules': d.get('rules'),
                                     'order_a': d.get('order_a'), 'order_b': d.get('order_b'),
                                     'only_with_order_a': d.get('only_a'), 'only_with_order_b': d.get('only_b'),
                                     'what': 'the aggregate phase (direct evaluation of the lint query with the "aggregate" operation, every rule '
                                             'enabled as in the workspace) gave different violations when the entries of input.aggregate were reordered: '
                                             'rule(s) %s (hypothesis H_aggperm of c01_lint_schedule_independent; the order of the entries is the '
                                             'order in which the per-file workers finish)' % d.get('rules')},
                               signature={'kind': 'aggregate-rule-order-dependent', 'key': ws_key(ws)})
            for ic in o16['inputs']:
                input_cases.append((wid, ic))
                if not ic['stable']:
                    bad_ws.add(wid)
                    vlib.violation(ctx, {'kind': 'input-filenames-differ', 'case': {'ws': ws}, 'paths': ic['paths'],
                                         'what': 'rules.InputFromPaths returned different FileNames / error status for permutations of the same paths'},
                                   signature={'kind': 'input-filenames-differ', 'key': ws_key(ws)})
    for rr in race_reports[:1]:
        vlib.violation(ctx, {'kind': 'data-race', 'what': 'the Go race detector reported a race while linting', 'gomaxprocs': rr['procs'],
                             'report': rr['report'], 'case': {'ws': by_ws[order[0]][PROCS[0]]['ws']}},
                       signature={'kind': 'data-race', 'key': re.sub(r'0x[0-9a-f]+|\d+', '', rr['report'])[:300]})

    # ---- base cache: concurrent answers must be sound ----------------------------------------------
    if cache_race:
        vlib.violation(ctx, {'kind': 'data-race', 'what': 'race detector report in internal/cache', 'report': cache_race[-4000:]},
                       signature={'kind': 'data-race', 'key': 'internal/cache'})
    caches = [c for c in cache_recs if c['kind'] == 'cache']
    for c in cache_recs:
        if c['kind'] == 'cache-conc' and c['bad']:
            vlib.violation(ctx, {'kind': 'basecache-answer-unsound', 'case': {'doc': c['doc']}, 'what': c['example'],
                                 'bad_answers': c['bad'], 'gets': c['gets']},
                           signature={'kind': 'basecache-answer-unsound', 'key': json.dumps(c['doc'], sort_keys=True)})
            break

    # ---- correspondence with the model -----------------------------------------------------------
    ws_cases, ws_ids = [], []
    for wid in order:
        o16 = by_ws[wid].get(16)
        if not o16 or not o16.get('oracle'):
            continue
        orc = o16['oracle']
        ws_cases.append('{| c_files := %s; c_merged := %s; c_dirs := %s; c_aggviol := %s; c_observed := %s |}' % (
            clist(c_result(f) for f in orc['files']), c_amap(orc['merged']), c_dmap(orc['dirs']),
            clist(c_viol(v) for v in orc['aggviol']), clist(c_obs(c) for c in by_ws[wid]['_canons'])))
        ws_ids.append(wid)
    inp = []
    for wid, ic in input_cases:
        inp.append('{| ip_paths := %s; ip_got := %s |}' % (
            clist('(%s, %s)' % (cstr(p), vlib.cbool(ok)) for p, ok in zip(ic['paths'], ic['ok'])),
            'None' if ic['err'] else '(Some %s)' % clist(cstr(x) for x in ic['got'])))
    mark('predicates')
    # three case files side by side: the workspaces in two halves, the InputFromPaths and base cache cases
    from concurrent.futures import ThreadPoolExecutor
    half = (len(ws_cases) + 1) // 2

    def ev(job):
        name, defs, evals = job
        rc, cout = vlib.coq_eval(ctx, name, '\n'.join(['From Regal Require Import Check.C01Check.', 'Open Scope N_scope.'] + defs + evals))
        if rc != 0:
            raise RuntimeError('case evaluation failed:\n' + cout[-3000:])
        return cout
    jobs = [('Cases_C01_a', ['Definition wss : list c01_case := ' + clist(ws_cases[:half]) + '.'],
             ['Definition R1 := Eval vm_compute in failing1 case_agrees 0 wss.', 'Print R1.']),
            ('Cases_C01_b', ['Definition wss : list c01_case := ' + clist(ws_cases[half:]) + '.'],
             ['Definition R1 := Eval vm_compute in failing1 case_agrees 0 wss.', 'Print R1.']),
            ('Cases_C01_c', ['Definition inps : list inp_case := ' + clist(inp) + '.',
                             'Definition caches : list cache_case := ' + clist(c_cache_case(c) for c in caches) + '.'],
             ['Definition R2 := Eval vm_compute in failing1 inp_agrees 0 inps.',
              'Definition R3 := Eval vm_compute in failing1 cache_agrees 0 caches.', 'Print R2. Print R3.'])]
    with ThreadPoolExecutor(max_workers=3) as ex:
        outs = list(ex.map(ev, jobs))
    mark('coq_eval')
    r1 = (vlib.parse_nat_list(outs[0], 'R1') or []) + [half + i for i in (vlib.parse_nat_list(outs[1], 'R1') or [])]
    r2 = vlib.parse_nat_list(outs[2], 'R2') or []
    r3 = vlib.parse_nat_list(outs[2], 'R3') or []
    for i in r3[:1]:
        c = caches[i]
        vlib.violation(ctx, {'kind': 'basecache-vs-model', 'case': {'doc': c['doc'], 'ops': c['ops']},
                             'what': 'a sequential history of Put/Get on the real base cache answered differently from Model.BaseCache.replay',
                             'relation': 'Check.C01Check.cache_agrees'},
                       signature={'kind': 'basecache-vs-model', 'key': json.dumps([c['doc'], c['ops']], sort_keys=True)})
    for i in r1:
        wid = ws_ids[i]
        if wid in bad_ws:
            continue   # already explained by a concrete failing input
        det = ws_details(ctx, ws_cases[i])
        vlib.violation(ctx, {
            'kind': 'correspondence', 'relation': 'Check.C01Check.case_agrees: report of Linter.Lint = finalize (fold merge (per-file results of the lint query))',
            'case': {'ws': by_ws[wid][16]['ws']}, 'parts_that_disagree': det,
            'observed': by_ws[wid]['_canons'][0], 'what': 'the real report is not the fold of the per-file results; no two runs disagreed with each other'},
            no_input=True)
        if len(ctx.violations) >= 3:
            break
    for i in r2[:1]:
        wid, ic = input_cases[i]
        if wid not in bad_ws:
            vlib.violation(ctx, {'kind': 'correspondence', 'relation': 'Check.C01Check.inp_agrees: FileNames of rules.InputFromPaths = sorted set of cleaned names',
                                 'case': {'ws': by_ws[wid][16]['ws']}, 'paths': ic['paths'], 'got': ic['got'], 'err': ic['err']}, no_input=True)
    proof_gate(ctx, 'c01_shapes_of_this_tree_are_locked depends on Gen/LinterShape.v (regenerated from pkg/linter/linter.go and pkg/rules/rules.go): '
                    'a shared write outside the critical section or a missing mutex breaks it')

    aggperm_n = sum(by_ws[w][16]['oracle']['aggperm_n'] for w in order if by_ws[w].get(16) and by_ws[w][16].get('oracle'))
    some = by_ws[order[-1]][16] if order and by_ws[order[-1]].get(16) else None
    cov = proof_coverage(ctx, {
        'evaluations': total_runs + len(input_cases) * 4,
        'distinct_nontrivial': len(distinct_cases),
        'rule': 'distinct (workspace, GOMAXPROCS, argument list, concurrent?) combinations with >= 2 files that were linted; every run of a '
                'workspace (every order of its argument list: files, or directories and files with names sharing prefixes) must give the '
                'identical canonical report (sorted violations/notices/aggregates + the four summary counts) and that report must equal '
                'finalize(fold merge(per-file results)) computed in Coq from the per-file oracle tables (violations, NOTICES, aggregates, '
                'directives of each file from a direct OPA evaluation of that file alone, not from Linter.Lint)',
        'lint_runs': total_runs, 'workspaces': len(order), 'gomaxprocs': PROCS, 'race_detector': race,
        'distinct_merge_orders_observed': orders_total,
        'input_from_paths_cases': len(input_cases), 'h_aggperm_shuffles': aggperm_n,
        'basecache_histories': len(caches), 'basecache_concurrent_gets': sum(c.get('gets', 0) for c in cache_recs if c['kind'] == 'cache-conc'),
        'basecache_concurrent_hits': sum(c.get('hits', 0) for c in cache_recs if c['kind'] == 'cache-conc'),
        'mismatch_model_ws': len(r1), 'mismatch_model_inputs': len(r2), 'mismatch_model_basecache': len(r3), 'workspaces_with_differing_reports': len(bad_ws),
        'histogram': hist, 'phase_seconds': phases,
        'workspaces_whose_per_file_results_differ_in': perfile, 'argument_lists': arg_lists,
        # H_aggperm rule by rule: the rules of the bundle under test that define aggregate_report (+ custom ones met)
        'aggregate_report_rules': agg_rules,
        'aggregate_report_rules_untested': sorted(r for r, a in agg_rules.items()
                                                  if not a['workspaces_with_entries_of_2_or_more_files'] or not a['violations_reported']),
        'aggregate_report_rule_covered_means': 'some workspace had entries of >= 2 files for the rule and the aggregate phase was evaluated directly on '
                                               'several orders of them (orders_evaluated), the workspace was linted for real under GOMAXPROCS 16/2/1, '
                                               'and the rule reported a violation in some workspace',
        'versioned_workspaces': versioned,
        'slowest_workspaces_s': sorted(((round(o.get('seconds', 0), 1), 'ws%d@gomaxprocs%d' % (w, p)) for w in order for p, o in by_ws[w].items()
                                        if isinstance(p, int)), reverse=True)[:5],
        'samples': [] if not some else [{'files': [f['name'] for f in some['ws']['files']], 'config': some['ws']['config'],
                                         'args': some['variants'][:2], 'summary': {k: some['canons'][0][k] for k in ('scanned', 'failed', 'skipped', 'num')} if some['canons'] else None}],
        'exhaustive': False,
    })
    return vlib.finish(ctx, 'proof', cov, [
        'per-file rule results and the aggregate phase are oracles (OPA evaluation itself is assumed deterministic; tabulated per run)',
        'H_aggperm (aggregate_report rules read input.aggregate as a set) is tested, not proved: rule by rule for every rule of the bundle under '
        'test that defines aggregate_report (evidence: aggregate_report_rules / _untested), by direct evaluation on reordered entries and by real runs',
        'Go map iteration order is random per call: configuration shapes processed through maps (Rego versions per directory, rule levels, '
        'ignore lists) are covered by repetition of identical calls (>= 8 per process) and direct calls of RegoVersionFromVersionsMap, not by proof',
        'the Go scheduler is modelled as any interleaving of the atomic steps Lock/Unlock/load/store of the extracted goroutine shape; '
        'data races outside the modelled shared variables are only looked for by the race detector (thorough tier)',
        'goshape flattens control flow and treats all writes of one field in the critical section as one update',
        'internal/cache BaseCache: its RWMutex is taken to make Get/Put atomic (histories are sequences); values are JSON-like trees',
    ])


def ws_details(ctx, case):
    v = ['From Regal Require Import Check.C01Check.', 'Open Scope N_scope.',
         'Definition C := %s.' % case,
         'Definition F := model_final C (c_files C).',
         'Definition D1 := Eval vm_compute in map (fun o => [',
         '  if multiset_eqb viol_eqb (o_viol o) (f_viol F) then 1 else 0;',
         '  if multiset_eqb viol_eqb (o_aggviol o) (f_aggviol F) then 1 else 0;',
         '  if multiset_eqb notice_eqb (o_notices o) (f_notices F) then 1 else 0;',
         '  if Nat.eqb (o_scanned o) (f_scanned F) then 1 else 0; if Nat.eqb (o_failed o) (f_failed F) then 1 else 0;',
         '  if Nat.eqb (o_skipped o) (f_skipped F) then 1 else 0; if Nat.eqb (o_num o) (f_num F) then 1 else 0;',
         '  if amap_equivb (o_aggs o) (f_aggs F) then 1 else 0; if dmap_equivb (o_dirs o) (f_dirs F) then 1 else 0;',
         '  if amap_equivb (A (fold_left merge (c_files C) empty_report)) (c_merged C) then 1 else 0])%nat (c_observed C).',
         'Print D1.']
    rc, out = vlib.coq_eval(ctx, 'Det_C01', '\n'.join(v))
    names = ['violations', 'aggregate_violations', 'notices', 'files_scanned', 'files_failed', 'rules_skipped', 'num_violations',
             'exported_aggregates', 'exported_directives', 'model_merge_vs_harness_merge']
    m = re.search(r'D1\s*=\s*\[(.*)\]', out, re.S)
    if not m:
        return out[-500:]
    rows = re.findall(r'\[([^\]]*)\]', m.group(1))
    res = []
    for r in rows:
        bits = [int(x) for x in re.findall(r'\d+', r)]
        res.append([n for n, b in zip(names, bits) if b == 0])
    return res
