"""C17: the language server survives any message sequence (partial claim).

The overlay harness (harness/overlay/c17_test.go + the shared infrastructure of c15_test.go) executes
generated client message sequences against a real server with all workers.  One test-binary process per
batch, so a panic kills one batch and is attributable; in-flight sequences are then replayed alone and
the crashing one is shrunk to a minimal replay.  The thorough tier runs a `-race` build.
Correspondence: per message the facts the handler's guards test + whether the server survived, compared
with the guard skeletons of Model/LspGuards.v (Check/C17Check.v)."""
import json, os, re
import vlib
from vlib import clist, cbool
from common import proof_gate, proof_coverage
import c15

UNITS = ['initialize', 'initialized', 'textDocument/codeAction', 'textDocument/definition', 'textDocument/diagnostic',
         'textDocument/didOpen', 'textDocument/didClose', 'textDocument/didSave', 'textDocument/documentSymbol',
         'textDocument/didChange', 'textDocument/foldingRange', 'textDocument/formatting', 'textDocument/hover',
         'textDocument/inlayHint', 'textDocument/codeLens', 'textDocument/completion', 'workspace/didChangeWatchedFiles',
         'workspace/diagnostic', 'workspace/didRenameFiles', 'workspace/didDeleteFiles', 'workspace/didCreateFiles',
         'workspace/executeCommand', 'workspace/symbol', 'shutdown', '$/cancelRequest',
         'watch:reload', 'watch:drop']
FACTS = ['cfg_loaded', 'text_present', 'text_crlf', 'files_nonempty', 'changes_nonempty', 'watched_nonempty', 'ignored',
         'content_empty', 'init_opts', 'formatter_opt', 'debuglens_opt', 'evalinline_opt', 'client_vscode', 'diag_present',
         'diag_codedesc', 'args_one', 'arg_diag', 'fix_result', 'has_comment', 'cached', 'eval_command']
NOTIFICATIONS = {'initialized', 'textDocument/didOpen', 'textDocument/didClose', 'textDocument/didSave', 'textDocument/didChange',
                 'workspace/didChangeWatchedFiles', 'workspace/didRenameFiles', 'workspace/didDeleteFiles',
                 'workspace/didCreateFiles', '$/cancelRequest'}

DOCS = [
    'package a\n\nimport data.b\n\nx := b.y\n',
    'package b\n\ny := 2\n',
    'package b\n\nimport data.a\n\ny := a.x\n',
    'package c\n\nimport data.b.y\n\nallow if {\n\tsome x in input.xs\n\tx == y\n}\n',
    'package b\n\ny := {',
    'package a\n\nimport data.b\nx := := 1\n',
    '',
    'package q\r\n\r\ny = 2\r\n',
    '# METADATA\n# title: t\n# entrypoint: true\npackage p\n\nimport rego.v1\n\ndeny contains msg if {\n\tcount(input.a) > 0\n\tmsg := sprintf("%v", [1])\n}\n',
    'package p\n\nf(x) := y if {\n\ty := regex.match("a.*", x)\n}\n\nr := [x | some x in [1, 2, 3]; x > 1]\n',
    'package \xc3\xbc\n',
    '\x00\x01garbage{{{',
    'package a\n\n\n\n\n\n\n\n\nx := 1\n',
    'package a\n\nx := 1',
    'package a.b.c\n\ntest_x if {\n\tx with input as {"a": 1}\n}\n',
]
FILES = ['a.rego', 'b.rego', 'c.rego', 'zz_unknown.rego', 'notes.txt', 'sub/x.rego', 'sub/deep/y_test.rego']
CONFIGS = ['', 'rules:\n  imports:\n    unresolved-import:\n      level: ignore\n',
           'ignore:\n  files:\n    - "b.rego"\n    - "sub/**"\n', 'rules: [\n', 'capabilities:\n  from:\n    engine: opa\n    version: v0.63.0\n']
CLIENTS = ['verif', 'Visual Studio Code', 'Zed']


def uri(f):
    return '${ROOT}/' + f


def pos(rng):
    return {'line': rng.below(12), 'character': rng.below(30)}


def rng_range(rng):
    a, b = pos(rng), pos(rng)
    return {'start': a, 'end': b}


def diag(rng):
    d = {'code': rng.choice(['opa-fmt', 'use-assignment-operator', 'no-whitespace-comment', 'directory-package-mismatch',
                             'non-raw-regex-pattern', 'use-rego-v1', 'unresolved-import', 'other']),
         'message': 'm', 'source': 'regal/x', 'severity': 2, 'range': rng_range(rng)}
    if rng.below(3) != 0:
        d['codeDescription'] = {'href': 'https://example.com/doc'}
    return d


def gen_message(rng, st):
    """returns a message dict (harness format + 'facts' known to the driver)"""
    f = rng.choice(FILES)
    u = uri(f)
    td = {'textDocument': {'uri': u}}
    r = rng.below(100)
    facts = set()
    if st['client'] == 'Visual Studio Code':
        facts.add('client_vscode')
    m = None
    if r < 14:
        t = rng.choice(DOCS)
        m = {'method': 'textDocument/didOpen', 'params': {'textDocument': {'uri': u, 'text': t, 'languageId': 'rego', 'version': 1}}}
        if rng.below(2) == 0 and f.endswith('.rego'):
            m.update(fs='write', fs_path=f, fs_text=t)
    elif r < 30:
        ch = [] if rng.below(8) == 0 else [{'text': rng.choice(DOCS)}]
        m = {'method': 'textDocument/didChange', 'params': {'textDocument': {'uri': u, 'version': 2}, 'contentChanges': ch}}
        if ch:
            facts.add('changes_nonempty')
    elif r < 33:
        m = {'method': 'textDocument/didClose', 'params': td}
    elif r < 39:
        k = rng.below(3)
        p = dict(td)
        if k == 1:
            p['text'] = 'package a\n\nx := 1\n'
            facts.add('text_present')
        elif k == 2:
            p['text'] = 'package a\r\n\r\nx := 1\r\n'
            facts.update(['text_present', 'text_crlf'])
        m = {'method': 'textDocument/didSave', 'params': p}
    elif r < 43:
        m = {'method': 'textDocument/hover', 'params': dict(td, position=pos(rng))}
    elif r < 48:
        ds = [diag(rng) for _ in range(rng.below(3))]
        m = {'method': 'textDocument/codeAction', 'params': dict(td, range=rng_range(rng), context={'diagnostics': ds})}
        if ds:
            facts.add('diag_present')
            if all('codeDescription' in d for d in ds):
                facts.add('diag_codedesc')
    elif r < 51:
        m = {'method': 'textDocument/definition', 'params': dict(td, position=pos(rng))}
    elif r < 54:
        m = {'method': 'textDocument/documentSymbol', 'params': td}
    elif r < 57:
        m = {'method': 'textDocument/foldingRange', 'params': td}
    elif r < 61:
        m = {'method': 'textDocument/formatting', 'params': dict(td, options={'tabSize': 4, 'insertSpaces': False})}
    elif r < 64:
        m = {'method': 'textDocument/inlayHint', 'params': dict(td, range=rng_range(rng))}
    elif r < 67:
        m = {'method': 'textDocument/codeLens', 'params': td}
    elif r < 71:
        m = {'method': 'textDocument/completion', 'params': dict(td, position=pos(rng), context={'triggerKind': 1})}
    elif r < 74:
        k = rng.below(4)
        ch = [] if k == 0 else [{'uri': u, 'type': 2}] if k == 1 else [{'uri': uri('.regal/config.yaml'), 'type': 1}] if k == 2 \
            else [{'uri': '', 'type': 3}, {'uri': u, 'type': 2}]
        m = {'method': 'workspace/didChangeWatchedFiles', 'params': {'changes': ch}}
        if ch:
            facts.add('watched_nonempty')
    elif r < 76:
        m = {'method': rng.choice(['workspace/diagnostic', 'textDocument/diagnostic', 'workspace/symbol', 'shutdown', '$/cancelRequest']),
             'params': {'query': ''}}
    elif r < 80:
        g = rng.choice(FILES)
        fl = [] if rng.below(5) == 0 else [{'oldUri': u, 'newUri': uri(g)}]
        m = {'method': 'workspace/didRenameFiles', 'params': {'files': fl}}
        if fl:
            facts.add('files_nonempty')
            if f.endswith('.rego') and g.endswith('.rego') and rng.below(2) == 0:
                m.update(fs='write', fs_path=g, fs_text=rng.choice(DOCS))
    elif r < 84:
        fl = [] if rng.below(5) == 0 else [{'uri': u}] + ([{'uri': uri(rng.choice(FILES))}] if rng.below(3) == 0 else [])
        m = {'method': 'workspace/didDeleteFiles', 'params': {'files': fl}}
        if fl:
            facts.add('files_nonempty')
            m.update(fs='remove', fs_path=f)
    elif r < 88:
        fl = [] if rng.below(5) == 0 else [{'uri': u}]
        m = {'method': 'workspace/didCreateFiles', 'params': {'files': fl}}
        if fl:
            facts.add('files_nonempty')
            if rng.below(6) != 0:
                m.update(fs='write', fs_path=f, fs_text=rng.choice(DOCS))
    elif r < 93:
        k = rng.below(6)
        cmd = rng.choice(['regal.fix.opa-fmt', 'regal.fix.use-rego-v1', 'regal.fix.use-assignment-operator',
                          'regal.fix.no-whitespace-comment', 'regal.fix.non-raw-regex-pattern',
                          'regal.fix.directory-package-mismatch', 'regal.eval', 'regal.debug', 'regal.unknown'])
        arg = {'target': u, 'path': 'data.a.x', 'row': 1}
        if rng.below(2) == 0:
            arg['diagnostic'] = diag(rng)
        args = [] if k == 0 else [json.dumps(arg), 'x'] if k == 1 else [42] if k == 2 else ['{not json'] if k == 3 else [json.dumps(arg)]
        m = {'method': 'workspace/executeCommand', 'params': {'command': cmd, 'arguments': args}}
    elif r < 97:
        c = rng.choice(CONFIGS)
        m = {'fs': 'write', 'fs_path': '.regal/config.yaml', 'fs_text': c, 'watch': 'reload'}
    elif r < 99:
        m = {'fs': 'remove', 'fs_path': '.regal/config.yaml', 'watch': 'drop'}
    else:
        m = {'method': 'regal/unknownMethod', 'params': {}}
    if m.get('method') in NOTIFICATIONS:
        m['notify'] = True
    if rng.below(6) == 0:
        m['sleep_ms'] = rng.choice([1, 5, 20, 60, 150])
    m['facts'] = sorted(facts)
    return m


def gen_sequence(rng, sid, maxlen):
    client = rng.choice(CLIENTS)
    st = {'client': client}
    init = {}
    for f in ['a.rego', 'b.rego', 'c.rego', 'sub/x.rego']:
        if rng.below(3) != 0:
            init[f] = rng.choice(DOCS)
    if rng.below(3) == 0:
        init['.regal/config.yaml'] = rng.choice(CONFIGS[:3])
    opts = None
    if rng.below(3) == 0:
        opts = {}
        if rng.below(2) == 0:
            opts['formatter'] = rng.choice(['opa-fmt', 'opa-fmt-rego-v1', 'regal-fix', 'nonsense'])
        if rng.below(2) == 0:
            opts['enableDebugCodelens'] = rng.below(2) == 0
        if rng.below(2) == 0:
            opts['evalCodelensDisplayInline'] = rng.below(2) == 0
    ip = {'rootUri': '${ROOT}', 'clientInfo': {'name': client}}
    if opts is not None:
        ip['initializationOptions'] = opts
    msgs = [{'method': 'initialize', 'params': ip, 'facts': (['init_opts'] if opts is not None else [])},
            {'method': 'initialized', 'params': {}, 'notify': True, 'facts': []}]
    n = 1 + rng.below(maxlen)
    for _ in range(n):
        msgs.append(gen_message(rng, st))
    return {'id': sid, 'init': init, 'no_initialize': True, 'msgs': msgs, 'client': client}


# ---- feature requests on a document whose parse results are STALE -------------------------------------------------
# textDocument/didChange replaces the contents in the cache synchronously; module, parse errors, line count, builtin
# positions are replaced later by the file-lint and hover workers.  A request handled in between sees new contents
# with the parse results of the previous contents.  Every feature request is sent in that window, for every kind of
# transition of the document (shrinks / is emptied / breaks / is repaired / grows), in both directions.  The window is
# held open by changes of other, large documents queued just before (the workers process their jobs in order).
def big_doc(tag, n):
    return 'package big%s\n\nimport rego.v1\n\n' % tag + ''.join(
        'rule_%d if {\n\tsome x in input.xs\n\tcount(x) > %d\n\tstartswith(x, "a%d")\n}\n\n' % (i, i, i) for i in range(n))


STALE_VALID_LONG = ('# METADATA\n# title: d\npackage d\n\nimport rego.v1\n\nimport data.a\nimport data.b\nimport data.c\n\n'
                    '# comment one\n# comment two\nallow if {\n\tsome x in input.xs\n\tcount(x) > 1\n}\n\n'
                    'deny contains msg if {\n\tnot allow\n\tmsg := sprintf("%v", [concat(",", input.ys)])\n}\n\n'
                    'f(x) := y if {\n\ty := regex.match("a.*", x)\n}\n')
STALE_DOCS = {
    'valid_long': STALE_VALID_LONG,
    'broken_low': STALE_VALID_LONG + '\nlast := := 1\n',                    # parse error far below the first line
    'broken_mid': STALE_VALID_LONG.replace('deny contains msg if {', 'deny contains msg if {{', 1),
    'valid_short': 'package d\n\nx := 1\n',
    'broken_short': 'package d\n\nx := := 1\n',
    'one_line': 'package d',
    'empty': '',
    # unbalanced brackets of every kind (token-level helpers such as the folding ranges keep a stack per bracket kind): seed C17-5
    'broken_closers': 'package d\n\nx := count([1]))\n\ny := [1]]\n\nz := {1}}\n',
    'broken_openers': 'package d\n\nx := count(([[{{1\n\ny := 2\n',
}
STALE_TRANSITIONS = [('broken_low', 'valid_short'), ('broken_low', 'empty'), ('broken_low', 'broken_short'),
                     ('broken_mid', 'one_line'), ('valid_long', 'broken_low'), ('valid_long', 'empty'),
                     ('valid_long', 'valid_short'), ('valid_long', 'broken_mid'), ('valid_short', 'broken_short'),
                     ('valid_short', 'broken_closers'), ('valid_long', 'broken_openers')]
STALE_FEATURES = ['textDocument/inlayHint', 'textDocument/hover', 'textDocument/foldingRange', 'textDocument/documentSymbol',
                  'textDocument/codeLens', 'textDocument/completion', 'textDocument/codeAction', 'textDocument/formatting',
                  'textDocument/definition']


def feature_request(rng, method, u, nlines):
    td = {'textDocument': {'uri': u}}
    p = {'line': rng.below(max(nlines, 1) + 2), 'character': rng.below(12)}
    whole = {'start': {'line': 0, 'character': 0}, 'end': {'line': nlines + 5, 'character': 0}}
    if method in ('textDocument/hover', 'textDocument/definition'):
        prm = dict(td, position=p)
    elif method == 'textDocument/completion':
        prm = dict(td, position=p, context={'triggerKind': 1})
    elif method == 'textDocument/inlayHint':
        prm = dict(td, range=whole)
    elif method == 'textDocument/codeAction':
        prm = dict(td, range=whole, context={'diagnostics': []})
    elif method == 'textDocument/formatting':
        prm = dict(td, options={'tabSize': 4, 'insertSpaces': False})
    else:
        prm = td
    return {'method': method, 'params': prm, 'facts': []}


def stale_sequences(rng, quick, nbig=None, size=None):
    seqs = []
    nbig = nbig or (1 if quick else 3)
    size = size or (30 if quick else 200)
    for a, b in STALE_TRANSITIONS:
        u = uri('d.rego')
        init = {'d.rego': STALE_DOCS[a], 'a.rego': DOCS[0], 'b.rego': DOCS[1]}
        for k in range(nbig):
            init['big%d.rego' % k] = big_doc(str(k), 3)
        msgs = [{'method': 'initialize', 'params': {'rootUri': '${ROOT}', 'clientInfo': {'name': 'verif'}}, 'facts': []},
                {'method': 'initialized', 'params': {}, 'notify': True, 'facts': []},
                {'method': 'textDocument/didOpen', 'notify': True, 'facts': [],
                 'params': {'textDocument': {'uri': u, 'text': STALE_DOCS[a], 'languageId': 'rego', 'version': 1}}}]
        version = 2
        for rnd, (frm, to) in enumerate([(a, b), (b, a)]):
            feats = rng.shuffle(STALE_FEATURES)
            first = True
            for k in range(nbig):
                m = {'method': 'textDocument/didChange', 'notify': True, 'facts': ['changes_nonempty'],
                     'params': {'textDocument': {'uri': uri('big%d.rego' % k), 'version': version},
                                'contentChanges': [{'text': big_doc('%d_%d' % (k, rnd), size)}]}}
                if first:
                    m['wait'] = 'workers'        # the parse results of `frm` are in the cache
                    first = False
                msgs.append(m)
            version += 1
            msgs.append({'method': 'textDocument/didChange', 'notify': True, 'facts': ['changes_nonempty'],
                         'params': {'textDocument': {'uri': u, 'version': version}, 'contentChanges': [{'text': STALE_DOCS[to]}]}})
            nl = STALE_DOCS[frm].count('\n')
            for f in feats:
                msgs.append(feature_request(rng, f, u, nl))
        seqs.append({'id': 0, 'init': init, 'no_initialize': True, 'msgs': msgs, 'client': 'verif', 'tag': 'stale:%s->%s' % (a, b)})
    return seqs


def corpus_seqs():
    d = os.path.join(vlib.VERIF, 'corpus', 'C17')
    out = []
    if os.path.isdir(d):
        for f in sorted(os.listdir(d)):
            if f.endswith('.json'):
                j = json.load(open(os.path.join(d, f)))
                j['tag'] = 'corpus:' + f[:-5]
                out.append(j)
    return out


def strip(seq):
    return {'id': seq['id'], 'init': seq['init'], 'no_initialize': seq.get('no_initialize', False),
            'msgs': [{k: v for k, v in m.items() if k != 'facts'} for m in seq['msgs']]}


PANIC_RE = re.compile(r'^(panic: .*|fatal error: .*)$', re.M)


def crash_signature(log):
    m = PANIC_RE.search(log)
    if not m:
        return None
    what = re.sub(r'0x[0-9a-f]+', '0x?', m.group(1))
    what = re.sub(r'\[signal .*', '', what).strip()
    frames = re.findall(r'^(github\.com/styrainc/regal/[^\s(]+(?:\([^)]*\))?[^\s(]*)\(', log[m.start():], re.M)
    frames = [f for f in frames if 'zz_verif' not in f]
    top = frames[0] if frames else '?'
    top = re.sub(r'^github\.com/styrainc/regal/', '', top)
    return {'kind': 'panic', 'key': '%s: %s' % (top, what)}


ROLE_RE = re.compile(r'\(\*LanguageServer\)\.(Start\w+Worker|Handle)\b|\b(vRunSeq|vRunHistory|TestVerif\w+)\b')


def race_signatures(log):
    """one (signature, report) per race report.  The signature names, for each of the two accesses, which server
    goroutine(s) it ran under (worker loops / request handler, taken from the access stack and the creation stack of
    its goroutine) and the function that owns the racing memory access - stable across the many call paths that lead
    to the same unsynchronised sharing."""
    out = []
    for blk in log.split('WARNING: DATA RACE')[1:]:
        blk = blk.split('==================')[0]
        # sections: two accesses, then "Goroutine N (...) created at:" blocks
        parts = re.split(r'^(?=(?:Write|Read|Previous write|Previous read|Atomic write|Previous atomic write|Atomic read|'
                         r'Previous atomic read) at |Goroutine \d+ )', blk, flags=re.M)
        accesses, created = [], {}
        for part in parts:
            m = re.match(r'(Write|Read|Previous write|Previous read|Atomic write|Previous atomic write|Atomic read|'
                         r'Previous atomic read) at \S+ by (?:goroutine (\d+)|main goroutine)', part)
            if m:
                accesses.append((m.group(2) or 'main', part))
                continue
            m = re.match(r'Goroutine (\d+) ', part)
            if m:
                created[m.group(1)] = part
        sides = []
        for gid, part in accesses[:2]:
            text = part + created.get(gid, '')
            roles = sorted({(a or b) for a, b in ROLE_RE.findall(text)} - {'vRunSeq', 'vRunHistory'} or {'?'})
            roles = [r for r in roles if not r.startswith('TestVerif')] or ['harness']
            frames = re.findall(r'^\s+([\w./\-]+(?:\.\(\*?\w+\))?\.[\w.\-]+)\(\)', part, re.M)
            owner = next((f for f in frames if not f.startswith(('sync', 'runtime', 'internal/'))), frames[0] if frames else '?')
            owner = re.sub(r'^github\.com/', '', owner)
            owner = re.sub(r'@v[0-9.]+', '', owner)
            owner = re.sub(r'\.(?:\(\*?\w+\)\.)?[\w\-]+(?:\.func\d+)*$', '', owner)       # package only
            sides.append('%s in %s' % ('+'.join(roles), owner))
        out.append(({'kind': 'data-race', 'key': ' <-> '.join(sorted(sides))}, blk[:12000]))
    return out


def run_batch(ctx, binary, seqs, name, race=False, timeout=3000, env=None):
    inp = os.path.join(ctx.tmp, name + '_in.json')
    outp = os.path.join(ctx.tmp, name + '_out.jsonl')
    json.dump([strip(s) for s in seqs], open(inp, 'w'))
    if os.path.exists(outp):
        os.remove(outp)
    rc, log = c15.run_binary(ctx, binary, 'TestVerifC17Replay', inp, outp, timeout=timeout, extra_env=env)
    results, started, lastmsg = {}, set(), {}
    if os.path.exists(outp):
        for l in open(outp):
            try:
                o = json.loads(l)
            except ValueError:
                continue
            if 'start' in o and len(o) == 1:
                started.add(o['start'])
            elif 'seq' in o and 'msg' in o and len(o) == 2:
                lastmsg[o['seq']] = o['msg']
            elif 'msgs' in o:
                results[o['id']] = o
    inflight = sorted(started - set(results))
    crashed = bool(PANIC_RE.search(log)) or (rc != 0 and not results and 'DATA RACE' not in log)
    return {'rc': rc, 'log': log, 'results': results, 'inflight': inflight, 'lastmsg': lastmsg, 'crashed': crashed}


def replay_alone(ctx, binary, seq, name, tries=2, env=None):
    for t in range(tries):
        b = run_batch(ctx, binary, [seq], '%s_t%d' % (name, t), env=env)
        if b['crashed']:
            return b
    return None


def shrink_crash(ctx, binary, seq, sig, env=None):
    """remove chunks of messages (never the initialize pair) while the same crash signature is reproduced"""
    head, body = seq['msgs'][:2], seq['msgs'][2:]
    budget = 40
    n = 2
    while len(body) >= 1 and budget > 0:
        size = max(1, len(body) // n)
        removed = False
        for i in range(0, len(body), size):
            cand = body[:i] + body[i + size:]
            if budget <= 0:
                break
            budget -= 1
            b = replay_alone(ctx, binary, dict(seq, msgs=head + cand), 'shrink%d' % budget, tries=1, env=env)
            if b and crash_signature(b['log']) == sig:
                body = cand
                n = max(n - 1, 2)
                removed = True
                break
        if not removed:
            if size == 1:
                break
            n = min(n * 2, len(body))
    return dict(seq, msgs=head + body)


def ccase(c):
    return '{| k_unit := %d%%nat; k_facts := %s; k_crashed := %s |}' % (
        c['unit'], clist('%d%%nat' % FACTS.index(f) for f in c['facts']), cbool(c['crashed']))


def cases_of(seq, res, crashed_at=None):
    """one case per message that maps to a modelled unit"""
    out = []
    outs = (res or {}).get('outcomes') or []
    for i, m in enumerate(seq['msgs']):
        name = m.get('method') or ('watch:' + m['watch'] if m.get('watch') else None)
        if name not in UNITS:
            continue
        if i < len(outs):
            facts = set(m.get('facts', []))
            if not outs[i].get('cfg_nil', False):
                facts.add('cfg_loaded')
            out.append({'unit': UNITS.index(name), 'facts': sorted(facts), 'crashed': False, 'method': name})
        elif crashed_at is not None and i == crashed_at:
            facts = set(m.get('facts', []))
            out.append({'unit': UNITS.index(name), 'facts': sorted(facts), 'crashed': True, 'method': name, 'cfg_unknown': True})
    return out


def run(ctx):
    quick = ctx.quick()
    race = not quick
    binary = c15.build_test_binary(ctx, race=race)
    env = {'GORACE': 'halt_on_error=0'} if race else None
    rng = ctx.rng
    # the cache is the state shared by the handler and the lint workers: cache-level histories (value semantics of what
    # is handed in / out, concurrent operations, under the race detector in the thorough tier), beside the sequences
    cache = c15.CacheCheck(ctx, race=race).start()
    if ctx.replay:
        rp = json.load(open(ctx.replay))
        seqs = [dict(rp['case'], id=0)] if 'case' in rp else []
        batches = [seqs] if seqs else []
    else:
        seqs = corpus_seqs()
        n = 64 if quick else 240
        for _ in range(n):
            maxlen = 30 if rng.below(3) != 0 else 8
            seqs.append(gen_sequence(rng, 0, maxlen))
        stale = stale_sequences(rng, quick)
        bs = 20 if quick else 24
        nb = max(1, (len(seqs) + bs - 1) // bs)
        batches = [seqs[i:i + bs] for i in range(0, len(seqs), bs)]
        for i, s in enumerate(stale):         # spread over the batches (the sequences of a batch run in parallel)
            batches[i % nb].append(s)
        seqs += stale
        for i, s in enumerate(seqs):
            s['id'] = i
    by_id = {s['id']: s for s in seqs}
    all_cases, n_msgs, classes, methods = [], 0, {}, {}
    crashes, races, errors = [], {}, []
    n_ok = 0
    for bi, batch in enumerate(batches):
        b = run_batch(ctx, binary, batch, 'batch%d' % bi, race=race, env=env)
        for sid, r in b['results'].items():
            seq = by_id[sid]
            if r.get('error'):
                errors.append((seq, r))
            else:
                n_ok += 1
            cs = cases_of(seq, r)
            all_cases += cs
            for o in r.get('outcomes') or []:
                classes[o['class']] = classes.get(o['class'], 0) + 1
            for m in seq['msgs']:
                k = m.get('method') or 'watch:' + str(m.get('watch'))
                methods[k] = methods.get(k, 0) + 1
                n_msgs += 1
        for sig, blk in race_signatures(b['log']):
            races.setdefault(json.dumps(sig, sort_keys=True), (sig, blk, [s['id'] for s in batch]))
        if b['crashed']:
            crashes.append((batch, b))
        elif b['rc'] != 0 and 'DATA RACE' not in b['log'] and not b['results']:
            raise RuntimeError('C17 harness batch failed:\n' + b['log'][-3000:])

    # ---- crashes: attribute, shrink, report
    for batch, b in crashes[:2]:
        sig0 = crash_signature(b['log'])
        found = None
        for sid in b['inflight']:
            rb = replay_alone(ctx, binary, by_id[sid], 'attr%d' % sid, env=env)
            if rb:
                found = (by_id[sid], rb)
                break
        if found:
            seq, rb = found
            sig = crash_signature(rb['log']) or sig0
            small = seq if ctx.replay else shrink_crash(ctx, binary, seq, sig, env=env)
            last = rb['lastmsg'].get(seq['id'])
            all_cases += cases_of(seq, None, crashed_at=last)
            vlib.violation(ctx, {'kind': 'panic', 'case': strip(small), 'what': sig['key'] if sig else 'crash',
                                 'panic': (PANIC_RE.search(rb['log']) or [None])[0] if PANIC_RE.search(rb['log']) else None,
                                 'stack_head': rb['log'][rb['log'].find('panic:'):][:2500], 'original_length': len(seq['msgs'])},
                           signature=sig)
        else:
            vlib.violation(ctx, {'kind': 'panic-not-reproduced-alone', 'what': (sig0 or {}).get('key'),
                                 'batch': [strip(s) for s in batch if s['id'] in b['inflight']][:4],
                                 'log_tail': b['log'][-3000:]}, signature=sig0)
    for seq, r in errors[:2]:
        vlib.violation(ctx, {'kind': 'no-response-or-not-idle', 'case': strip(seq), 'error': r['error'], 'log_tail': r.get('log_tail')},
                       signature={'kind': 'no-response-or-not-idle', 'key': r['error'].split(':')[0]})
    for key, (sig, blk, ids) in sorted(races.items())[:3]:
        vlib.violation(ctx, {'kind': 'data-race', 'what': sig['key'], 'report': blk, 'batch_sequence_ids': ids,
                             'case': strip(by_id[ids[0]])}, signature=sig)

    # ---- correspondence with the guard skeletons
    r1 = []
    if all_cases:
        v = ['From Regal Require Import Check.C17Check.',
             'Definition cases : list c17_case := %s.' % clist(ccase(c) for c in all_cases),
             'Definition R1 := Eval vm_compute in failing (agrees_guards Current) 0 cases.', 'Print R1.']
        rc, out = vlib.coq_eval(ctx, 'Cases_C17', '\n'.join(v))
        if rc != 0:
            raise RuntimeError('C17 case evaluation failed:\n' + out[-3000:])
        r1 = vlib.parse_nat_list(out, 'R1') or []
    cache_ev = cache.finish() or {}
    if r1 and not ctx.violations:
        c = all_cases[r1[0]]
        vlib.violation(ctx, {'kind': 'correspondence', 'relation': 'Check.C17Check.agrees_guards Current (Model/LspGuards.v)',
                             'case': c, 'n_mismatches': len(r1)}, no_input=True)
    proof_gate(ctx)

    lens = {}
    for s in seqs:
        b = min(len(s['msgs']) // 5 * 5, 30)
        lens[b] = lens.get(b, 0) + 1
    distinct = len({json.dumps([c['unit'], c['facts']]) for c in all_cases})
    cov = proof_coverage(ctx, {
        'explanation': 'guard skeletons and the channel network are proved on the model; panics inside callee packages, data races and '
                       'liveness of the real goroutines are only exercised by generated message sequences',
        'evaluations': len(all_cases),
        'distinct_nontrivial': distinct,
        'rule': 'a case is one delivered message (or injected config-watcher event) of a modelled method; distinct = distinct '
                '(method, guard facts) pairs compared with the skeletons',
        'sequences': len(seqs), 'stale_parse_state_sequences': sum(1 for s in seqs if str(s.get('tag', '')).startswith('stale:')),
        'sequences_completed_idle': n_ok, 'messages': n_msgs, 'batches': len(batches),
        'sequences_by_length_bucket': lens, 'messages_by_method': methods, 'answers_by_class': classes,
        'crashing_batches': len(crashes), 'sequences_with_timeout_or_not_idle': len(errors), 'distinct_race_reports': len(races),
        'mismatch_guard_model': len(r1),
        'race_detector': race,
        'race_detector_note': 'thorough tier builds the test binary with -race; the quick tier does not (build + run are several times slower)',
        'samples': [{'client': s.get('client'), 'methods': [m.get('method') or m.get('watch') for m in s['msgs']][:12]} for s in seqs[:3]],
        'exhaustive': False,
        **cache_ev,
    })
    return vlib.finish(ctx, 'other', cov, [
        'the fsnotify layer of the config watcher is replaced by the harness (events injected into configWatcher.Reload/Drop)',
        'the web server worker is not started; `exit` is not sent (it closes the connection)',
        'a request counts as answered when a result or a JSON-RPC error arrives within 600 s (1200 s under -race)',
        'idle = handler barrier, every worker drained by sentinel jobs, no job in progress and no log line for 2 s',
        'facts about cache state and fixer results are not observed: the skeleton comparison tries both values',
        'shared cache: values handed in / out are checked never to be written through on sampled sequential histories; concurrent cache '
        'histories are sampled (race detector in the thorough tier only); cache_values_never_written_through ties the access shape to the source',
    ])
