"""C10: exit code and every output format faithfully reflect the report.

Reporter level: generated reports through every real reporter (harness/cmd/c10), output parsed by
independent parsers into the abstract documents of Model/Reporters.v, compared inside Coq with the
model; the predicate "every violation exactly once with file, position, rule, level" is computed by
the harness (Go) and once more by Coq on the observed documents.
Command level: the real binary on small workspaces x fail levels x formats; exit status compared
with Model/Exit.v, stdout parsed by the same parsers and compared with the model documents of the
report the same workspace publishes as JSON."""
import binascii, concurrent.futures, json, os, re, shutil, subprocess
import vlib
from vlib import clist, cbool
from common import proof_gate, proof_coverage

FORMATS = ['pretty', 'festive', 'compact', 'json', 'github', 'sarif', 'junit']
CODE_FMT = {i: f for i, f in enumerate(FORMATS)}


# ------------------------------------------------------------------ JSON (harness) -> Coq terms

def S(h):
    return '(unhex "%s")' % h


def N(n):
    return '%d' % n


def opt(x, f):
    return 'None' if x is None else '(Some %s)' % f(x)


def lst(xs, f):
    return '[' + '; '.join(f(x) for x in xs) + ']'


def jval(j):
    t = j['t']
    if t == 'null':
        return 'JNull'
    if t == 'bool':
        return '(JBool %s)' % cbool(j.get('b', False))
    if t == 'num':
        return '(JNum %d)' % j.get('n', 0)
    if t == 'str':
        return '(JStr %s)' % S(j.get('s', ''))
    if t == 'arr':
        return '(JArr %s)' % lst(j.get('l') or [], jval)
    if t == 'obj':
        return '(JObj %s)' % lst(j.get('f') or [], lambda f: '(%s, %s)' % (S(f['k']), jval(f['v'])))
    raise ValueError(t)


def c_location(l):
    return '(Build_location %s %s %s %s %s %s)' % (
        opt(l['end'], lambda e: '(Build_position %d %d)' % (e[0], e[1])), opt(l['text'], S), S(l['file']),
        N(l['col']), N(l['row']), N(l['offset']))


def c_violation(v):
    return '(Build_violation %s %s %s %s %s %s %s)' % (
        S(v['title']), S(v['desc']), S(v['cat']), S(v['level']),
        lst(v['related'] or [], lambda r: '(Build_related %s %s)' % (S(r['desc']), S(r['ref']))),
        c_location(v['loc']), cbool(v['isagg']))


def c_notice(n):
    return '(Build_notice %s %s %s %s %s)' % (S(n['title']), S(n['desc']), S(n['cat']), S(n['level']), S(n['sev']))


def c_report(r):
    return '(Build_report %s %s %s %s %s %s %s (Build_summary %d %d %d %d))' % (
        opt(r.get('aggregates_j'), jval), opt(r.get('metrics_j'), jval),
        '(Some JNull)' if r.get('aggprofile') else 'None', opt(r.get('ignore_j'), jval),
        lst(r['violations'] or [], c_violation), lst(r['notices'] or [], c_notice), opt(r.get('profile_j'), jval),
        *r['summary'])


def is_err(d):
    return d is None or (isinstance(d, dict) and 'error' in d)


def c_pretty(d):
    def entry(e):
        if e.get('level') is not None:
            lv = '(LevelRow %s)' % S(e['level'])
        elif e.get('yellow') is not None:
            lv = '(DescColour %s)' % cbool(e['yellow'])
        else:
            lv = '(LevelRow (unhex "3f3f"))'   # neither a Level row nor a colour: never equal to the model
        return '(Build_pretty_entry %s %s %s %s %s %s %s)' % (
            S(e['rule']), lv, S(e['desc']), S(e['cat']), S(e['loc']), opt(e.get('text'), S), S(e['doc']))
    return '(Build_pretty_doc %s %s)' % (lst(d['entries'] or [], entry), S(d['footer']))


def c_compact(d):
    if d.get('empty'):
        return 'CompactEmpty'
    return '(CompactTable %s %s)' % (lst(d['rows'] or [], lambda r: '(%s, %s)' % (S(r[0]), S(r[1]))), S(d['summary']))


def c_github(d):
    return '(Build_github_doc %s %s)' % (c_pretty(d['pretty']), lst(d['anns'] or [], lambda a: '(Build_gh_annotation %s %s %d %d %s)' % (
        S(a['level']), S(a['file']), a['row'], a['col'], S(a['msg']))))


def c_sarif(d):
    def region(g):
        return '(Build_sarif_region %d %d %s)' % (g['row'], g['col'], opt(g.get('end'), lambda e: '(%d, %d)' % (e[0], e[1])))

    def result(x):
        loc = 'None'
        if x['hasloc']:
            loc = '(Some (%s, %s))' % (S(x['uri']), opt(x.get('region'), region))
        return '(Build_sarif_result %s %s %s %s %s %s)' % (
            S(x['rule']), opt(x.get('index'), N), opt(x.get('kind'), S), S(x['level']), S(x['msg']), loc)
    return '(Build_sarif_doc %s %s %s)' % (
        lst(d['rules'] or [], lambda r: '(Build_sarif_rule %s %s %s %s)' % (S(r['id']), S(r['desc']), opt(r.get('help'), S), S(r['cat']))),
        lst(d['artifacts'] or [], S), lst(d['results'] or [], result))


def c_junit(d):
    def case(c):
        return '(Build_junit_case %s %s %s %s %s %s)' % (S(c['name']), S(c['class']), S(c['msg']), S(c['type']), S(c['data']), S(c['rule']))
    return '(Build_junit_doc %d %d %s)' % (d['tests'], d['failures'], lst(d['suites'] or [], lambda s: '(Build_junit_suite %s %d %d %s)' % (
        S(s['name']), s['tests'], s['failures'], lst(s['cases'] or [], case))))


DOC_CONV = {'pretty': c_pretty, 'festive': c_pretty, 'compact': c_compact, 'json': lambda d: jval(d['jval']),
            'github': c_github, 'sarif': c_sarif, 'junit': c_junit}


def c_case(c):
    docs = c['docs']
    parts = [cbool(c['nocolor']), c_report(c['report'])]
    for f in FORMATS:
        d = docs.get(f)
        parts.append('None' if is_err(d) else '(Some %s)' % DOC_CONV[f](d))
    return '(Build_case %s)' % ' '.join(parts)


def code_format(code):
    if code == 7:
        return 'json'
    return FORMATS[code - 10] if code >= 10 else FORMATS[code]


def unhex(h):
    return binascii.unhexlify(h).decode('utf-8', 'replace')


# ------------------------------------------------------------------ evaluation of reporter cases

def eval_cases(ctx, cases, tag):
    """returns {case index: set(codes)} for model mismatches and spec failures"""
    model, spec = {}, {}
    chunk = 60
    for k in range(0, len(cases), chunk):
        part = cases[k:k + chunk]
        v = ['From Coq Require Import String.', 'From Regal Require Import Check.C10Check.', 'Open Scope N_scope.',
             'Definition cases : list case := ' + lst(part, c_case) + '.',
             'Definition R1 := Eval vm_compute in failing_codes model_mismatches 0 cases.',
             'Definition R2 := Eval vm_compute in failing_codes spec_failures 0 cases.',
             'Print R1. Print R2.']
        rc, out = vlib.coq_eval(ctx, 'Cases_C10_%s_%d' % (tag, k), '\n'.join(v))
        if rc != 0:
            raise RuntimeError('case evaluation failed:\n' + out[-3000:])
        for name, dst in (('R1', model), ('R2', spec)):
            xs = vlib.parse_nat_list(out, name)
            if xs is None:
                raise RuntimeError('no %s in coq output:\n%s' % (name, out[-2000:]))
            for x in xs:
                dst.setdefault(k + x // 32, set()).add(x % 32)
    return model, spec


def run_harness(ctx, h, args):
    rc, log = vlib.run([h] + args, env=dict(os.environ, VERIF_SEED=str(ctx.seed)), timeout=1200)
    if rc != 0:
        raise RuntimeError('c10 harness failed: ' + log[-3000:])


def shrink_case(ctx, h, case, fmt, still_fails):
    """delta-debugging on the violation list (then notices) of a failing reporter case"""
    best = case
    n = 0

    def attempt(cand):
        nonlocal n
        n += 1
        p = os.path.join(ctx.tmp, 'shrink_in.json')
        o = os.path.join(ctx.tmp, 'shrink_out.jsonl')
        json.dump(cand, open(p, 'w'))
        run_harness(ctx, h, ['replay', p, o])
        res = json.loads(open(o).readline())
        return res if still_fails(res) else None
    changed = True
    while changed and n < 60:
        changed = False
        vs = best['report']['violations']
        for i in range(len(vs)):
            cand = json.loads(json.dumps(best))
            del cand['report']['violations'][i]
            cand['report']['summary'][3] = len(cand['report']['violations'])
            res = attempt(cand)
            if res is not None:
                best, changed = res, True
                break
    if best['report']['notices']:
        cand = json.loads(json.dumps(best))
        cand['report']['notices'] = []
        cand['report']['summary'][2] = 0
        res = attempt(cand)
        if res is not None:
            best = res
    return best


def finding_kind(detail):
    if 'illegal character code' in detail:
        return 'junit-illegal-xml-character'
    if 'not valid UTF-8' in detail:
        return 'pretty-cut-splits-rune'
    if 'presented' in detail and 'instead of' in detail:
        return 'presented-n-times'
    if 'appears more than once' in detail:
        return 'duplicate-suite'
    if 'missing:' in detail:
        return 'missing-violation'
    return 'other'


# ------------------------------------------------------------------ the real binary

CLEAN = 'package p\n\nallow := true\n'
TWO_ASSIGN = 'package p\n\nallow = true\n\ndeny = false\n'
ONE_ASSIGN = 'package q\n\nallow = true\n'
TODO = 'package r\n\n# TODO: later\nx := 1\n'
BROKEN = 'package p\n\nallow := {\n'
LONG = 'package s\n\n# TODO \x1b[31mfix\x1b[0m me\nx := "' + 'a' * 108 + '\u00e9' * 10 + '"\n'


def config(levels):
    out = 'rules:\n  default:\n    level: ignore\n'
    cats = {}
    for (cat, rule), lvl in levels.items():
        cats.setdefault(cat, []).append((rule, lvl))
    for cat, rules in cats.items():
        out += '  %s:\n' % cat
        for rule, lvl in rules:
            out += '    %s:\n      level: %s\n' % (rule, lvl)
    return out


UAO = ('style', 'use-assignment-operator')
TODOC = ('style', 'todo-comment')
LINELEN = ('style', 'line-length')

WORKSPACES = {
    'errors-only': ({'a.rego': TWO_ASSIGN, 'sub/b.rego': ONE_ASSIGN}, {UAO: 'error'}),
    'warnings-only': ({'a.rego': TWO_ASSIGN, 'sub/b.rego': ONE_ASSIGN}, {UAO: 'warning'}),
    'both': ({'a.rego': TWO_ASSIGN, 'r.rego': TODO}, {UAO: 'warning', TODOC: 'error'}),
    'one-warning': ({'r.rego': TODO, 'c.rego': CLEAN}, {TODOC: 'warning'}),
    'none': ({'c.rego': CLEAN}, {UAO: 'error', TODOC: 'warning'}),
    'parse-error': ({'a.rego': TWO_ASSIGN, 'x.rego': BROKEN}, {UAO: 'error'}),
    'specials': ({'s.rego': LONG, 'a.rego': TWO_ASSIGN}, {LINELEN: 'error', TODOC: 'warning', UAO: 'warning'}),
}


def make_workspace(root, name):
    files, levels = WORKSPACES[name]
    d = os.path.join(root, name)
    for rel, content in files.items():
        p = os.path.join(d, rel)
        os.makedirs(os.path.dirname(p), exist_ok=True)
        with open(p, 'wb') as f:
            f.write(content.encode('utf-8'))
    os.makedirs(os.path.join(d, '.regal'), exist_ok=True)
    with open(os.path.join(d, '.regal', 'config.yaml'), 'w') as f:
        f.write(config(levels))
    return d


def run_regal(regal, cwd, args):
    env = dict(os.environ, CI='1', NO_COLOR='1', REGAL_DISABLE_VERSION_CHECK='1')
    env.pop('GITHUB_STEP_SUMMARY', None)
    env.pop('RUNNER_DEBUG', None)
    p = subprocess.run([regal] + args, cwd=cwd, env=env, stdout=subprocess.PIPE, stderr=subprocess.PIPE, timeout=300)
    return p.returncode, p.stdout, p.stderr


def hexs(s):
    return binascii.hexlify(s.encode('utf-8')).decode()


def report_from_json(txt):
    """the report a run published with --format json, in the schema of the harness cases"""
    r = json.loads(txt)
    vs = []
    for v in r.get('violations') or []:
        l = v.get('location') or {}
        vs.append({'title': hexs(v.get('title', '')), 'desc': hexs(v.get('description', '')), 'cat': hexs(v.get('category', '')),
                   'level': hexs(v.get('level', '')),
                   'related': [{'desc': hexs(x.get('description', '')), 'ref': hexs(x.get('ref', ''))} for x in v.get('related_resources') or []],
                   'loc': {'end': [l['end'].get('row', 0), l['end'].get('col', 0)] if l.get('end') else None,
                           'text': hexs(l['text']) if 'text' in l else None, 'file': hexs(l.get('file', '')),
                           'col': l.get('col', 0), 'row': l.get('row', 0), 'offset': l.get('offset', 0)},
                   'isagg': False})
    ns = [{'title': hexs(n.get('title', '')), 'desc': hexs(n.get('description', '')), 'cat': hexs(n.get('category', '')),
           'level': hexs(n.get('level', '')), 'sev': hexs(n.get('severity', ''))} for n in r.get('notices') or []]
    s = r.get('summary') or {}
    return {'violations': vs, 'notices': ns,
            'summary': [s.get('files_scanned', 0), s.get('files_failed', 0), s.get('rules_skipped', 0), s.get('num_violations', 0)]}


def binary_runs(ctx, regal, h):
    root = os.path.join(ctx.tmp, 'ws')
    jobs = []
    for name in WORKSPACES:
        d = make_workspace(root, name)
        for fl in ('error', 'warning'):
            for f in FORMATS:
                jobs.append({'ws': name, 'dir': d, 'fail_level': fl, 'format': f,
                             'args': ['lint', '--format', f, '--fail-level', fl, '.']})
    # command lines outside the format x level grid
    d = make_workspace(root, 'errors-only')
    jobs.append({'ws': 'errors-only', 'dir': d, 'fail_level': 'error', 'format': 'nosuch', 'expect_failed': True,
                 'args': ['lint', '--format', 'nosuch', '.']})
    jobs.append({'ws': 'errors-only', 'dir': d, 'fail_level': 'error', 'format': 'pretty', 'expect_failed': True,
                 'args': ['lint', '--config-file', 'does-not-exist.yaml', '.']})
    jobs.append({'ws': 'errors-only', 'dir': d, 'fail_level': 'error', 'format': 'pretty', 'expect_failed': True,
                 'args': ['lint']})
    jobs.append({'ws': 'errors-only', 'dir': d, 'fail_level': 'error', 'format': 'pretty', 'default_level': True,
                 'args': ['lint', '.']})
    jobs.append({'ws': 'warnings-only', 'dir': os.path.join(root, 'warnings-only'), 'fail_level': 'error', 'format': 'pretty',
                 'default_level': True, 'args': ['lint', '.']})
    jobs.append({'ws': 'errors-only', 'dir': d, 'fail_level': 'nosuch', 'format': 'json',
                 'args': ['lint', '--format', 'json', '--fail-level', 'nosuch', '.']})

    def one(j):
        rc, out, err = run_regal(regal, j['dir'], j['args'])
        j['status'], j['stdout'], j['stderr'] = rc, out, err
        return j
    with concurrent.futures.ThreadPoolExecutor(max_workers=8) as ex:
        jobs = list(ex.map(one, jobs))
    # the report of a workspace = what its json run published (same for both fail levels)
    reports = {}
    for j in jobs:
        if j['format'] == 'json' and j['fail_level'] in ('error', 'warning'):
            txt = j['stdout'].decode('utf-8', 'replace')
            try:
                rep = report_from_json(txt) if txt.strip() else None
            except ValueError:
                rep = None
            reports.setdefault(j['ws'], []).append(rep)
    for j in jobs:
        reps = reports.get(j['ws']) or [None]
        j['report'] = None if (j.get('expect_failed') or any(r is None for r in reps)) else reps[0]
        j['reports_agree'] = all(r == reps[0] for r in reps)
    # parse every stdout of a successful run with the harness' parsers
    for i, j in enumerate(jobs):
        j['doc'] = None
        if j['report'] is not None and j['format'] in FORMATS:
            p = os.path.join(ctx.tmp, 'out_%d.txt' % i)
            with open(p, 'wb') as f:
                f.write(j['stdout'])
            rc, out = vlib.run([h, 'parse', j['format'], 'true', p], timeout=120)
            if rc != 0:
                raise RuntimeError('c10 parse failed: ' + out[-2000:])
            j['parsed'] = json.loads(out)
            j['doc'] = j['parsed']['doc']
    return jobs


def eval_binary(ctx, jobs):
    """exit status vs model and vs the property's wording; stdout documents vs model documents"""
    obs = []
    for j in jobs:
        res = 'LintFailed' if j['report'] is None else '(LintDone %s)' % c_report(j['report'])
        obs.append('(Build_exit_obs %s %s %d)' % (S(hexs(j['fail_level'])), res, j['status']))
    doc_cases, doc_idx = [], []
    for i, j in enumerate(jobs):
        if j['doc'] is not None:
            docs = {f: None for f in FORMATS}
            docs[j['format']] = j['doc']
            doc_cases.append({'nocolor': True, 'report': j['report'], 'docs': docs})
            doc_idx.append(i)
    v = ['From Coq Require Import String.', 'From Regal Require Import Check.C10Check.', 'Open Scope N_scope.',
         'Definition obs : list exit_obs := ' + clist(obs) + '.',
         'Definition E1 := Eval vm_compute in failing exit_agrees 0 obs.',
         'Definition E2 := Eval vm_compute in failing exit_meets_spec 0 obs.',
         'Definition cases : list case := ' + lst(doc_cases, c_case) + '.',
         'Definition R1 := Eval vm_compute in failing_codes model_mismatches 0 cases.',
         'Definition R2 := Eval vm_compute in failing_codes spec_failures 0 cases.',
         'Print E1. Print E2. Print R1. Print R2.']
    rc, out = vlib.coq_eval(ctx, 'Cases_C10_exit', '\n'.join(v))
    if rc != 0:
        raise RuntimeError('exit case evaluation failed:\n' + out[-3000:])
    e1 = vlib.parse_nat_list(out, 'E1')
    e2 = vlib.parse_nat_list(out, 'E2')
    model, spec = {}, {}
    for name, dst in (('R1', model), ('R2', spec)):
        for x in vlib.parse_nat_list(out, name):
            if code_format(x % 32) == jobs[doc_idx[x // 32]]['format']:     # only the format that run produced
                dst.setdefault(doc_idx[x // 32], set()).add(x % 32)
    return e1, e2, model, spec


def job_replay(j):
    return {'workspace': j['ws'], 'files': WORKSPACES[j['ws']][0], 'config': config(WORKSPACES[j['ws']][1]),
            'command': 'regal ' + ' '.join(j['args']), 'status': j['status'],
            'stdout_head': j['stdout'][:1500].decode('utf-8', 'replace'), 'stderr_head': j['stderr'][:600].decode('utf-8', 'replace')}


# ------------------------------------------------------------------ run

def run(ctx):
    h = vlib.build_harness(ctx, 'c10')
    regal = vlib.build_regal(ctx)
    corpus = os.path.join(vlib.VERIF, 'corpus', 'C10')
    out = os.path.join(ctx.tmp, 'c10.jsonl')
    if ctx.replay:
        rp = json.load(open(ctx.replay))
        if 'case' in rp:
            p = os.path.join(ctx.tmp, 'replay_case.json')
            json.dump(rp['case'], open(p, 'w'))
            run_harness(ctx, h, ['replay', p, out])
        else:
            open(out, 'w').close()
    else:
        run_harness(ctx, h, ['gen', out, ctx.tier, corpus])
    cases = [json.loads(l) for l in open(out)]

    # ---- reporter level -----------------------------------------------------------------
    model, spec = eval_cases(ctx, cases, 'rep') if cases else ({}, {})
    pred_fail = {}
    for i, c in enumerate(cases):
        for f in FORMATS:
            if not c['pred'][f]['ok']:
                pred_fail.setdefault(i, {})[f] = c['pred'][f]['detail']

    reported = set()
    # concrete failing inputs first: predicate computed by the harness on the real output
    for i in sorted(pred_fail):
        for f, detail in sorted(pred_fail[i].items()):
            kind = finding_kind(detail)
            fam = 'pretty' if f in ('festive', 'github') and kind in ('pretty-cut-splits-rune', 'missing-violation') else f
            if (fam, kind) in reported or len(ctx.violations) >= 4:
                continue
            reported.add((fam, kind))
            small = shrink_case(ctx, h, cases[i], f, lambda res, f=f, kind=kind: (not res['pred'][f]['ok']) and finding_kind(res['pred'][f]['detail']) == kind)
            vs = small['report']['violations']
            vlib.violation(ctx, {'kind': 'reporter-predicate', 'format': f, 'nocolor': small['nocolor'],
                                 'what': '%s reporter: %s' % (f, small['pred'][f]['detail']),
                                 'violations_in_report': len(vs), 'readable': small.get('q'),
                                 'case': {k: small[k] for k in ('gen', 'nocolor', 'report')},
                                 'document': small['docs'].get(f)},
                           signature={'kind': 'reporter-' + kind, 'key': fam})
    # the same predicate evaluated by Coq on the observed documents must agree with the harness
    for i in sorted(spec):
        for code in sorted(spec[i]):
            f = code_format(code)
            if f not in pred_fail.get(i, {}) and len(ctx.violations) < 4 and (f, 'coq-spec') not in reported:
                reported.add((f, 'coq-spec'))
                vlib.violation(ctx, {'kind': 'reporter-predicate-coq', 'format': f,
                                     'what': 'the document read back from the %s output does not present every violation exactly once '
                                             '(Check.C10Check.spec_failures), although the harness predicate accepted it' % f,
                                     'case': {k: cases[i][k] for k in ('gen', 'nocolor', 'report')}, 'readable': cases[i].get('q'),
                                     'document': cases[i]['docs'].get(f)})
    # model/implementation disagreement without a failing input
    mism_only = []
    for i in sorted(model):
        for code in sorted(model[i]):
            f = code_format(code)
            if f in pred_fail.get(i, {}):
                continue      # explained by the concrete failure above
            mism_only.append((i, code, f))
    if mism_only and not ctx.violations:
        i, code, f = mism_only[0]
        small = shrink_case(ctx, h, cases[i], f, lambda res: bool(eval_cases(ctx, [res], 'shr')[0]))
        vlib.violation(ctx, {'kind': 'correspondence', 'relation': 'Check.C10Check.model_mismatches code %d (%s vs Model/Reporters.v)' % (code, f),
                             'format': f, 'n_mismatching_cases': len({m[0] for m in mism_only}),
                             'case': {k: small[k] for k in ('gen', 'nocolor', 'report')}, 'readable': small.get('q'),
                             'document': small['docs'].get(f)}, no_input=True)

    # ---- the real binary ----------------------------------------------------------------
    jobs = [] if ctx.replay and 'case' in json.load(open(ctx.replay)) else binary_runs(ctx, regal, h)
    e1 = e2 = []
    bmodel = bspec = {}
    if jobs:
        e1, e2, bmodel, bspec = eval_binary(ctx, jobs)
        for i in e2[:2]:
            j = jobs[i]
            vlib.violation(ctx, dict(job_replay(j), kind='exit-code', fail_level=j['fail_level'],
                                     what='exit status %d does not follow from the published report and --fail-level %s'
                                          % (j['status'], j['fail_level'])),
                           signature={'kind': 'exit-code', 'key': '%s/%s/%s' % (j['ws'], j['fail_level'], j['format'])})
        for j in jobs:
            if not j['reports_agree'] and not ctx.violations:
                vlib.violation(ctx, dict(job_replay(j), kind='nondeterministic-report',
                                         what='two json runs on the same workspace published different reports'))
                break
        for j in jobs:
            if j.get('expect_failed') and j['status'] != 1 and len(ctx.violations) < 4:
                vlib.violation(ctx, dict(job_replay(j), kind='exit-code', what='a command line that cannot lint exited %d, not 1' % j['status']))
        for i in sorted(bspec):
            j = jobs[i]
            detail = (j.get('parsed') or {}).get('pred', {}).get('detail', '')
            if len(ctx.violations) < 4:
                vlib.violation(ctx, dict(job_replay(j), kind='binary-output-predicate',
                                         what='stdout of the %s run does not present every violation of the report exactly once' % j['format']),
                               signature={'kind': 'binary-output', 'key': '%s/%s' % (j['ws'], j['format'])})
        unparsable = [j for j in jobs if j['report'] is not None and j['format'] in FORMATS and is_err(j['doc'])]
        for j in unparsable[:2]:
            if len(ctx.violations) < 4:
                vlib.violation(ctx, dict(job_replay(j), kind='binary-output-unparsable',
                                         what='stdout of the %s run cannot be parsed: %s' % (j['format'], j['doc'].get('error'))),
                               signature={'kind': 'binary-output-unparsable', 'key': '%s/%s' % (j['ws'], j['format'])})
        if (e1 or bmodel) and not ctx.violations:
            i = e1[0] if e1 else sorted(bmodel)[0]
            j = jobs[i]
            vlib.violation(ctx, dict(job_replay(j), kind='correspondence',
                                     relation='Check.C10Check.exit_agrees (Model/Exit.v)' if e1 else 'Check.C10Check.model_mismatches on the binary stdout',
                                     fail_level=j['fail_level']), no_input=True)
    proof_gate(ctx)

    # ---- evidence -----------------------------------------------------------------------
    nviol = [len(c['report']['violations']) for c in cases]
    hist = {}
    for n in nviol:
        b = '0' if n == 0 else '1-5' if n <= 5 else '6-15' if n <= 15 else '16-40'
        hist[b] = hist.get(b, 0) + 1
    distinct = len({json.dumps([c['nocolor'], c['report']], sort_keys=True) for c in cases if c['report']['violations']})
    texts = {v['loc']['text'] for c in cases for v in c['report']['violations'] if v['loc']['text']}
    cut_cases = sum(1 for t in texts if len(t) // 2 > 117)
    cut_split = 0
    for t in texts:
        b = binascii.unhexlify(t)
        if len(b) > 117 and (b[117] & 0xC0) == 0x80:
            cut_split += 1
    exit_hist = {}
    for j in jobs:
        k = '%s/%s->%d' % (j['ws'], j['fail_level'], j['status'])
        exit_hist[k] = exit_hist.get(k, 0) + 1
    cov = proof_coverage(ctx, {
        'evaluations': len(cases) * len(FORMATS) + len(jobs),
        'distinct_nontrivial': distinct + len({(j['ws'], j['fail_level'], j['format']) for j in jobs}),
        'rule': 'reporter cases: distinct (colour mode, report) pairs with at least one violation, each through 7 reporters; '
                'binary runs: distinct (workspace, fail level, format/command line) triples',
        'reporter_cases': len(cases), 'violations_per_report_histogram': hist,
        'violations_total': sum(nviol), 'distinct_texts': len(texts), 'texts_longer_than_cut': cut_cases,
        'texts_where_byte_117_is_inside_a_rune': cut_split,
        'cases_with_notices': sum(1 for c in cases if c['report']['notices']),
        'cases_with_aggregate_violations': sum(1 for c in cases if any(v['isagg'] for v in c['report']['violations'])),
        'cases_with_payload_fields': sum(1 for c in cases if c['report'].get('metrics_j') or c['report'].get('aggregates_j')),
        'colour_mode_cases': sum(1 for c in cases if not c['nocolor']),
        'binary_runs': len(jobs), 'binary_exit_histogram': exit_hist,
        'mismatch_model_reporters': sum(len(v) for v in model.values()), 'predicate_failures_harness': sum(len(v) for v in pred_fail.values()),
        'predicate_failures_coq': sum(len(v) for v in spec.values()),
        'mismatch_model_exit': len(e1), 'exit_spec_failures': len(e2),
        'mismatch_model_binary_stdout': sum(len(v) for v in bmodel.values()),
        'samples': [c.get('q') for c in cases[9:12]] + [{'ws': j['ws'], 'cmd': ' '.join(j['args']), 'status': j['status']} for j in jobs[:3]],
        'exhaustive': False,
    })
    return vlib.finish(ctx, 'proof', cov, [
        'layout of the outputs (table padding, XML/JSON escaping and indentation, ANSI wrappers) is read back by the harness parsers '
        '(encoding/xml, encoding/json, line regexps): trusted glue, not modelled',
        'tablewriter pads cells and re-flows the compact description: values are compared modulo trailing spaces, compact descriptions '
        'modulo runs of spaces; cells containing a newline are outside the modelled domain',
        'report ints are non-negative (N); free-form payloads (aggregates, metrics, ignore_directives, profile) are opaque JSON values',
        'jsoniter/encoding-json byte-level escaping, go-sarif and go-junit-report serialisation are validated by this correspondence only',
        'cobra flag parsing and linter.Lint are oracles of Model/Exit.v (lint_result); GITHUB_STEP_SUMMARY output and the regal_standalone hint are not modelled',
    ])
