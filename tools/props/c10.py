"""C10: exit code and every output format faithfully reflect the report.

Reporter level: generated reports through every real reporter (harness/cmd/c10), output parsed by
independent parsers into the abstract documents of Model/Reporters.v, compared inside Coq with the
model; the predicate "every violation exactly once with file, position, rule, level" is computed by
the harness (Go) and once more by Coq on the observed documents.
Command level: the real binary on small workspaces x fail levels x formats; exit status compared
with Model/Exit.v, stdout parsed by the same parsers and compared with the model documents of the
report the same workspace publishes as JSON."""
import binascii, concurrent.futures, json, os, re, shutil, subprocess, time
import vlib
from vlib import clist, cbool
from common import proof_gate, proof_coverage

FORMATS = ['pretty', 'festive', 'compact', 'json', 'github', 'sarif', 'junit']
CODE_FMT = {i: f for i, f in enumerate(FORMATS)}


# ------------------------------------------------------------------ JSON (harness) -> Coq terms

class Emitter:
    """distinct byte strings become named definitions [sK := packed [...]]; long free-text fields of
    OBSERVED documents are replaced by their 9-byte digest (Base/StrLit.v digest_str)"""
    LONG = 40

    def __init__(self):
        self.names = {}
        self.defs = []

    def name(self, b):
        n = self.names.get(b)
        if n is None:
            n = 's%d' % len(self.names)
            self.names[b] = n
            words = [len(b)] + [int.from_bytes(b[k:k + 7].ljust(7, b'\0'), 'big') for k in range(0, len(b), 7)]
            self.defs.append('Definition %s := packed [%s]%%uint63.' % (n, ';'.join(map(str, words))))
        return n

    @staticmethod
    def digest(b):
        h = 1469598103934665603
        for x in b:
            h = (h * 1099511628211 + x + 1) & ((1 << 63) - 1)
        return b'\0' + h.to_bytes(8, 'big')


E = Emitter()


def S(h):
    """a string written in full"""
    return E.name(binascii.unhexlify(h))


def T(h):
    """observed free text: digest when long"""
    b = binascii.unhexlify(h)
    return E.name(Emitter.digest(b) if len(b) > Emitter.LONG else b)


def C(h):
    """observed table cell holding free text: trailing padding cannot be told from trailing spaces"""
    b = binascii.unhexlify(h).rstrip(b' ')
    return E.name(Emitter.digest(b) if len(b) > Emitter.LONG else b)


def KC(h):
    """observed table cell holding a key field: in full, padding stripped"""
    return E.name(binascii.unhexlify(h).rstrip(b' '))


def N(n):
    return '%d' % n


def opt(x, f):
    return 'None' if x is None else '(Some %s)' % f(x)


def lst(xs, f):
    return '[' + '; '.join(f(x) for x in xs) + ']'


def jval(j, sfun=None):
    sfun = sfun or S
    t = j['t']
    if t == 'null':
        return 'JNull'
    if t == 'bool':
        return '(JBool %s)' % cbool(j.get('b', False))
    if t == 'num':
        return '(JNum %d)' % j.get('n', 0)
    if t == 'str':
        return '(JStr %s)' % sfun(j.get('s', ''))
    if t == 'arr':
        return '(JArr %s)' % lst(j.get('l') or [], lambda x: jval(x, sfun))
    if t == 'obj':
        return '(JObj %s)' % lst(j.get('f') or [], lambda f: '(%s, %s)' % (S(f['k']), jval(f['v'], sfun)))
    raise ValueError(t)


def jser(j):
    """canonical byte serialisation of a JSON value (same function as Check.C10Check.jser)"""
    t = j['t']
    if t == 'null':
        return b'z'
    if t == 'bool':
        return b't' if j.get('b') else b'f'
    if t == 'num':
        return b'n' + str(j.get('n', 0)).encode() + b';'
    if t == 'str':
        b = binascii.unhexlify(j.get('s', ''))
        return b's' + str(len(b)).encode() + b':' + b
    if t == 'arr':
        return b'[' + b''.join(jser(x) for x in j.get('l') or []) + b']'
    if t == 'obj':
        return b'{' + b''.join(jser({'t': 'str', 's': f['k']}) + jser(f['v']) for f in j.get('f') or []) + b'}'
    raise ValueError(t)


def sort_keys(j):
    if j['t'] == 'obj':
        return {'t': 'obj', 'f': sorted(({'k': f['k'], 'v': sort_keys(f['v'])} for f in j.get('f') or []),
                                        key=lambda f: binascii.unhexlify(f['k']))}
    if j['t'] == 'arr':
        return {'t': 'arr', 'l': [sort_keys(x) for x in j.get('l') or []]}
    return j


def canon_report_json(j):
    """the JSON encoder in use does not sort the keys of Go maps (iteration order shows): the free-form
    map payloads are compared modulo key order, the struct fields in the order they are written"""
    payload = {binascii.hexlify(k.encode()).decode() for k in ('aggregates', 'metrics', 'ignore_directives')}
    if j['t'] != 'obj':
        return j
    return {'t': 'obj', 'f': [{'k': f['k'], 'v': sort_keys(f['v']) if f['k'] in payload else f['v']} for f in j.get('f') or []]}


def c_location(l):
    return '(Build_location %s %s %s %s %s %s)' % (
        opt(l['end'], lambda e: '(Build_position %d %d)' % (e[0], e[1])), opt(l['text'], S), S(l['file']),
        N(l['col']), N(l['row']), N(l['offset']))


def c_violation(v):
    return '(Build_violation %s %s %s %s %s %s %s)' % (
        S(v['title']), S(v['desc']), S(v['cat']), S(v['level']),
        lst(v['related'] or [], lambda r: '(Build_related %s %s)' % (S(r['desc']), S(r['ref']))),
        c_location(v['loc']), cbool(v['isagg']))


def c_notice(n):
    return '(Build_notice %s %s %s %s %s)' % (S(n['title']), S(n['desc']), S(n['cat']), S(n['level']), S(n['sev']))


def c_report(r):
    return '(Build_report %s %s %s %s %s %s %s (Build_summary %d %d %d %d))' % (
        opt(r.get('aggregates_j'), jval), opt(r.get('metrics_j'), jval),
        '(Some JNull)' if r.get('aggprofile') else 'None', opt(r.get('ignore_j'), jval),
        lst(r['violations'] or [], c_violation), lst(r['notices'] or [], c_notice), opt(r.get('profile_j'), jval),
        *r['summary'])


def is_err(d):
    return d is None or (isinstance(d, dict) and 'error' in d)


def c_pretty(d):
    def entry(e):
        if e.get('level') is not None:
            lv = '(LevelRow %s)' % KC(e['level'])
        elif e.get('yellow') is not None:
            lv = '(DescColour %s)' % cbool(e['yellow'])
        else:
            lv = '(LevelRow %s)' % S('3f3f')   # neither a Level row nor a colour: never equal to the model
        return '(Build_pretty_entry %s %s %s %s %s %s %s)' % (
            KC(e['rule']), lv, C(e['desc']), C(e['cat']), KC(e['loc']), opt(e.get('text'), C), C(e['doc']))
    return shared('pretty', '(Build_pretty_doc %s %s)' % (lst(d['entries'] or [], entry), T(d['footer'])))


def c_compact(d):
    if d.get('empty'):
        return 'CompactEmpty'
    return '(CompactTable %s %s)' % (lst(d['rows'] or [], lambda r: '(%s, %s)' % (KC(r[0]), T(r[1]))), T(d['summary']))


def c_github(d):
    return '(Build_github_doc %s %s %s)' % (c_pretty(d['pretty']), lst(d['anns'] or [], lambda a: '(Build_gh_annotation %s %s %d %d %s)' % (
        S(a['level']), S(a['file']), a['row'], a['col'], T(a['msg']))), lst(d.get('lines') or [], T))


def c_sarif(d):
    def region(g):
        return '(Build_sarif_region %d %d %s)' % (g['row'], g['col'], opt(g.get('end'), lambda e: '(%d, %d)' % (e[0], e[1])))

    def result(x):
        loc = 'None'
        if x['hasloc']:
            loc = '(Some (%s, %s))' % (S(x['uri']), opt(x.get('region'), region))
        return '(Build_sarif_result %s %s %s %s %s %s)' % (
            S(x['rule']), opt(x.get('index'), N), opt(x.get('kind'), S), S(x['level']), T(x['msg']), loc)
    return '(Build_sarif_doc %s %s %s)' % (
        lst(d['rules'] or [], lambda r: '(Build_sarif_rule %s %s %s %s)' % (S(r['id']), T(r['desc']), opt(r.get('help'), T), T(r['cat']))),
        lst(d['artifacts'] or [], S), lst(d['results'] or [], result))


def c_junit(d):
    def case(c):
        return '(Build_junit_case %s %s %s %s %s %s)' % (T(c['name']), S(c['class']), T(c['msg']), S(c['type']), T(c['data']), S(c['rule']))
    return '(Build_junit_doc %d %d %s)' % (d['tests'], d['failures'], lst(d['suites'] or [], lambda s: '(Build_junit_suite %s %d %d %s)' % (
        S(s['name']), s['tests'], s['failures'], lst(s['cases'] or [], case))))


DOC_CONV = {'pretty': c_pretty, 'festive': c_pretty, 'compact': c_compact, 'json': lambda d: E.name(Emitter.digest(jser(canon_report_json(d['jval'])))),
            'github': c_github, 'sarif': c_sarif, 'junit': c_junit}


def c_case(c):
    docs = c['docs']
    parts = [cbool(c['nocolor']), c_report(c['report'])]
    for f in FORMATS:
        d = docs.get(f)
        parts.append('None' if is_err(d) else '(Some %s)' % DOC_CONV[f](d))
    return '(Build_case %s)' % ' '.join(parts)


def shared(kind, text):
    """a term used more than once (festive = pretty, github's table = pretty) becomes a definition"""
    key = (kind, text)
    n = E.names.get(key)
    if n is None:
        n = 'd%d' % len(E.names)
        E.names[key] = n
        E.defs.append('Definition %s := %s.' % (n, text))
    return n


def code_format(code):
    if code == 7:
        return 'json'
    if code in (17, 18):     # internal consistency of the observed document (sarif references, junit counts)
        return {17: 'sarif', 18: 'junit'}[code]
    return FORMATS[code - 10] if code >= 10 else FORMATS[code]


def unhex(h):
    return binascii.unhexlify(h).decode('utf-8', 'replace')


# ------------------------------------------------------------------ evaluation of reporter cases

def eval_cases(ctx, cases, tag):
    """returns {case index: set(codes)} for model mismatches and spec failures"""
    model, spec = {}, {}
    chunk = 150
    for k in range(0, len(cases), chunk):
        part = cases[k:k + chunk]
        global E
        E = Emitter()
        body = 'Definition cases : list case := ' + lst(part, c_case) + '.'
        v = ['From Coq Require Import Uint63.', 'From Regal Require Import Check.C10Check.', 'Open Scope N_scope.'] + E.defs + [body,
             'Definition R1 := Eval vm_compute in failing_codes model_mismatches 0 cases.',
             'Definition R2 := Eval vm_compute in failing_codes spec_failures 0 cases.',
             'Print R1. Print R2.']
        rc, out = vlib.coq_eval(ctx, 'Cases_C10_%s_%d' % (tag, k), '\n'.join(v))
        if rc != 0:
            raise RuntimeError('case evaluation failed:\n' + out[-3000:])
        for name, dst in (('R1', model), ('R2', spec)):
            xs = vlib.parse_nat_list(out, name)
            if xs is None:
                raise RuntimeError('no %s in coq output:\n%s' % (name, out[-2000:]))
            for x in xs:
                dst.setdefault(k + x // 32, set()).add(x % 32)
    return model, spec


def run_harness(ctx, h, args):
    rc, log = vlib.run([h] + args, env=dict(os.environ, VERIF_SEED=str(ctx.seed)), timeout=1200)
    if rc != 0:
        raise RuntimeError('c10 harness failed: ' + log[-3000:])


def shrink_case(ctx, h, case, fmt, still_fails):
    """delta-debugging on the violation list (then notices) of a failing reporter case"""
    best = case
    n = 0

    def attempt(cand):
        nonlocal n
        n += 1
        p = os.path.join(ctx.tmp, 'shrink_in.json')
        o = os.path.join(ctx.tmp, 'shrink_out.jsonl')
        json.dump(cand, open(p, 'w'))
        run_harness(ctx, h, ['replay', p, o])
        res = json.loads(open(o).readline())
        return res if still_fails(res) else None
    changed = True
    while changed and n < 60:
        changed = False
        vs = best['report']['violations']
        for i in range(len(vs)):
            cand = json.loads(json.dumps(best))
            del cand['report']['violations'][i]
            cand['report']['summary'][3] = len(cand['report']['violations'])
            res = attempt(cand)
            if res is not None:
                best, changed = res, True
                break
    if best['report']['notices']:
        cand = json.loads(json.dumps(best))
        cand['report']['notices'] = []
        cand['report']['summary'][2] = 0
        res = attempt(cand)
        if res is not None:
            best = res
    return best


def finding_kind(detail):
    if detail.startswith('internally inconsistent document'):
        # the two redundant parts of one document contradict each other; one kind per cross-reference / count
        for word, kind in (('ruleIndex', 'rule-index'), ('rule.id', 'rule-index'), ('tool.driver.rules', 'rule-index'),
                           ('artifact', 'artifact-reference'), ('kind', 'kind-level'), ('tests=', 'counts'), ('failures=', 'counts'),
                           ('classname', 'suite-of-case'), ('failure text', 'failure-text'), ('footer', 'footer-counts'),
                           ('summary', 'summary-counts'), ('annotation', 'annotation-vs-table'), ('annotations', 'annotation-vs-table')):
            if word in detail:
                return 'inconsistent-' + kind
        return 'inconsistent-other'
    if 'illegal character code' in detail:
        return 'junit-illegal-xml-character'
    if 'not valid UTF-8' in detail:
        return 'pretty-cut-splits-rune'
    if 'presented' in detail and 'instead of' in detail:
        return 'presented-n-times'
    if 'appears more than once' in detail:
        return 'duplicate-suite'
    if 'rule and level are not presented' in detail:
        return 'format-omits-rule-and-level'
    if 'missing:' in detail:
        return 'missing-violation'
    return 'other'


# ------------------------------------------------------------------ the real binary

CLEAN = 'package p\n\nallow := true\n'
TWO_ASSIGN = 'package p\n\nallow = true\n\ndeny = false\n'
ONE_ASSIGN = 'package q\n\nallow = true\n'
TODO = 'package r\n\n# TODO: later\nx := 1\n'
BROKEN = 'package p\n\nallow := {\n'
LONG = 'package s\n\n# TODO \x1b[31mfix\x1b[0m me\nx := "' + 'a' * 108 + '\u00e9' * 10 + '"\n'


def config(levels):
    out = 'rules:\n  default:\n    level: ignore\n'
    cats = {}
    for (cat, rule), lvl in levels.items():
        cats.setdefault(cat, []).append((rule, lvl))
    for cat, rules in cats.items():
        out += '  %s:\n' % cat
        for rule, lvl in rules:
            out += '    %s:\n      level: %s\n' % (rule, lvl)
    return out


UAO = ('style', 'use-assignment-operator')
TODOC = ('style', 'todo-comment')
LINELEN = ('style', 'line-length')

WORKSPACES = {
    'errors-only': ({'a.rego': TWO_ASSIGN, 'sub/b.rego': ONE_ASSIGN}, {UAO: 'error'}),
    'warnings-only': ({'a.rego': TWO_ASSIGN, 'sub/b.rego': ONE_ASSIGN}, {UAO: 'warning'}),
    'both': ({'a.rego': TWO_ASSIGN, 'r.rego': TODO}, {UAO: 'warning', TODOC: 'error'}),
    'one-warning': ({'r.rego': TODO, 'c.rego': CLEAN}, {TODOC: 'warning'}),      # thorough tier only
    'none': ({'c.rego': CLEAN}, {UAO: 'error', TODOC: 'warning'}),
    'parse-error': ({'a.rego': TWO_ASSIGN, 'x.rego': BROKEN}, {UAO: 'error'}),
    'specials': ({'s.rego': LONG, 'a.rego': TWO_ASSIGN, 'd/x,y.rego': ONE_ASSIGN}, {LINELEN: 'error', TODOC: 'warning', UAO: 'warning'}),
}


ALL_WORKSPACES = dict(WORKSPACES)      # + the single-file workspaces of the output channel phase (below)


def make_workspace(root, name):
    files, levels = ALL_WORKSPACES[name]
    d = os.path.join(root, name)
    for rel, content in files.items():
        p = os.path.join(d, rel)
        os.makedirs(os.path.dirname(p), exist_ok=True)
        with open(p, 'wb') as f:
            f.write(content.encode('utf-8'))
    os.makedirs(os.path.join(d, '.regal'), exist_ok=True)
    with open(os.path.join(d, '.regal', 'config.yaml'), 'w') as f:
        f.write(config(levels))
    return d


def run_regal(regal, cwd, args):
    env = dict(os.environ, CI='1', NO_COLOR='1', REGAL_DISABLE_VERSION_CHECK='1')
    env.pop('GITHUB_STEP_SUMMARY', None)
    env.pop('RUNNER_DEBUG', None)
    p = subprocess.run([regal] + args, cwd=cwd, env=env, stdout=subprocess.PIPE, stderr=subprocess.PIPE, timeout=300)
    return p.returncode, p.stdout, p.stderr


def hexs(s):
    return binascii.hexlify(s.encode('utf-8')).decode()


def report_from_json(txt):
    """the report a run published with --format json, in the schema of the harness cases"""
    r = json.loads(txt)
    vs = []
    for v in r.get('violations') or []:
        l = v.get('location') or {}
        vs.append({'title': hexs(v.get('title', '')), 'desc': hexs(v.get('description', '')), 'cat': hexs(v.get('category', '')),
                   'level': hexs(v.get('level', '')),
                   'related': [{'desc': hexs(x.get('description', '')), 'ref': hexs(x.get('ref', ''))} for x in v.get('related_resources') or []],
                   'loc': {'end': [l['end'].get('row', 0), l['end'].get('col', 0)] if l.get('end') else None,
                           'text': hexs(l['text']) if 'text' in l else None, 'file': hexs(l.get('file', '')),
                           'col': l.get('col', 0), 'row': l.get('row', 0), 'offset': l.get('offset', 0)},
                   'isagg': False})
    ns = [{'title': hexs(n.get('title', '')), 'desc': hexs(n.get('description', '')), 'cat': hexs(n.get('category', '')),
           'level': hexs(n.get('level', '')), 'sev': hexs(n.get('severity', ''))} for n in r.get('notices') or []]
    s = r.get('summary') or {}
    return {'violations': vs, 'notices': ns,
            'summary': [s.get('files_scanned', 0), s.get('files_failed', 0), s.get('rules_skipped', 0), s.get('num_violations', 0)]}


def binary_runs(ctx, regal, h, only=None):
    """only = (workspace, args): replay of one stored command line (plus the json runs that publish the report)"""
    root = os.path.join(ctx.tmp, 'ws')
    jobs = []
    for name in WORKSPACES:
        if name == 'one-warning' and ctx.quick():
            continue
        d = make_workspace(root, name)
        for fl in ('error', 'warning'):
            for f in FORMATS:
                jobs.append({'ws': name, 'dir': d, 'fail_level': fl, 'format': f,
                             'args': ['lint', '--format', f, '--fail-level', fl, '.']})
    # command lines outside the format x level grid
    d = make_workspace(root, 'errors-only')
    jobs.append({'ws': 'errors-only', 'dir': d, 'fail_level': 'error', 'format': 'nosuch', 'expect_failed': True,
                 'args': ['lint', '--format', 'nosuch', '.']})
    jobs.append({'ws': 'errors-only', 'dir': d, 'fail_level': 'error', 'format': 'pretty', 'expect_failed': True,
                 'args': ['lint', '--config-file', 'does-not-exist.yaml', '.']})
    jobs.append({'ws': 'errors-only', 'dir': d, 'fail_level': 'error', 'format': 'pretty', 'expect_failed': True,
                 'args': ['lint']})
    jobs.append({'ws': 'errors-only', 'dir': d, 'fail_level': 'error', 'format': 'pretty', 'default_level': True,
                 'args': ['lint', '.']})
    jobs.append({'ws': 'warnings-only', 'dir': os.path.join(root, 'warnings-only'), 'fail_level': 'error', 'format': 'pretty',
                 'default_level': True, 'args': ['lint', '.']})
    jobs.append({'ws': 'errors-only', 'dir': d, 'fail_level': 'nosuch', 'format': 'json',
                 'args': ['lint', '--format', 'json', '--fail-level', 'nosuch', '.']})

    if only:
        jobs = [j for j in jobs if j['ws'] == only[0] and (j['args'] == only[1] or (j['format'] == 'json' and not j.get('expect_failed')
                                                                                and j['fail_level'] in ('error', 'warning')))]

    def one(j):
        rc, out, err = run_regal(regal, j['dir'], j['args'])
        j['status'], j['stdout'], j['stderr'] = rc, out, err
        return j
    with concurrent.futures.ThreadPoolExecutor(max_workers=12) as ex:
        jobs = list(ex.map(one, jobs))
    return jobs


def finish_jobs(ctx, h, jobs):
    """attach to every run the report its workspace published as JSON, parse the stdout documents"""
    # the report of a workspace = what its json run published (same for both fail levels)
    reports = {}
    for j in jobs:
        if j['format'] == 'json' and j['fail_level'] in ('error', 'warning'):
            txt = j['stdout'].decode('utf-8', 'replace')
            try:
                rep = report_from_json(txt) if txt.strip() else None
            except ValueError:
                rep = None
            reports.setdefault(j['ws'], []).append(rep)
    for j in jobs:
        reps = reports.get(j['ws']) or [None]
        j['report'] = None if (j.get('expect_failed') or any(r is None for r in reps)) else reps[0]
        # the order of the violations in a report is not fixed from run to run (C01's subject): runs on one
        # workspace are required to publish the same violations as a multiset only
        canon = [None if r is None else dict(r, violations=sorted(json.dumps(v, sort_keys=True) for v in r['violations'])) for r in reps]
        j['reports_agree'] = all(c == canon[0] for c in canon)
    # parse every stdout of a successful run with the harness' parsers
    manifest, idx = [], []
    for i, j in enumerate(jobs):
        j['doc'] = None
        if j['report'] is not None and j['format'] in FORMATS:
            p = os.path.join(ctx.tmp, 'out_%d.txt' % i)
            with open(p, 'wb') as f:
                f.write(j['stdout'])
            manifest.append({'format': j['format'], 'file': p})
            idx.append(i)
    mp = os.path.join(ctx.tmp, 'parse_manifest.json')
    json.dump(manifest, open(mp, 'w'))
    pr = subprocess.run([h, 'parsebatch', mp], stdout=subprocess.PIPE, stderr=subprocess.PIPE, timeout=600)
    if pr.returncode != 0:
        raise RuntimeError('c10 parsebatch failed: ' + pr.stderr.decode('utf-8', 'replace')[-2000:])
    lines = pr.stdout.decode('utf-8').splitlines()
    assert len(lines) == len(idx), (len(lines), len(idx))
    for i, l in zip(idx, lines):
        jobs[i]['parsed'] = json.loads(l)
        jobs[i]['doc'] = jobs[i]['parsed']['doc']
    return jobs


def eval_binary(ctx, jobs):
    """exit status vs model and vs the property's wording; stdout documents vs model documents"""
    global E
    E = Emitter()
    obs = []
    for j in jobs:
        res = 'LintFailed' if j['report'] is None else '(LintDone %s)' % c_report(j['report'])
        obs.append('(Build_exit_obs %s %s %d)' % (S(hexs(j['fail_level'])), res, j['status']))
    doc_cases, doc_idx = [], []
    for i, j in enumerate(jobs):
        if j['doc'] is not None:
            docs = {f: None for f in FORMATS}
            docs[j['format']] = j['doc']
            doc_cases.append({'nocolor': True, 'report': j['report'], 'docs': docs})
            doc_idx.append(i)
    body_cases = 'Definition cases : list case := ' + lst(doc_cases, c_case) + '.'
    v = ['From Coq Require Import Uint63.', 'From Regal Require Import Check.C10Check.', 'Open Scope N_scope.'] + E.defs + [
         'Definition obs : list exit_obs := ' + clist(obs) + '.',
         'Definition E1 := Eval vm_compute in failing exit_agrees 0 obs.',
         'Definition E2 := Eval vm_compute in failing exit_meets_spec 0 obs.',
         body_cases,
         'Definition R2 := Eval vm_compute in failing_codes spec_failures 0 cases.',
         'Print E1. Print E2. Print R2.']
    rc, out = vlib.coq_eval(ctx, 'Cases_C10_exit', '\n'.join(v))
    if rc != 0:
        raise RuntimeError('exit case evaluation failed:\n' + out[-3000:])
    e1 = vlib.parse_nat_list(out, 'E1')
    e2 = vlib.parse_nat_list(out, 'E2')
    # stdout documents: only the order-insensitive predicate (the run that produced a document and the json
    # run that published the report may list the violations in different orders)
    spec = {}
    for x in vlib.parse_nat_list(out, 'R2'):
        if code_format(x % 32) == jobs[doc_idx[x // 32]]['format']:     # only the format that run produced
            spec.setdefault(doc_idx[x // 32], set()).add(x % 32)
    return e1, e2, spec


# ------------------------------------------------------------------ the output channel

BIGDIR = 'policies/authorization/a_directory_name_that_makes_every_row_long'
CH_WORKSPACES = {           # one file each: the order of the violations (so the bytes of the output) is the same in every run
    'ch-none': ({'c.rego': CLEAN}, {UAO: 'error', TODOC: 'warning'}),
    'ch-small': ({'a.rego': TWO_ASSIGN}, {UAO: 'error'}),
    'ch-other': ({'r.rego': TODO + 'y = 2\n'}, {TODOC: 'warning', UAO: 'warning'}),
    'ch-big': ({BIGDIR + '/big_policy.rego': 'package big\n\n' + ''.join('x%d = %d\n\n' % (i, i) for i in range(760))}, {UAO: 'error'}),
}
ALL_WORKSPACES.update(CH_WORKSPACES)


def run_regal_ch(regal, cwd, args, stdout_to=None, fsize_limit=None):
    """like run_regal; stdout_to: path stdout is redirected to (a device); fsize_limit: RLIMIT_FSIZE in bytes with SIGXFSZ ignored,
    i.e. an output device on which write(2) fails (EFBIG) once that many bytes are in the file"""
    import resource, signal
    env = dict(os.environ, CI='1', NO_COLOR='1', REGAL_DISABLE_VERSION_CHECK='1')
    env.pop('GITHUB_STEP_SUMMARY', None)
    env.pop('RUNNER_DEBUG', None)

    def pre():
        signal.signal(signal.SIGXFSZ, signal.SIG_IGN)
        resource.setrlimit(resource.RLIMIT_FSIZE, (fsize_limit, fsize_limit))
    out = open(stdout_to, 'wb') if stdout_to else subprocess.PIPE
    try:
        p = subprocess.run([regal] + args, cwd=cwd, env=env, stdout=out, stderr=subprocess.PIPE, timeout=300,
                           preexec_fn=pre if fsize_limit is not None else None)
    finally:
        if stdout_to:
            out.close()
    return p.returncode, (p.stdout if not stdout_to else b''), p.stderr


def channel_runs(ctx, regal, h, only=None):
    """the OUTPUT CHANNEL of regal lint: for every format, stdout vs --output-file (fresh path, existing file with longer / shorter /
    unrelated content, repeated runs with different reports into one file), and channels that fail (/dev/full as file and as stdout,
    a device that fails late, paths that cannot be opened).  Returns (stdout jobs for the exit/document pipeline, list of problems,
    statistics, file observations for Coq)"""
    t_start = time.time()
    root = os.path.join(ctx.tmp, 'ws')
    outdir = os.path.join(ctx.tmp, 'chan')
    os.makedirs(outdir, exist_ok=True)
    dirs = {name: make_workspace(root, name) for name in CH_WORKSPACES}
    quick = ctx.quick()
    problems, file_obs = [], []
    stats = {'stdout_runs': 0, 'output_file_runs': 0, 'failing_channel_runs': 0, 'by_failing_channel': {}, 'bytes': {}}

    # ---- reference: the same command line writing to stdout
    ref_jobs = [{'ws': w, 'dir': dirs[w], 'fail_level': 'error', 'format': f, 'args': ['lint', '--format', f, '--fail-level', 'error', '.']}
                for w in CH_WORKSPACES for f in FORMATS]

    def one(j):
        j['status'], j['stdout'], j['stderr'] = run_regal(regal, j['dir'], j['args'])
        return j
    with concurrent.futures.ThreadPoolExecutor(max_workers=12) as ex:
        ref_jobs = list(ex.map(one, ref_jobs))
    stats['stdout_runs'] = len(ref_jobs)
    t_ref = time.time()
    ref = {(j['ws'], j['format']): j for j in ref_jobs}
    report_files = {}
    for w in CH_WORKSPACES:
        rp = os.path.join(outdir, 'report_%s.json' % w)
        with open(rp, 'wb') as f:
            f.write(ref[(w, 'json')]['stdout'])
        report_files[w] = rp
    for (w, f), j in ref.items():
        stats['bytes']['%s/%s' % (w, f)] = len(j['stdout'])
        want = {'ch-none': 0, 'ch-small': 3, 'ch-other': 0, 'ch-big': 3}[w]
        if j['status'] != want:
            problems.append(dict(chan_replay(j), kind='exit-code', what='exit status %d, expected %d' % (j['status'], want),
                                 sig='%s/%s/stdout' % (w, f)))
    for f in FORMATS:
        n = len(ref[('ch-big', f)]['stdout'])
        if n <= 65536:
            raise RuntimeError('workspace ch-big is too small for format %s: %d bytes' % (f, n))

    # ---- (a) --output-file: chains of runs into one file, one chain per format
    def chain(f):
        res = []
        path = os.path.join(outdir, 'chain.%s.out' % f)
        garbage = bytes(ctx_garbage)
        steps = [('fresh', 'ch-small', None), ('same-again', 'ch-small', None), ('shorter-existing', 'ch-big', None),
                 ('longer-existing', 'ch-other', None), ('longer-existing', 'ch-none', None), ('garbage-existing', 'ch-small', garbage)]
        if quick:
            steps = [steps[0], steps[2], steps[3], steps[4], steps[5]]
        for kind, w, prefill in steps:
            prev = open(path, 'rb').read() if os.path.exists(path) else None
            if prefill is not None:
                with open(path, 'wb') as fh:
                    fh.write(prefill)
                prev = prefill
            rel = (len(res) % 2 == 1)     # every other run spells the path relative to the working directory
            arg = os.path.relpath(path, dirs[w]) if rel else path
            args = ['lint', '--format', f, '--fail-level', 'error', '--output-file', arg, '.']
            rc, out, err = run_regal(regal, dirs[w], args)
            got = open(path, 'rb').read() if os.path.exists(path) else None
            res.append({'kind': kind, 'ws': w, 'dir': dirs[w], 'format': f, 'args': args, 'status': rc, 'stdout': out, 'stderr': err,
                        'prev': prev, 'file': got, 'path': path})
        return res
    ctx_garbage = [ctx.rng.below(256) for _ in range(3000)]
    fmts = FORMATS if not only else [only['format']]
    with concurrent.futures.ThreadPoolExecutor(max_workers=7) as ex:
        chains = list(ex.map(chain, fmts))
    t_chain = time.time()
    manifest, midx = [], []
    for ch in chains:
        for k, r in enumerate(ch):
            stats['output_file_runs'] += 1
            want = ref[(r['ws'], r['format'])]
            rp = dict(chan_replay(r), step=r['kind'], previous_content_bytes=None if r['prev'] is None else len(r['prev']),
                      chain=[{'workspace': x['ws'], 'args': x['args']} for x in ch[:k + 1]])
            sig = '%s/%s' % (r['format'], r['kind'])
            if r['status'] != want['status']:
                problems.append(dict(rp, kind='output-file-exit', sig=sig,
                                     what='exit status %d with --output-file, %d with the same report on stdout' % (r['status'], want['status'])))
            elif r['file'] is None:
                problems.append(dict(rp, kind='output-file', sig=sig, what='the output file does not exist after the run'))
            elif r['file'] != want['stdout']:
                # two stdout runs of one single-file workspace are byte-identical (checked below on demand)
                rc2, out2, _ = run_regal(regal, r['dir'], want['args'])
                if out2 == want['stdout']:
                    tail = r['file'][len(want['stdout']):] if r['file'].startswith(want['stdout']) else None
                    problems.append(dict(rp, kind='output-file', sig=sig, expected_bytes=len(want['stdout']), file_bytes=len(r['file']),
                                         unexpected_tail=None if tail is None else tail[-300:].decode('utf-8', 'replace'),
                                         file_head=r['file'][:300].decode('utf-8', 'replace'),
                                         what='after the run the output file (%d bytes) is not the rendering of this run\'s report (%d bytes '
                                              'on stdout)%s' % (len(r['file']), len(want['stdout']),
                                                                '' if tail is None else ': the rendering is followed by %d bytes of the previous content' % len(tail))))
            if r['stdout'].strip():
                problems.append(dict(rp, kind='output-file', sig=sig + '/stdout',
                                     what='with --output-file the run also wrote to stdout: %r' % r['stdout'][:200]))
            if r['file'] is not None:
                manifest.append({'format': r['format'], 'file': r['path'] + '.%d' % k, 'report': report_files[r['ws']]})
                with open(r['path'] + '.%d' % k, 'wb') as fh:
                    fh.write(r['file'])
                midx.append((rp, sig))
            if r['file'] is not None and len(want['stdout']) <= 6000 and (r['prev'] is None or len(r['prev']) <= 6000):
                file_obs.append((r['prev'], want['stdout'], r['file'], rp, sig))
    # independent reading of the files: each parses and presents the violations of its report exactly once
    if manifest:
        mp = os.path.join(ctx.tmp, 'check_manifest.json')
        json.dump(manifest, open(mp, 'w'))
        pr = subprocess.run([h, 'checkbatch', mp], stdout=subprocess.PIPE, stderr=subprocess.PIPE, timeout=900)
        if pr.returncode != 0:
            raise RuntimeError('c10 checkbatch failed: ' + pr.stderr.decode('utf-8', 'replace')[-2000:])
        lines = pr.stdout.decode('utf-8').splitlines()
        assert len(lines) == len(manifest)
        for (rp, sig), l in zip(midx, lines):
            v = json.loads(l)
            if not v['ok'] and finding_kind(v.get('detail', '')) != 'format-omits-rule-and-level':
                problems.append(dict(rp, kind='output-file-predicate', sig=sig,
                                     what='the output file does not present every violation of the report exactly once: ' + v.get('detail', '')))

    t_chk = time.time()
    # ---- (b) channels that fail: the report cannot be delivered, so the run must exit 1
    notdir = os.path.join(outdir, 'regular_file')
    open(notdir, 'wb').close()
    fails = []
    sizes = ['ch-none', 'ch-small', 'ch-big']
    for fi, f in enumerate(FORMATS):
        for wi, w in enumerate(sizes):
            n = len(ref[(w, f)]['stdout'])
            grid = [('dev-full-output-file', {'o': '/dev/full'}),
                    ('dev-full-stdout', {'stdout_to': '/dev/full'}),
                    ('device-fails-on-the-last-byte', {'o': os.path.join(outdir, 'lim1.%s.%s.out' % (f, w)), 'limit': max(0, n - 1)}),
                    ('device-fails-half-way', {'o': os.path.join(outdir, 'lim2.%s.%s.out' % (f, w)), 'limit': n // 2}),
                    ('stdout-fails-on-the-last-byte', {'stdout_to': os.path.join(outdir, 'lim3.%s.%s.out' % (f, w)), 'limit': max(0, n - 1)}),
                    ('directory-does-not-exist', {'o': os.path.join(outdir, 'no-such-dir', 'r.out')}),
                    ('path-is-a-directory', {'o': outdir}),
                    ('path-below-a-regular-file', {'o': os.path.join(notdir, 'r.out')})]
            if quick:
                # every (format, size) meets /dev/full as output file and the device that fails on the last byte; the other kinds
                # rotate over the formats (thorough: the full grid)
                keep = {0, 2}
                if w == 'ch-big':
                    keep |= {1}
                elif w == 'ch-small':
                    keep |= {3 + fi % 5, 3 + (fi + 2) % 5}
                else:
                    keep |= {4} if fi % 2 == 0 else {1}
                grid = [g for k, g in enumerate(grid) if k in keep]
            for kind, spec in grid:
                fails.append({'kind': kind, 'ws': w, 'dir': dirs[w], 'format': f, 'spec': spec, 'expected_bytes': n})
    if os.geteuid() != 0:
        ro = os.path.join(outdir, 'read-only-dir')
        os.makedirs(ro, exist_ok=True)
        os.chmod(ro, 0o555)
        for f in FORMATS:
            fails.append({'kind': 'read-only-directory', 'ws': 'ch-small', 'dir': dirs['ch-small'], 'format': f,
                          'spec': {'o': os.path.join(ro, 'r.out')}, 'expected_bytes': len(ref[('ch-small', f)]['stdout'])})
    if only:
        fails = [x for x in fails if x['kind'] == only.get('channel') and x['format'] == only['format'] and x['ws'] == only['workspace']]

    def fail_one(x):
        sp = x['spec']
        args = ['lint', '--format', x['format'], '--fail-level', 'error'] + (['--output-file', sp['o']] if 'o' in sp else []) + ['.']
        x['args'] = args
        x['status'], x['stdout'], x['stderr'] = run_regal_ch(regal, x['dir'], args, stdout_to=sp.get('stdout_to'), fsize_limit=sp.get('limit'))
        return x
    with concurrent.futures.ThreadPoolExecutor(max_workers=12) as ex:
        fails = list(ex.map(fail_one, fails))
    for x in fails:
        stats['failing_channel_runs'] += 1
        stats['by_failing_channel'][x['kind']] = stats['by_failing_channel'].get(x['kind'], 0) + 1
        if x['status'] != 1:
            problems.append(dict(chan_replay(x), kind='undelivered-report-exit', channel=x['kind'], channel_spec=x['spec'],
                                 report_bytes=x['expected_bytes'], sig='%s/%s' % (x['format'], x['kind']),
                                 what='the report (%d bytes as %s) could not be delivered (%s) but the exit status is %d, not 1'
                                      % (x['expected_bytes'], x['format'], x['kind'], x['status'])))
    stats['seconds'] = {'stdout_runs': round(t_ref - t_start, 1), 'output_file_chains': round(t_chain - t_ref, 1),
                        'reading_the_files_back': round(t_chk - t_chain, 1), 'failing_channels': round(time.time() - t_chk, 1)}
    return ref_jobs, chains, fails, problems, stats, file_obs


def chan_replay(j):
    files, levels = ALL_WORKSPACES[j['ws']]
    big = j['ws'] == 'ch-big'
    return {'workspace': j['ws'], 'files': {k: (v if not big else v[:200] + '... (760 assignments x<i> = <i>)') for k, v in files.items()},
            'config': config(levels), 'command': 'regal ' + ' '.join(j['args']), 'args': j['args'], 'format': j['format'],
            'status': j['status'], 'stdout_head': (j.get('stdout') or b'')[:600].decode('utf-8', 'replace'),
            'stderr_head': (j.get('stderr') or b'')[:600].decode('utf-8', 'replace')}


def eval_channel(ctx, file_obs, chains, fails, reports):
    """Coq side of the output channel: Model/Exit.file_after vs the files; lint_fn/run_exit vs the exit statuses"""
    global E
    E = Emitter()

    def opt_s(b):
        return 'None' if b is None else '(Some %s)' % E.name(b)
    fobs = ['(Build_file_obs %s %s %s)' % (opt_s(prev), E.name(rend), E.name(got)) for prev, rend, got, _, _ in file_obs]
    eobs, emeta = [], []
    rterm = {}
    for w, rep in reports.items():
        if rep is not None and w != 'ch-big':
            rterm[w] = shared('rep', c_report(rep))
    for ch in chains:
        for r in ch:
            if r['ws'] in rterm:
                eobs.append('(Build_exit_obs %s (lint_fn IoOk (Linted %s) IoOk) %d)' % (S(hexs('error')), rterm[r['ws']], r['status']))
                emeta.append(r)
    for x in fails:
        if x['ws'] in rterm:
            opened = 'IoErr' if x['kind'] in ('directory-does-not-exist', 'path-is-a-directory', 'path-below-a-regular-file', 'read-only-directory') else 'IoOk'
            eobs.append('(Build_exit_obs %s (lint_fn %s (Linted %s) %s) %d)' % (
                S(hexs('error')), opened, rterm[x['ws']], 'IoOk' if opened == 'IoErr' else 'IoErr', x['status']))
            emeta.append(x)
    v = ['From Coq Require Import Uint63.', 'From Regal Require Import Check.C10Check.', 'Open Scope N_scope.'] + E.defs + [
         'Definition fobs : list file_obs := ' + clist(fobs) + '.',
         'Definition eobs : list exit_obs := ' + clist(eobs) + '.',
         'Definition F1 := Eval vm_compute in failing file_agrees 0 fobs.',
         'Definition E1 := Eval vm_compute in failing exit_agrees 0 eobs.',
         'Definition E2 := Eval vm_compute in failing exit_meets_spec 0 eobs.',
         'Print F1. Print E1. Print E2.']
    rc, out = vlib.coq_eval(ctx, 'Cases_C10_channel', '\n'.join(v))
    if rc != 0:
        raise RuntimeError('channel case evaluation failed:\n' + out[-3000:])
    f1, e1, e2 = (vlib.parse_nat_list(out, n) for n in ('F1', 'E1', 'E2'))
    if f1 is None or e1 is None or e2 is None:
        raise RuntimeError('cannot parse channel case evaluation:\n' + out[-2000:])
    return f1, [emeta[i] for i in e1], [emeta[i] for i in e2], len(fobs), len(eobs)


def job_replay(j):
    return {'workspace': j['ws'], 'files': ALL_WORKSPACES[j['ws']][0], 'config': config(ALL_WORKSPACES[j['ws']][1]),
            'command': 'regal ' + ' '.join(j['args']), 'args': j['args'], 'status': j['status'],
            'stdout_head': j['stdout'][:1500].decode('utf-8', 'replace'), 'stderr_head': j['stderr'][:600].decode('utf-8', 'replace')}


# ------------------------------------------------------------------ run

def run(ctx):
    timing = {}
    t0 = time.time()
    with concurrent.futures.ThreadPoolExecutor(max_workers=2) as ex:      # the two go builds side by side
        fh, fr = ex.submit(vlib.build_harness, ctx, 'c10'), ex.submit(vlib.build_regal, ctx)
        h, regal = fh.result(), fr.result()
    timing['go_builds_s'] = round(time.time() - t0, 1)
    corpus = os.path.join(vlib.VERIF, 'corpus', 'C10')
    out = os.path.join(ctx.tmp, 'c10.jsonl')
    if ctx.replay:
        rp = json.load(open(ctx.replay))
        if 'case' in rp:
            p = os.path.join(ctx.tmp, 'replay_case.json')
            json.dump(rp['case'], open(p, 'w'))
            run_harness(ctx, h, ['replay', p, out])
        else:
            open(out, 'w').close()
    else:
        run_harness(ctx, h, ['gen', out, ctx.tier, corpus])
    cases = [json.loads(l) for l in open(out)]
    timing['harness_s'] = round(time.time() - t0 - timing['go_builds_s'], 1)
    t1 = time.time()

    # the runs of the real binary (exit grid + output channel) only collect observations: they are started now and run beside
    # the (single-threaded) Coq evaluation of the reporter cases; all verdicts are given below, in a fixed order
    rp = json.load(open(ctx.replay)) if ctx.replay else {}

    def binary_phase_runs():
        tb = time.time()
        if 'case' in rp or 'channel_case' in rp:
            jobs = []
        elif 'workspace' in rp and 'args' in rp:
            jobs = binary_runs(ctx, regal, h, only=(rp['workspace'], rp['args']))
        else:
            jobs = binary_runs(ctx, regal, h)
        tj = time.time() - tb
        chan = None
        if 'channel_case' in rp or not rp:
            chan = channel_runs(ctx, regal, h, only=rp.get('channel_case'))
        return jobs, chan, round(tj, 1), round(time.time() - tb - tj, 1)
    bg = concurrent.futures.ThreadPoolExecutor(max_workers=1)
    bg_runs = bg.submit(binary_phase_runs)

    # ---- reporter level -----------------------------------------------------------------
    model, spec = eval_cases(ctx, cases, 'rep') if cases else ({}, {})
    pred_fail = {}
    for i, c in enumerate(cases):
        for f in FORMATS:
            if not c['pred'][f]['ok']:
                pred_fail.setdefault(i, {})[f] = c['pred'][f]['detail']

    reported = set()
    # concrete failing inputs first: predicate computed by the harness on the real output
    for i in sorted(pred_fail):
        for f, detail in sorted(pred_fail[i].items()):
            kind = finding_kind(detail)
            fam = 'pretty' if f in ('festive', 'github') and kind in ('pretty-cut-splits-rune', 'missing-violation') else f
            if (fam, kind) in reported or len(ctx.violations) >= 4:
                continue
            reported.add((fam, kind))
            small = shrink_case(ctx, h, cases[i], f, lambda res, f=f, kind=kind: (not res['pred'][f]['ok']) and finding_kind(res['pred'][f]['detail']) == kind)
            vs = small['report']['violations']
            vlib.violation(ctx, {'kind': 'reporter-predicate', 'format': f, 'nocolor': small['nocolor'],
                                 'what': '%s reporter: %s' % (f, small['pred'][f]['detail']),
                                 'violations_in_report': len(vs), 'readable': small.get('q'),
                                 'case': {k: small[k] for k in ('gen', 'nocolor', 'report')},
                                 'document': small['docs'].get(f)},
                           signature={'kind': 'reporter-' + kind, 'key': fam})
    # the same predicate evaluated by Coq on the observed documents must agree with the harness
    for i in sorted(spec):
        for code in sorted(spec[i]):
            f = code_format(code)
            if f not in pred_fail.get(i, {}) and len(ctx.violations) < 4 and (f, 'coq-spec') not in reported:
                reported.add((f, 'coq-spec'))
                vlib.violation(ctx, {'kind': 'reporter-predicate-coq', 'format': f,
                                     'what': 'the document read back from the %s output does not present every violation exactly once '
                                             '(Check.C10Check.spec_failures), although the harness predicate accepted it' % f,
                                     'case': {k: cases[i][k] for k in ('gen', 'nocolor', 'report')}, 'readable': cases[i].get('q'),
                                     'document': cases[i]['docs'].get(f)})
    # model/implementation disagreement without a failing input
    mism_only = []
    for i in sorted(model):
        for code in sorted(model[i]):
            f = code_format(code)
            if f in pred_fail.get(i, {}):
                continue      # explained by the concrete failure above
            mism_only.append((i, code, f))
    if mism_only and not ctx.violations:
        i, code, f = mism_only[0]
        small = shrink_case(ctx, h, cases[i], f, lambda res: bool(eval_cases(ctx, [res], 'shr')[0]))
        vlib.violation(ctx, {'kind': 'correspondence', 'relation': 'Check.C10Check.model_mismatches code %d (%s vs Model/Reporters.v)' % (code, f),
                             'format': f, 'n_mismatching_cases': len({m[0] for m in mism_only}),
                             'case': {k: small[k] for k in ('gen', 'nocolor', 'report')}, 'readable': small.get('q'),
                             'document': small['docs'].get(f)}, no_input=True)

    # self-test of the internal-consistency checks: perturbed documents must be rejected
    st = subprocess.run([h, 'selftest'], stdout=subprocess.PIPE, stderr=subprocess.PIPE, timeout=300)
    if st.returncode != 0:
        raise RuntimeError('c10 selftest failed: ' + st.stderr.decode('utf-8', 'replace')[-2000:])
    selftest = json.loads(st.stdout.decode('utf-8'))
    st_missed = [x for x in selftest if not x['flagged']]
    if st_missed and not ctx.violations:
        vlib.violation(ctx, {'kind': 'self-test', 'what': 'a perturbed document was not rejected by the internal-consistency check '
                                                          '(or the unperturbed one was): %s' % st_missed[0]['name'], 'all': selftest}, no_input=True)

    timing['reporter_eval_s'] = round(time.time() - t1, 1)
    t2 = time.time()
    # ---- the real binary ----------------------------------------------------------------
    jobs, chan, timing['binary_runs_s'], timing['channel_runs_s'] = bg_runs.result()
    bg.shutdown()
    timing['waited_for_binary_runs_s'] = round(time.time() - t2, 1)
    e1 = e2 = []
    bspec = {}
    if chan is not None:
        # the stdout runs of the small single-file workspaces go through the same exit / document pipeline as the grid
        jobs += [j for j in chan[0] if j['ws'] != 'ch-big']
    if jobs:
        tf = time.time()
        finish_jobs(ctx, h, jobs)
        timing['parse_stdout_s'] = round(time.time() - tf, 1)
        tf = time.time()
        e1, e2, bspec = eval_binary(ctx, jobs)
        timing['binary_eval_coq_s'] = round(time.time() - tf, 1)
        e2 = [i for i in e2 if jobs[i]['fail_level'] in ('error', 'warning')]   # the property speaks about these two levels
        seen_exit = set()
        for i in e2:
            j = jobs[i]
            if (j['ws'], j['fail_level']) in seen_exit or len(seen_exit) >= 2:
                continue
            seen_exit.add((j['ws'], j['fail_level']))
            vlib.violation(ctx, dict(job_replay(j), kind='exit-code', fail_level=j['fail_level'],
                                     what='exit status %d does not follow from the published report and --fail-level %s'
                                          % (j['status'], j['fail_level'])),
                           signature={'kind': 'exit-code', 'key': '%s/%s/%s' % (j['ws'], j['fail_level'], j['format'])})
        for j in jobs:
            if not j['reports_agree'] and not ctx.violations:
                vlib.violation(ctx, dict(job_replay(j), kind='nondeterministic-report',
                                         what='two json runs on the same workspace published different reports'))
                break
        for j in jobs:
            if j.get('expect_failed') and j['status'] != 1 and len(ctx.violations) < 4:
                vlib.violation(ctx, dict(job_replay(j), kind='exit-code', what='a command line that cannot lint exited %d, not 1' % j['status']))
        seen_out = set()
        for i in sorted(bspec):
            j = jobs[i]
            if (j['ws'], j['format']) in seen_out:
                continue
            seen_out.add((j['ws'], j['format']))
            if len(ctx.violations) < 4:
                only_inc = bspec[i] <= {17, 18}
                pr = (j.get('parsed') or {}).get('pred') or {}
                vlib.violation(ctx, dict(job_replay(j), kind='binary-output-inconsistent' if only_inc else 'binary-output-predicate',
                                         what=('stdout of the %s run is internally inconsistent (Check.C10Check.spec_failures code %s: sarif '
                                               'ruleIndex / artifacts, junit counts)%s' % (j['format'], sorted(bspec[i]),
                                               '' if pr.get('ok', True) else '; harness: ' + str(pr.get('detail'))))
                                         if only_inc else
                                         'stdout of the %s run does not present every violation of the report exactly once' % j['format']),
                               signature={'kind': 'binary-output', 'key': '%s/%s' % (j['ws'], j['format'])})
        # internal consistency of every stdout document (cross-references and redundant counts; needs no report)
        seen_inc = set()
        for j in jobs:
            pr = (j.get('parsed') or {}).get('pred') or {}
            if j.get('doc') is not None and not is_err(j['doc']) and pr.get('ok') is False and (j['ws'], j['format']) not in seen_inc \
                    and (j['ws'], j['format']) not in seen_out and len(ctx.violations) < 4:
                seen_inc.add((j['ws'], j['format']))
                vlib.violation(ctx, dict(job_replay(j), kind='binary-output-inconsistent',
                                         what='stdout of the %s run: %s' % (j['format'], pr.get('detail'))),
                               signature={'kind': 'binary-output-inconsistent', 'key': '%s/%s' % (j['ws'], j['format'])})
        unparsable = [j for j in jobs if j['report'] is not None and j['format'] in FORMATS and is_err(j['doc'])]
        for j in unparsable[:2]:
            if len(ctx.violations) < 4:
                vlib.violation(ctx, dict(job_replay(j), kind='binary-output-unparsable',
                                         what='stdout of the %s run cannot be parsed: %s' % (j['format'], j['doc'].get('error'))),
                               signature={'kind': 'binary-output-unparsable', 'key': '%s/%s' % (j['ws'], j['format'])})
        if e1 and not ctx.violations:
            j = jobs[e1[0]]
            vlib.violation(ctx, dict(job_replay(j), kind='correspondence', relation='Check.C10Check.exit_agrees (Model/Exit.v)',
                                     fail_level=j['fail_level']), no_input=True)
    timing['binary_s'] = round(time.time() - t2, 1)
    t3 = time.time()
    chan_stats = None
    if chan is not None:
        ref_jobs, chains, fails, problems, chan_stats, file_obs = chan
        seen_sig = set()
        for pb in problems:
            fam = (pb['kind'], pb['sig'].split('/')[-1] if pb['kind'] != 'output-file' else pb['sig'].split('/', 1)[1])
            if fam in seen_sig or len(ctx.violations) >= 5:
                continue
            seen_sig.add(fam)
            sig = pb.pop('sig')
            pb['channel_case'] = {'format': pb['format'], 'workspace': pb['workspace'], 'channel': pb.get('channel')}
            vlib.violation(ctx, pb, signature={'kind': 'channel-' + pb['kind'], 'key': sig})
        reports = {w: next((j.get('report') for j in ref_jobs if j['ws'] == w and j['format'] == 'json'), None) for w in CH_WORKSPACES}
        f1, ce1, ce2, nf, ne = eval_channel(ctx, file_obs, chains, fails, reports)
        chan_stats.update({'coq_file_observations': nf, 'coq_exit_observations': ne, 'mismatch_model_file_after': len(f1),
                           'mismatch_model_run_exit': len(ce1), 'exit_spec_failures_channel': len(ce2), 'problems': len(problems)})
        if (f1 or ce1 or ce2) and not ctx.violations:
            # the model and the binary disagree although the byte-level / status-level predicates above found nothing
            if f1:
                _, _, _, rp1, sig = file_obs[f1[0]]
                vlib.violation(ctx, dict(rp1, kind='correspondence', relation='Check.C10Check.file_agrees (Model/Exit.file_after)'), no_input=True)
            else:
                x = (ce1 or ce2)[0]
                vlib.violation(ctx, dict(chan_replay(x), kind='correspondence',
                                         relation='Check.C10Check.exit_agrees / exit_meets_spec on Model/Exit.lint_fn (delivery step)'), no_input=True)
    timing['channel_s'] = round(time.time() - t3, 1)
    proof_gate(ctx)

    # ---- evidence -----------------------------------------------------------------------
    nviol = [len(c['report']['violations']) for c in cases]
    hist = {}
    for n in nviol:
        b = '0' if n == 0 else '1-5' if n <= 5 else '6-15' if n <= 15 else '16-40'
        hist[b] = hist.get(b, 0) + 1
    distinct = len({json.dumps([c['nocolor'], c['report']], sort_keys=True) for c in cases if c['report']['violations']})
    texts = {v['loc']['text'] for c in cases for v in c['report']['violations'] if v['loc']['text']}
    cut_cases = sum(1 for t in texts if len(t) // 2 > 117)
    cut_split = 0
    for t in texts:
        b = binascii.unhexlify(t)
        if len(b) > 117 and (b[117] & 0xC0) == 0x80:
            cut_split += 1
    exit_hist = {}
    for j in jobs:
        k = '%s/%s->%d' % (j['ws'], j['fail_level'], j['status'])
        exit_hist[k] = exit_hist.get(k, 0) + 1
    cov = proof_coverage(ctx, {
        'evaluations': len(cases) * len(FORMATS) + len(jobs),
        'distinct_nontrivial': distinct + len({(j['ws'], j['fail_level'], j['format']) for j in jobs}),
        'rule': 'reporter cases: distinct (colour mode, report) pairs with at least one violation, each through 7 reporters; '
                'binary runs: distinct (workspace, fail level, format/command line) triples',
        'reporter_cases': len(cases), 'violations_per_report_histogram': hist,
        'violations_total': sum(nviol), 'distinct_texts': len(texts), 'texts_longer_than_cut': cut_cases,
        'texts_where_byte_117_is_inside_a_rune': cut_split,
        'cases_with_notices': sum(1 for c in cases if c['report']['notices']),
        'cases_with_aggregate_violations': sum(1 for c in cases if any(v['isagg'] for v in c['report']['violations'])),
        'cases_with_payload_fields': sum(1 for c in cases if c['report'].get('metrics_j') or c['report'].get('aggregates_j')),
        'colour_mode_cases': sum(1 for c in cases if not c['nocolor']),
        'binary_runs': len(jobs), 'binary_exit_histogram': exit_hist,
        'output_channel': chan_stats,
        'mismatch_model_reporters': sum(len(v) for v in model.values()),
        'predicate_failures_harness': sum(1 for v in pred_fail.values() for d in v.values() if finding_kind(d) != 'format-omits-rule-and-level'),
        'known_finding_hits_compact_omits_rule_and_level': sum(1 for v in pred_fail.values() for d in v.values() if finding_kind(d) == 'format-omits-rule-and-level'),
        'predicate_failures_coq': sum(len(v) for v in spec.values()),
        'internal_consistency': {
            'checked_documents_reporter_level': len(cases) * len(FORMATS),
            'checked_documents_binary_level': sum(1 for j in jobs if j.get('doc') is not None and not is_err(j['doc'])),
            'failures_reporter_level': sum(1 for v in pred_fail.values() for d in v.values() if finding_kind(d).startswith('inconsistent-')),
            'failures_binary_level': sum(1 for j in jobs if ((j.get('parsed') or {}).get('pred') or {}).get('ok') is False
                                         and j.get('doc') is not None and not is_err(j['doc'])),
            'sarif_results_with_rule_index': sum(1 for c in cases if not is_err(c['docs'].get('sarif'))
                                                 for x in (c['docs']['sarif'].get('results') or []) if x.get('index') is not None),
            'sarif_documents_where_rules_are_not_in_sorted_order': sum(
                1 for c in cases if not is_err(c['docs'].get('sarif')) and
                [r['id'] for r in c['docs']['sarif'].get('rules') or []] != sorted(r['id'] for r in c['docs']['sarif'].get('rules') or [])),
            'selftest_perturbations_flagged': '%d/%d' % (len(selftest) - len(st_missed), len(selftest))},
        'mismatch_model_exit': len(e1), 'exit_spec_failures': len(e2),
        'binary_stdout_predicate_failures': sum(len(v) for v in bspec.values()),
        'samples': [c.get('q') for c in cases[9:12]] + [{'ws': j['ws'], 'cmd': ' '.join(j['args']), 'status': j['status']} for j in jobs[:3]],
        'timing': timing,
        'exhaustive': False,
    })
    return vlib.finish(ctx, 'proof', cov, [
        'layout of the outputs (table padding, XML/JSON escaping and indentation, ANSI wrappers) is read back by the harness parsers '
        '(encoding/xml, encoding/json, line regexps): trusted glue, not modelled',
        'tablewriter pads cells and re-flows the compact description: values are compared modulo trailing spaces, compact descriptions '
        'modulo runs of spaces; cells containing a newline are outside the modelled domain',
        'report ints are non-negative (N); free-form payloads (aggregates, metrics, ignore_directives, profile) are opaque JSON values',
        'jsoniter/encoding-json byte-level escaping, go-sarif and go-junit-report serialisation are validated by this correspondence only',
        'cobra flag parsing and linter.Lint are oracles of Model/Exit.v (lint_result); GITHUB_STEP_SUMMARY output and the regal_standalone hint are not modelled',
        'output channel: the results of open(2)/write(2) are oracles (io_result) of Model/Exit.lint_fn; failing devices are /dev/full, a file '
        'size limit (RLIMIT_FSIZE with SIGXFSZ ignored: write fails with EFBIG at a chosen byte) and paths that cannot be opened; a read-only '
        'directory is exercised only when the check does not run as root',
    ])
