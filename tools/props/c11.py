"""C11: automatic fixes never change what a policy means.

The harness (harness/cmd/c11) calls the three text fixes of pkg/fixer/fixes on generated (content, locations)
pairs and runs the whole Fixer.Fix loop on generated modules.  Here:
  * correspondence: every unit call is recomputed by Model/Fixes.v (uao_fix/nwc_fix/nrr_fix) inside Coq; every
    use-assignment-operator violation the linter reported is recomputed by the model of the rule-side column
    (operator_col), and every location handed to a text fix is checked to be the documented byte, in code
    (model lexer, itself compared with the parser's comment/string positions);
  * predicate on the implementation alone (computed by the harness): the fixed module parses, its AST equals the
    original's modulo the documented effects, every changed line is explained by documented splices, opa-fmt alone
    gives OPA's formatter output;
  * state between the files of ONE run: (a) one instance of the Fmt fix (opa-fmt / use-rego-v1 of
    fixes.NewDefaultFixes(), or built with options as the language server does) formats 2-5 candidates mixing v0 and
    v1 modules in every order; result and the RegoVersion left in its options after every call are recomputed by
    Model/Fixes.v fmt_fix (parser and OPA's formatter tabulated by the harness without the fix); predicate: same
    result as a fresh instance, parses under the file's version, equals OPA's formatter output for that version;
    (b) Fixer.Fix over file sets mixing v0 and v1 modules (versions through roots / detected / both) x 10 rule
    subsets, the single-file predicate per file under ITS version + every step of every file (contents linted in each
    iteration) is OPA's formatter output for the file's version or documented splices of the enabled text fixes;
  * multi-byte text before the fix column incl. characters outside of the BMP: grid fix kind x 1..4 such characters
    x decoy (=, #, ", :=) inside a string 1..6 characters to the left of the fix column, through Fixer.Fix."""
import base64, collections, json, os, re
import vlib
from vlib import clist
from common import proof_gate, proof_coverage

KIND = {'uao': 'KUao', 'nwc': 'KNwc', 'nrr': 'KNrr'}
VK = {'use-assignment-operator': 'VUao', 'no-whitespace-comment': 'VNwc', 'non-raw-regex-pattern': 'VNrr'}


class Enc:
    """distinct byte strings become named definitions [sK := packed [...]] (Base/StrLit.v)"""

    def __init__(self):
        self.names = {}
        self.defs = []

    def name(self, b):
        if b in self.names:
            return self.names[b]
        n = 's%d' % len(self.names)
        self.names[b] = n
        words = [len(b)]
        for i in range(0, len(b), 7):
            words.append(int.from_bytes(b[i:i + 7].ljust(7, b'\0'), 'big'))
        self.defs.append('Definition %s := packed [%s]%%uint63.' % (n, ';'.join(map(str, words))))
        return n


def zlit(n):
    return '(%d)%%Z' % n


def locs_v(locs):
    return clist('{| l_row := %s; l_col := %s |}' % (zlit(l['row']), zlit(l['col'])) for l in (locs or []))


def unit_v(E, c):
    obs = {'none': 'UNone', 'panic': 'UPanic', 'error': 'UError'}.get(c['status'])
    if c['status'] == 'changed':
        obs = '(UChanged %s)' % E.name(base64.b64decode(c['out']))
    return '{| u_fix := %s; u_content := %s; u_locs := %s; u_obs := %s |}' % (
        KIND[c['fix']], E.name(base64.b64decode(c['content'])), locs_v(c['locs']), obs)


def mod_v(E, c):
    viol = clist('{| v_kind := %s; v_row := %s; v_col := %s |}' % (VK.get(v['title'], 'VOther'), zlit(v['row']), zlit(v['col']))
                 for v in (c.get('viol') or []))
    heads = clist('{| h_row := %s; h_col := %s; h_vrow := %s; h_vcol := %s; h_assign := %s |}' % (
        zlit(h['row']), zlit(h['col']), zlit(h['vrow']), zlit(h['vcol']), vlib.cbool(h['assign'])) for h in (c.get('heads') or []))
    com = clist('(%s, %s)' % (zlit(r), zlit(k)) for r, k in (c.get('comments') or []))
    strs = clist('(%s, %s, %s)' % (zlit(r), zlit(k), vlib.cbool(raw == 1)) for r, k, raw in (c.get('strings') or []))
    return '{| m_content := %s; m_viol := %s; m_heads := %s; m_comments := %s; m_strings := %s |}' % (
        E.name(base64.b64decode(c['content'])), viol, heads, com, strs)


RV = {'undef': 'RvUndef', 'v0': 'RvV0', 'v0v1': 'RvV0CompatV1', 'v1': 'RvV1'}


def seq_v(E, c):
    """one sequence of calls on one instance of the Fmt fix -> Check.C11Check.fmt_seq"""
    steps = []
    for st in c['steps']:
        cand = '{| fc_name := %s; fc_contents := %s; fc_version := %s |}' % (
            E.name(st['file'].encode()), E.name(base64.b64decode(st['content'])), RV[st['cfg']])
        parsed = 'None' if st['parsed'] == 'err' else '(Some %s)' % RV[st['parsed']]
        table = clist('(%s, %s)' % (RV[k], 'None' if v == '!' else '(Some %s)' % E.name(base64.b64decode(v)))
                      for k, v in sorted(st['table'].items()))
        out = {'none': 'FmtNone', 'error': 'FmtErr', 'panic': 'FmtErr'}.get(st['status'])
        if st['status'] == 'changed':
            out = '(FmtChanged %s)' % E.name(base64.b64decode(st['out']))
        steps.append('{| fo_cand := %s; fo_parsed := %s; fo_table := %s; fo_out := %s; fo_state := %s |}' % (
            cand, parsed, table, out, RV[st['state']]))
    other = max([st.get('other', 0) for st in c['steps']] or [0])
    return '{| fq_init := %s; fq_other := %d; fq_steps := %s |}' % (RV[c['init']], other, clist(steps))


def dec(s):
    return base64.b64decode(s or '').decode('utf-8', 'backslashreplace')


def run_harness(ctx, h, replay=None, tag='c11'):
    out = os.path.join(ctx.tmp, tag + '.jsonl')
    corpus = os.path.join(vlib.VERIF, 'corpus', 'C11')
    cmd = [h, out, ctx.tier, corpus if os.path.isdir(corpus) else '-']
    if replay:
        cmd.append(replay)
    rc, log = vlib.run(cmd, env=dict(os.environ, VERIF_SEED=str(ctx.seed)), timeout=3000)
    if rc != 0:
        raise RuntimeError('c11 harness failed: ' + log[-2000:])
    return [json.loads(l) for l in open(out)]


SHORT = {'use-assignment-operator': 'uao', 'no-whitespace-comment': 'nwc', 'non-raw-regex-pattern': 'nrr'}


def lsp_units(ctx, mods):
    """every text-fix violation of the first lint of every module, through the language server's fixEditParams
    (overlay test in internal/lsp); the outcome is compared with the model like any other unit call"""
    cases = []
    seen = set()
    for c in mods:
        for v in c.get('viol') or []:
            fx = SHORT.get(v['title'])
            if not fx or v['row'] < 1 or v['col'] < 1:
                continue
            key = (fx, c['content'], v['row'], v['col'])
            if key in seen:
                continue
            seen.add(key)
            cases.append({'id': len(cases), 'fix': fx, 'content': c['content'], 'row': v['row'], 'col': v['col'],
                          'erow': v['erow'], 'ecol': v['ecol']})
    cap = 160 if ctx.quick() else 2500
    cases = cases[:cap]
    for i, c in enumerate(cases):
        c['id'] = i
    if not cases:
        return []
    inp = os.path.join(ctx.tmp, 'c11_lsp_in.jsonl')
    outp = os.path.join(ctx.tmp, 'c11_lsp_out.jsonl')
    with open(inp, 'w') as f:
        for c in cases:
            f.write(json.dumps(c) + '\n')
    rc, log = vlib.go_test_overlay(
        ctx, './internal/lsp',
        {'internal/lsp/zz_verif_c11_test.go': os.path.join(vlib.VERIF, 'harness', 'overlay', 'c11_test.go')},
        'TestVerifC11', env_extra={'VERIF_C11_IN': inp, 'VERIF_C11_OUT': outp}, timeout=1500)
    if rc != 0:
        if 'build failed' in log or ('cannot' in log and '.go:' in log):
            raise vlib.HarnessBuildError(log)
        raise RuntimeError('c11 overlay test failed:\n' + log[-3000:])
    res = {}
    for l in open(outp):
        o = json.loads(l)
        res[o['id']] = o
    out = []
    for c in cases:
        o = res.get(c['id'])
        if o is None:
            raise RuntimeError('c11 overlay test: no result for case %d' % c['id'])
        st = o['status'] if o['status'] in ('none', 'changed', 'panic') else 'error'
        out.append({'kind': 'unit', 'fix': c['fix'], 'content': c['content'], 'src': 'lsp', 'status': st, 'out': o.get('out', ''),
                    'locs': [{'row': c['row'], 'col': c['col'], 'erow': c['erow'], 'ecol': c['ecol']}], 'pred': '',
                    'lsp_msg': o.get('msg', '')})
    return out


def e2e_bad(c):
    """why the implementation fails the property on this module ('' = it does not)"""
    if not c.get('parse_ok'):
        return ''
    if c.get('err'):
        return 'fix-error:' + c['err']
    if c.get('pred'):
        p = c['pred']
        return 'predicate:' + (re.sub(r'\d+', 'N', p))
    if c.get('fmt_eq') in ('neq', 'fmterr'):
        return 'fmt-oracle:' + c['fmt_eq']
    return ''


def minimise(ctx, h, c, why):
    """greedy line removal while the same failure class persists (bounded number of replays)"""
    content = base64.b64decode(c['content']).decode('utf-8', 'surrogateescape')
    lines = content.split('\n')
    best = c
    budget = 24
    i = len(lines) - 1
    while i >= 0 and budget > 0:
        if lines[i].startswith('package '):
            i -= 1
            continue
        cand = lines[:i] + lines[i + 1:]
        cc = dict(c)
        cc['content'] = base64.b64encode('\n'.join(cand).encode('utf-8', 'surrogateescape')).decode()
        rp = os.path.join(ctx.tmp, 'min_%d.json' % budget)
        json.dump({'case': cc}, open(rp, 'w'))
        budget -= 1
        try:
            res = run_harness(ctx, h, replay=rp, tag='min')
        except RuntimeError:
            i -= 1
            continue
        if res and e2e_bad(res[0]) == why:
            lines = cand
            best = res[0]
        i -= 1
    return best


def multi_bad(c):
    """why the implementation fails the property on this file set ('' = it does not)"""
    if not c.get('parse_ok'):
        return ''
    if c.get('err'):
        return 'fix-error:' + c['err']
    if c.get('pred'):
        return 'predicate:' + re.sub(r'\d+', 'N', c['pred'])
    return ''


def replay_one(ctx, h, case, tag):
    rp = os.path.join(ctx.tmp, tag + '.json')
    json.dump({'case': case}, open(rp, 'w'))
    try:
        res = run_harness(ctx, h, replay=rp, tag=tag)
    except RuntimeError:
        return None
    return res[0] if res else None


def minimise_multi(ctx, h, c, why):
    """drop whole files while the same failure class persists (a failure that needs several files keeps them)"""
    best = c
    i = len(best['files']) - 1
    budget = 6
    while i >= 0 and budget > 0 and len(best['files']) > 1:
        cc = dict(best)
        cc['files'] = best['files'][:i] + best['files'][i + 1:]
        budget -= 1
        r = replay_one(ctx, h, cc, 'minm_%d' % budget)
        if r is not None and multi_bad(r) == why:
            best = r
        i -= 1
    return best


def seq_bad(c):
    return re.sub(r'\d+', 'N', c['pred']) if c.get('pred') else ''


def minimise_seq(ctx, h, c, why):
    """drop calls of the sequence while the same failure class persists"""
    best = c
    i = len(best['steps']) - 1
    budget = 8
    while i >= 0 and budget > 0 and len(best['steps']) > 1:
        cc = dict(best)
        cc['steps'] = best['steps'][:i] + best['steps'][i + 1:]
        budget -= 1
        r = replay_one(ctx, h, cc, 'mins_%d' % budget)
        if r is not None and seq_bad(r) == why:
            best = r
        i -= 1
    return best


def run(ctx):
    h = vlib.build_harness(ctx, 'c11')
    cases = run_harness(ctx, h, replay=ctx.replay)
    units = [c for c in cases if c['kind'] == 'unit']
    e2e = [c for c in cases if c['kind'] == 'e2e']
    mods = [c for c in e2e if c.get('parse_ok')]
    seqs = [c for c in cases if c['kind'] == 'seq']
    multi = [c for c in cases if c['kind'] == 'multi']

    # the editor code-action path (internal/lsp fixEditParams) on the locations the linter reported
    lsp_cases = lsp_units(ctx, mods) if not ctx.replay else []
    units = units + lsp_cases

    E = Enc()
    uv = [unit_v(E, c) for c in units]
    mv = [mod_v(E, c) for c in mods]
    qv = [seq_v(E, c) for c in seqs]
    # self-test of the sequence comparison: another version left in the options must be flagged
    pq = next((c for c in seqs if c['steps'] and c['steps'][-1]['state'] == 'v0v1'), None)
    pq_v = None
    if pq is not None:
        pc = json.loads(json.dumps(pq))
        pc['steps'][-1]['state'] = 'v1'
        pq_v = seq_v(E, pc)
    pert = next((c for c in units if c['status'] == 'changed'), None)
    pert_v = None
    if pert is not None:
        pc = dict(pert)
        pc['out'] = base64.b64encode(base64.b64decode(pert['out']) + b' ').decode()
        pert_v = unit_v(E, pc)
    v = ['From Coq Require Import Uint63.', 'From Regal Require Import Check.C11Check.', 'Open Scope N_scope.'] + E.defs
    CH = 400
    chunks = []
    for k in range(0, len(uv), CH):
        v.append('Definition units_%d : list unit_case := %s.' % (k // CH, clist(uv[k:k + CH])))
        chunks.append('units_%d' % (k // CH))
    v.append('Definition units := %s.' % (' ++ '.join(chunks) if chunks else '(@nil unit_case)'))
    v.append('Definition mods : list mod_case := %s.' % clist(mv))
    v.append('Definition R1 := Eval vm_compute in failing unit_agrees 0 units.')
    v.append('Definition R2 := Eval vm_compute in failing mod_ok 0 mods.')
    v.append('Definition seqs : list fmt_seq := %s.' % clist(qv))
    v.append('Definition R4 := Eval vm_compute in failing fmt_seq_agrees 0 seqs.')
    v.append('Definition R5 := %s.' % ('Eval vm_compute in failing fmt_seq_agrees 0 [%s]' % pq_v if pq_v is not None else '[0]%nat'))
    # self-test of the comparison: a perturbed observation must be flagged
    if pert_v is not None:
        v.append('Definition R3 := Eval vm_compute in failing unit_agrees 0 [%s].' % pert_v)
    else:
        v.append('Definition R3 := [0]%nat.')
    v.append('Print R1. Print R2. Print R3. Print R4. Print R5.')
    rc, cout = vlib.coq_eval(ctx, 'Cases_C11', '\n'.join(v))
    if rc != 0:
        raise RuntimeError('case evaluation failed:\n' + cout[-3000:])
    r1 = vlib.parse_nat_list(cout, 'R1')
    r2 = vlib.parse_nat_list(cout, 'R2')
    r4 = vlib.parse_nat_list(cout, 'R4')
    if r1 is None or r2 is None or r4 is None:
        raise RuntimeError('could not read the results of the case evaluation:\n' + cout[-2000:])
    if vlib.parse_nat_list(cout, 'R3') != [0]:
        raise RuntimeError('self-test failed: a perturbed observation was not flagged by Check.C11Check.unit_agrees')
    if vlib.parse_nat_list(cout, 'R5') != [0]:
        raise RuntimeError('self-test failed: a perturbed option state was not flagged by Check.C11Check.fmt_seq_agrees')

    # ---- verdicts: the predicate on the implementation first (concrete failing inputs) ----------------
    classes = collections.Counter()
    reported = set()
    for c in e2e:
        why = e2e_bad(c)
        if not why:
            continue
        classes[why] += 1
        key = (why, tuple(c['rules']))
        if key in reported or len(reported) >= 4:
            continue
        reported.add(key)
        m = minimise(ctx, h, c, why) if not ctx.replay else c
        vlib.violation(ctx, {'kind': why, 'case': m, 'content': dec(m['content']), 'result': dec(m.get('final')),
                             'rules': m['rules'], 'v0': m['v0'], 'errmsg': m.get('errmsg', ''),
                             'what': 'Fixer.Fix with rules %s on this module: %s' % (m['rules'], why)},
                       signature={'kind': why, 'key': json.dumps([m['rules'], m['v0'], dec(m['content'])], sort_keys=True)})

    # several files in one run
    for c in multi:
        why = multi_bad(c)
        if not why:
            continue
        classes['multi:' + why] += 1
        key = ('multi', why, tuple(c['rules']))
        if key in reported or len(reported) >= 5:
            continue
        reported.add(key)
        m = minimise_multi(ctx, h, c, why) if not ctx.replay else c
        fs = [{'path': f['path'], 'version': 'v0' if f['v0'] else 'v1', 'configured': f['cfg'], 'content': dec(f['content']),
               'result': dec(f.get('final')), 'applied': f.get('applied'), 'verdict': f.get('pred') or f.get('fmt_eq')} for f in m['files']]
        vlib.violation(ctx, {'kind': 'multi:' + why, 'case': m, 'files': fs, 'rules': m['rules'], 'versions': m['mode'],
                             'bad_file': m.get('bad_file'), 'errmsg': m.get('errmsg', ''),
                             'what': 'ONE Fixer.Fix run with rules %s over these files (versions: %s): %s' % (m['rules'], m['mode'], why)},
                       signature={'kind': 'multi:' + why, 'key': json.dumps([m['rules'], m['mode'], [[f['path'], f['content']] for f in fs]], sort_keys=True)})
    # one instance of the Fmt fix used for several files
    for c in seqs:
        why = seq_bad(c)
        if not why:
            continue
        classes['seq:' + why] += 1
        key = ('seq', why, c['inst'])
        if key in reported or len(reported) >= 6:
            continue
        reported.add(key)
        m = minimise_seq(ctx, h, c, why) if not ctx.replay else c
        calls = [{'file': st['file'], 'configured': st['cfg'], 'module_version': st['parsed'], 'content': dec(st['content']),
                  'status': st['status'], 'result': dec(st.get('out')), 'version_left_in_options': st['state'],
                  'same_call_on_fresh_instance': st['fresh'], 'verdict': st['pred']} for st in m['steps']]
        vlib.violation(ctx, {'kind': 'seq:' + why, 'case': m, 'instance': m['inst'], 'options_before': m['init'], 'calls': calls,
                             'what': 'the %s fix instance of fixes.NewDefaultFixes() (or one built with these options) formatting '
                                     'these files in this order: %s' % (m['inst'], m['pred'])},
                       signature={'kind': 'seq:' + why, 'key': json.dumps([m['inst'], m['init'], [[x['file'], x['configured'], x['content']] for x in calls]], sort_keys=True)})

    for c in units:
        why = ''
        if c['status'] == 'panic':
            why = 'fix-panics'
        elif c.get('src') == 'lsp' and c['status'] == 'error':
            why = 'lsp-code-action-fails'
        elif c['status'] == 'changed' and c.get('pred'):
            why = 'unit:' + re.sub(r'\d+', 'N', c['pred'])
        if why:
            classes[why] += 1
            key = (why, c['fix'])
            if key in reported or len(reported) >= 6:
                continue
            reported.add(key)
            vlib.violation(ctx, {'kind': why, 'case': c, 'content': dec(c['content']), 'out': dec(c.get('out')),
                                 'what': 'pkg/fixer/fixes %s on this content and these locations: %s' % (c['fix'], why)},
                           signature={'kind': why, 'key': json.dumps([c['fix'], dec(c['content']), c['locs']], sort_keys=True)})
    # ---- correspondence ------------------------------------------------------------------------------------
    det = {}
    for i in r2[:3]:
        det[i] = mod_details(ctx, E, mv[i])
        c = mods[i]
        if det[i]['targets']:
            vs = [c['viol'][j] for j in det[i]['targets']]
            classes['location-not-the-documented-byte'] += 1
            vlib.violation(ctx, {'kind': 'location-not-the-documented-byte', 'case': c, 'content': dec(c['content']), 'violations': vs,
                                 'what': 'the linter handed a location to a text fix that is not the documented byte in code '
                                         '(byte differs, or it is inside a string or comment)'},
                           signature={'kind': 'location-not-the-documented-byte',
                                      'key': json.dumps([dec(c['content']), vs], sort_keys=True)})
        elif not ctx.violations:
            vlib.violation(ctx, {'kind': 'correspondence', 'relation': 'Check.C11Check.mod_ok: operator_col (model of '
                                 'use_assignment_operator.rego _operator_location) / model lexer vs parser positions',
                                 'case': c, 'content': dec(c['content']), 'details': det[i]}, no_input=True)
    if r1 and not ctx.violations:
        c = units[r1[0]]
        vlib.violation(ctx, {'kind': 'correspondence', 'relation': 'Check.C11Check.unit_agrees (Model/Fixes.v vs pkg/fixer/fixes)',
                             'case': c, 'content': dec(c['content']), 'observed_out': dec(c.get('out')), 'n_mismatches': len(r1)},
                       no_input=True)
    if r4 and not ctx.violations:
        c = seqs[r4[0]]
        vlib.violation(ctx, {'kind': 'correspondence', 'relation': 'Check.C11Check.fmt_seq_agrees (Model/Fixes.v fmt_fix: result and '
                             'RegoVersion left in the options of the Fmt fix, vs pkg/fixer/fixes/fmt.go)',
                             'case': c, 'n_mismatches': len(r4)}, no_input=True)
    proof_gate(ctx)

    changed = [c for c in units if c['status'] == 'changed']
    withv = [c for c in mods if c.get('viol')]
    fixed = [c for c in mods if c.get('final') and c['final'] != c['content']]
    distinct = len({(c['fix'], c['content'], json.dumps(c['locs'])) for c in changed}) + len({c['content'] for c in fixed})
    hist = collections.Counter()
    for c in mods:
        hist['/'.join(c['rules']) + (' v0' if c['v0'] else '')] += 1
    cov = proof_coverage(ctx, {
        'evaluations': len(units) + len(e2e) + len(multi) + sum(len(c['steps']) for c in seqs),
        'distinct_nontrivial': distinct,
        'rule': 'unit: every column (and start/end pair) around every line of a fixed pool of 43 lines with =, #, quotes, escapes, '
                'multi-byte and invalid UTF-8 text, CR, for each of the 3 fixes (exhaustive), rows out of range, several locations, '
                'plus random combinations; e2e: generated modules (rule heads with =/:=, args and keys with =,# and quotes inside strings, '
                'else chains, multi-line heads, comments, regex calls with escapes/backticks/multi-byte patterns, CRLF, v0) x 12 subsets '
                'of the fixable rules through Fixer.Fix. distinct = distinct unit calls that changed the content + distinct modules '
                'that Fixer.Fix changed. astral: grid fix kind x k in 1..4 characters outside of the BMP (alone / with 2- and 3-byte '
                'characters) x distance 1..6 of a decoy (=, #, ", :=) inside a string to the left of the fix column. multi: file sets '
                'mixing v0 and v1 modules (versions by roots / detected / both) x 10 rule subsets in ONE Fixer.Fix run, per-file predicate + per-step oracle. '
                'seq: one Fmt fix instance over 2-5 candidates in every order, result and options state after every call vs model',
        'unit_cases': len(units), 'unit_cases_through_lsp_code_action': len(lsp_cases), 'unit_changed': len(changed), 'unit_status': dict(collections.Counter(c['fix'] + ':' + c['status'] for c in units)),
        'modules': len(e2e), 'modules_lintable': len(mods), 'modules_with_violations': len(withv), 'modules_changed': len(fixed),
        'violations_located': sum(len(c.get('viol') or []) for c in mods),
        'iterations_histogram': dict(collections.Counter(str(c.get('iters')) for c in mods)),
        'rule_subsets': dict(hist),
        'fmt_oracle': dict(collections.Counter(c.get('fmt_eq') or 'n/a' for c in mods)),
        'astral_modules': dict(collections.Counter('/'.join(c['rules']) for c in mods if c.get('src', '').startswith('astral'))),
        'astral_violations_located': sum(len(c.get('viol') or []) for c in mods if c.get('src', '').startswith('astral')),
        'multi_file_runs': len(multi), 'multi_file_runs_lintable': len([c for c in multi if c.get('parse_ok')]),
        'multi_versions_by': dict(collections.Counter(c['mode'] for c in multi)),
        'multi_rule_subsets': dict(collections.Counter('/'.join(c['rules']) for c in multi)),
        'multi_files': dict(collections.Counter(('v0' if f['v0'] else 'v1') + ' cfg=' + f['cfg'] + ' applied=' + ','.join(sorted(set(f.get('applied') or [])))
                                                for c in multi for f in c['files'])),
        'multi_fmt_oracle': dict(collections.Counter(f.get('fmt_eq') or 'n/a' for c in multi for f in c['files'])),
        'fmt_instance_sequences': len(seqs), 'fmt_instance_calls': sum(len(c['steps']) for c in seqs),
        'fmt_instance_calls_by': dict(collections.Counter('%s cfg=%s module=%s %s -> options %s' % (c['inst'], st['cfg'], st['parsed'], st['status'], st['state'])
                                                          for c in seqs for st in c['steps'])),
        'mismatch_model_fmt_sequences': len(r4),
        'mismatch_model_unit': len(r1), 'mismatch_model_rule_side': len(r2), 'predicate_failures': dict(classes),
        'samples': [
            {'fix': changed[0]['fix'], 'content': dec(changed[0]['content']), 'locs': changed[0]['locs'], 'out': dec(changed[0]['out'])} if changed else None,
            {'rules': fixed[len(fixed) // 2]['rules'], 'content': dec(fixed[len(fixed) // 2]['content']),
             'result': dec(fixed[len(fixed) // 2]['final'])} if fixed else None,
        ],
        'exhaustive': False,
    })
    return vlib.finish(ctx, 'proof', cov, [
        'OPA parser (positions of head values, comments, strings), formatter and linter evaluation are oracles; the value of '
        'head.value.location and "the operator precedes the value" are validated by the correspondence, not proved',
        'the Rego rule bodies (which heads/comments/patterns are flagged) are not modelled: only the column they report',
        'the language-server code action calls the same Fix functions with the location rebuilt from the diagnostic range '
        '(start line/character + 1): covered by the unit-level theorems for all locations, not driven through the server here',
        'UTF-8 decoding as Go does it is modelled (rune_width) and validated by the unit correspondence incl. invalid bytes',
        'Fmt fix: the parser (module version) and OPA formatter are oracles of the model; the theorems hold for every oracle, the '
        'correspondence tabulates them per candidate (harness\' own parse, format.AstWithOpts called directly for every target version); '
        'the order in which the linter reports the violations of different files is not controlled in the Fixer.Fix runs (all orders are '
        'driven at the level of the shared fix instance)',
    ])


def mod_details(ctx, E, mdef):
    v = ['From Coq Require Import Uint63.', 'From Regal Require Import Check.C11Check.', 'Open Scope N_scope.'] + E.defs + [
        'Definition M := %s.' % mdef,
        'Definition D1 := Eval vm_compute in fst (fst (mod_report M)).',
        'Definition D2 := Eval vm_compute in snd (fst (mod_report M)).',
        'Definition D3 := Eval vm_compute in (if snd (mod_report M) then [1] else [0])%nat.',
        'Print D1. Print D2. Print D3.']
    rc, out = vlib.coq_eval(ctx, 'Det_C11', '\n'.join(v))
    return {'unexplained': vlib.parse_nat_list(out, 'D1') or [], 'targets': vlib.parse_nat_list(out, 'D2') or [],
            'lexer_ok': vlib.parse_nat_list(out, 'D3') == [1]}
