"""C09: two-phase (collect, then report) aggregate linting equals one-shot linting."""
import collections, json, os, re
import vlib
from vlib import clist, cbool
from common import proof_gate, proof_coverage
from c06 import Interner, c_comment, c_viol

MODE = {'oneshot': 'OneShot', 'twophase': 'TwoPhase', 'twophase-nodirs': 'TwoPhaseNoDirs'}
CLIENT = ('client', 'client-mixed')


def nlist(xs):
    return '[' + '; '.join(str(x) for x in xs) + ']'


def run(ctx):
    h = vlib.build_harness(ctx, 'c09')
    out = os.path.join(ctx.tmp, 'c09.jsonl')
    wd = os.path.join(ctx.tmp, 'wd')
    os.makedirs(wd)
    cmd = [h, out, ctx.tier, wd]
    replaying = False
    if ctx.replay:
        rp = json.load(open(ctx.replay))
        if 'case' in rp and 'run' in rp['case']:
            cmd.append(ctx.replay)
            replaying = True
    rc, log = vlib.run(cmd, env=dict(os.environ, VERIF_SEED=str(ctx.seed)), timeout=3000)
    if rc != 0:
        raise RuntimeError('c09 harness failed: ' + log[-3000:])
    recs = [json.loads(l) for l in open(out)]
    by = collections.defaultdict(list)
    for r in recs:
        by[r['kind']].append(r)
    aggs = {a['id']: a for a in by['agg']}
    agg_by_json = {a['json']: a['id'] for a in by['agg']}
    wss = by['ws']

    # the aggregate rules of the bundle, from the source tree: the harness must exercise all of them
    bundled = set()
    rroot = os.path.join(vlib.REPO, 'bundle', 'regal', 'rules')
    for cat in sorted(os.listdir(rroot)):
        cdir = os.path.join(rroot, cat)
        if not os.path.isdir(cdir):
            continue
        for title in sorted(os.listdir(cdir)):
            tdir = os.path.join(cdir, title)
            if not os.path.isdir(tdir):
                continue
            for fn in os.listdir(tdir):
                if fn.endswith('.rego') and not fn.endswith('_test.rego'):
                    if re.search(r'^aggregate_report\b', open(os.path.join(tdir, fn)).read(), re.M):
                        bundled.add('%s/%s' % (cat, title))
    exercised = set(wss[0]['brules']) if wss else set()
    rules_out_of_date = sorted(bundled ^ exercised) if not replaying else []

    # ---- the language server's cache and incremental path (overlay test inside /repo/internal/lsp)
    ov = []
    if not replaying:
        ov_in = os.path.join(ctx.tmp, 'c09_overlay_in.json')
        ov_out = os.path.join(ctx.tmp, 'c09_overlay_out.jsonl')
        hist = collections.defaultdict(list)
        for hr in by['history']:
            hist[hr['ws']].append({'states': hr['states'], 'lsp': bool(hr.get('lsp'))})
        json.dump({
            'rules_dir': os.path.join(wd, 'rules'),
            'enable': [k.split('/')[1] for k in wss[0]['brules'] + wss[0]['ckeys']],
            'agg_titles': [k.split('/')[1] for k in wss[0]['brules']],
            'thorough': ctx.tier == 'thorough',
            'workspaces': [{'ws': w['ws'], 'files': [{'id': f['id'], 'name': f['name'], 'text': f['text']} for f in w['files']],
                            'histories': hist[w['ws']]} for w in wss
                           if w['brules'] == wss[0]['brules'] and w['ckeys'] == wss[0]['ckeys']],
        }, open(ov_in, 'w'))
        rc, log = vlib.go_test_overlay(ctx, './internal/lsp',
                                       {'internal/lsp/zz_verif_c09_test.go': os.path.join(vlib.HARNESS, 'overlay', 'c09_test.go')},
                                       'TestVerifC09$', timeout=2400,
                                       env_extra={'VERIF_C09_IN': ov_in, 'VERIF_C09_OUT': ov_out})
        if not os.path.exists(ov_out) or (rc != 0 and 'overlay-error' not in open(ov_out).read()):
            if '[build failed]' in log or 'cannot find' in log or not os.path.exists(ov_out):
                raise vlib.HarnessBuildError(log)
            raise RuntimeError('c09 overlay test failed: ' + log[-3000:])
        ov = [json.loads(l) for l in open(ov_out)]
    ov_by = collections.defaultdict(list)
    for r in ov:
        ov_by[r['kind']].append(r)

    # ---- Coq case file
    I = Interner()
    body = []
    idx = {}
    per_ws = {}
    for wi, w in enumerate(wss):
        name = w['ws']
        idx[name] = wi
        files = clist(
            '{| cf_id := %d; cf_name := %s; cf_comments := %s; cf_b := %s; cf_c := %s |}' % (
                f['id'], I.s(f['name']), clist(c_comment(I, c) for c in f['comments']),
                clist('(%s, %s)' % (I.s(k), nlist(f['baggs'][k])) for k in w['brules']),
                clist('(%s, %s)' % (I.s(k), ('Some ' + nlist(f['caggs'][k])) if f['cran'][k] else 'None') for k in w['ckeys']))
            for f in w['files'])
        ws_aggs = sorted({i for f in w['files'] for l in list(f['baggs'].values()) + list(f['caggs'].values()) for i in l})
        body.append('Definition W%d_files : list cfile := %s.' % (wi, files))
        per_ws[name] = {'runs': [], 'collects': [], 'caches': [], 'clients': [], 'lsps': [], 'w': w, 'aggs': ws_aggs}
    orc = collections.defaultdict(lambda: ([], []))
    # oracle rows are emitted while a workspace is processed: attribute them by position in the stream
    cur = None
    for r in recs:
        if r['kind'] == 'ws':
            cur = r['ws']
        elif r['kind'] == 'oracle':
            row = '(%s, %s, %s)' % (I.s(r['rule']), nlist(r['ids']), clist(c_viol(I, v) for v in r['viols']))
            orc[cur][1 if r['custom'] else 0].append(row)
    for wi, w in enumerate(wss):
        name = w['ws']
        bt, ct = orc[name]
        ws_aggs = per_ws[name]['aggs']
        body.append('Definition W%d : workspace := {| w_files := W%d_files; w_brules := %s; w_ckeys := %s; '
                    'w_btable := %s; w_ctable := %s; w_src := %s; w_ikey := %s |}.' % (
                        wi, wi, clist(I.s(k) for k in w['brules']), clist(I.s(k) for k in w['ckeys']),
                        clist(bt), clist(ct),
                        clist('(%d, %s)' % (i, I.s(aggs[i]['src'])) for i in ws_aggs),
                        clist('(%d, %s)' % (i, I.s(aggs[i]['ikey'])) for i in ws_aggs)))
    runs = [r for r in by['run'] if not r.get('err')]
    run_errs = [r for r in by['run'] if r.get('err')]
    for r in runs:
        per_ws[r['ws']]['clients' if r['mode'] in CLIENT else 'runs'].append(r)
    collects = [c for c in by['collect'] if not c.get('err')]
    for c in collects:
        per_ws[c['ws']]['collects'].append(c)

    def ids_of_dump(dump):
        out, unknown = [], 0
        for k in sorted(dump):
            l = []
            for js in dump[k]:
                if js in agg_by_json:
                    l.append(agg_by_json[js])
                else:
                    unknown += 1
                    l.append(999999)
            out.append((k, l))
        return out, unknown

    caches = [c for c in ov_by['cache'] if not c.get('err') and not c.get('fresh_err')]
    unknown_entries = 0
    for c in caches:
        c['_dump'], u = ids_of_dump(c['dump'])
        unknown_entries += u
        per_ws[c['ws']]['caches'].append(c)

    lsps = [r for r in ov_by['lsp']]
    for r in lsps:
        per_ws[r['ws']]['lsps'].append(r)

    def cgomap(m):
        return clist('(%s, %s)' % (I.s(f), clist('(%s, %s)' % (I.s(k), clist(I.s(n) for n in (m[f][k] or [])))
                                                  for k in sorted(m[f] or {}))) for f in sorted(m or {}))

    def c_op(o):
        if o['op'] == 'setall':
            return 'OpSetAll ' + nlist(o['ids'])
        if o['op'] == 'setfile':
            return 'OpSetFile %d' % o.get('id', 0)
        return 'OpDelete ' + I.s(o['name'])

    checks = []
    for wi, w in enumerate(wss):
        p = per_ws[w['ws']]
        body.append('Definition runs%d : list run_case := %s.' % (wi, clist(
            '{| rc_mode := %s; rc_parts := %s; rc_obs := %s |}' % (
                MODE[r['mode']], clist(nlist(x) for x in r['parts']), clist(c_viol(I, v) for v in r['obs']))
            for r in p['runs'])))
        body.append('Definition collects%d : list collect_case := %s.' % (wi, clist(
            '{| cc_part := %s; cc_use := %s; cc_keys := %s; cc_obs := %s; cc_dirs := %s |}' % (
                nlist(c['part']), cbool(c['use_collect']),
                clist('(%s, %s)' % (I.s(k), nlist(c['keys'][k])) for k in sorted(c['keys'])),
                clist(c_viol(I, v) for v in c['obs']), cgomap(c.get('dirs') or {}))
            for c in p['collects'])))
        body.append('Definition caches%d : list cache_case := %s.' % (wi, clist(
            '{| kc_ops := %s; kc_state := %s; kc_dump := %s; kc_dirs := %s; kc_report := %s; kc_fresh := %s |}' % (
                clist(c_op(o) for o in c['ops']), nlist(c['state']),
                clist('(%s, %s)' % (I.s(k), nlist(l)) for k, l in c['_dump']), cgomap(c.get('dirs') or {}),
                clist(c_viol(I, v) for v in c['report']), clist(c_viol(I, v) for v in c['fresh']))
            for c in p['caches'])))
        body.append('Definition clients%d : list client_case := %s.' % (wi, clist(
            '{| cl_ops := %s; cl_state := %s; cl_mixed := %s; cl_obs := %s |}' % (
                clist(c_op(o) for o in r['ops']), nlist([i for x in r['parts'] for i in x]),
                ('Some %d' % r['mixed']) if r['mode'] == 'client-mixed' else 'None',
                clist(c_viol(I, v) for v in r['obs']))
            for r in p['clients'])))
        body.append('Definition lsps%d : list lsp_case := %s.' % (wi, clist(
            '{| lc_brules := %s; lc_ops := %s; lc_state := %s; lc_dirs := %s; lc_incr := %s; lc_fresh := %s |}' % (
                clist(I.s(k) for k in w['brules'] if k.split('/')[1] in r['agg_rules']),
                clist(c_op(o) for o in r['ops']), nlist(r['state']), cgomap(r.get('dirs') or {}),
                clist(c_viol(I, v) for v in r['incr_viols']), clist(c_viol(I, v) for v in r['fresh_viols']))
            for r in p['lsps'])))
        for tag, fn, lst in (('Rrun', 'run_agrees', 'runs'), ('Rcons', 'run_model_consistent', 'runs'),
                             ('Rcol', 'collect_agrees', 'collects'), ('Rcolrep', 'collect_report_agrees', 'collects'),
                             ('Rcoldirs', 'collect_dirs_agrees', 'collects'),
                             ('Rcli', 'client_agrees', 'clients'), ('Rclicons', 'client_model_consistent', 'clients'),
                             ('Rcdirs', 'cache_dirs_agrees', 'caches'),
                             ('Rldirs', 'lsp_dirs_agrees', 'lsps'), ('Rlrep', 'lsp_report_agrees', 'lsps'),
                             ('Rlfresh', 'lsp_fresh_agrees', 'lsps'), ('Rlcons', 'lsp_model_consistent', 'lsps'),
                             ('Rdump', 'cache_dump_agrees', 'caches'),
                             ('Rcrep', 'cache_report_agrees', 'caches'), ('Rfresh', 'cache_fresh_agrees', 'caches')):
            nm = '%s%d' % (tag, wi)
            body.append('Definition %s := Eval vm_compute in failing (%s W%d) 0 %s%d.' % (nm, fn, wi, lst, wi))
            checks.append((nm, tag, wi, lst))
    # self-test of the glue: a perturbed observation must be flagged (not a verdict about /repo)
    selftest = []
    for wi, w in enumerate(wss):
        pr = next((r for r in per_ws[w['ws']]['runs'] if r['mode'] == 'twophase' and len(r['obs']) > 1), None)
        if pr is not None:
            body.append('Definition T_run := Eval vm_compute in failing (run_agrees W%d) 0 [{| rc_mode := TwoPhase; rc_parts := %s; rc_obs := %s |}].' % (
                wi, clist(nlist(x) for x in pr['parts']), clist(c_viol(I, v) for v in pr['obs'][1:])))
            selftest.append('T_run')
            break
    body.append(' '.join('Print %s.' % c[0] for c in checks) + ' ' + ' '.join('Print %s.' % t for t in selftest))
    v = ['From Regal Require Import Check.C09Check.', 'Open Scope N_scope.'] + I.defs + body
    rc, cout = vlib.coq_eval(ctx, 'Cases_C09', '\n'.join(v))
    if rc != 0:
        raise RuntimeError('case evaluation failed:\n' + cout[-3000:])
    bad = collections.defaultdict(list)
    for nm, tag, wi, lst in checks:
        p = per_ws[wss[wi]['ws']]
        for i in vlib.parse_nat_list(cout, nm) or []:
            bad[tag].append((wss[wi], p[lst][i]))

    selftest_blind = [t for t in selftest if vlib.parse_nat_list(cout, t) != [0]]

    # ---- verdicts -------------------------------------------------------------------------
    def files_of(w, ids):
        m = {f['id']: f for f in w['files']}
        return [{'id': i, 'name': m[i]['name'], 'text': m[i]['text']} for i in ids]

    # (1) two-phase != one-shot on the implementation's own outputs
    pred_bad = [r for r in runs if r['mode'] == 'twophase' and not r['pred_ok']]
    pred_bad.sort(key=lambda r: (sum(len(p) for p in r['parts']), len(json.dumps(r))))
    for r in pred_bad[:2]:
        w = wss[idx[r['ws']]]
        flat = [i for p in r['parts'] for i in p]
        fs = files_of(w, flat)
        diff = {'two_phase_only': [x for x in r['obs'] if x not in (r.get('oneshot') or [])],
                'one_shot_only': [x for x in (r.get('oneshot') or []) if x not in r['obs']]}
        vlib.violation(ctx, {'kind': 'two-phase-vs-one-shot', 'case': {'run': r, 'files': fs}, 'difference': diff,
                             'what': 'collect per part %s, merged in this order, then WithAggregates(+WithIgnoreDirectives): the '
                                     'aggregate violations differ from one Lint call over the same files' % r['parts']},
                       signature={'kind': 'two-phase-vs-one-shot',
                                  'key': json.dumps([sorted((f['name'], f['text']) for f in fs),
                                                     [[next(f['name'] for f in fs if f['id'] == i) for i in p] for p in r['parts']]])})
    # (1b) a client along a history (ONE directive map updated from every run's export; per-file collects) != one-shot
    cli_bad = [r for r in runs if r['mode'] in CLIENT and not r['pred_ok']]
    cli_bad.sort(key=lambda r: (len(r['ops']), r['mode'], len(json.dumps(r))))
    for r in cli_bad[:1]:
        w = wss[idx[r['ws']]]
        flat = [i for p in r['parts'] for i in p]
        need = flat + [o.get('id', 0) for o in r['ops'] if o['op'] == 'setfile' and o.get('id', 0) not in flat]   # Go omits id 0
        fs = files_of(w, need)
        names = {f['id']: f['name'] for f in fs}
        oid = lambda o: o.get('id', 0) if o['op'] == 'setfile' else None   # Go omits id 0
        diff = {'incremental_only': [x for x in r['obs'] if x not in (r.get('oneshot') or [])],
                'one_shot_only': [x for x in (r.get('oneshot') or []) if x not in r['obs']]}
        vlib.violation(ctx, {'kind': 'incremental-vs-one-shot', 'case': {'run': r, 'files': fs}, 'difference': diff,
                             'what': 'a client that re-lints one file at a time (collect query, export) and keeps ONE map of ignore '
                                     'directives updated from every Report.IgnoreDirectives, after the operations %s: the %s differs '
                                     'from one Lint call over the current files' % (
                                         [(o['op'], o.get('name')) for o in r['ops']],
                                         'run that lints the last file itself WithAggregates + WithIgnoreDirectives(map of before)'
                                         if r['mode'] == 'client-mixed' else 'report-only run WithAggregates + WithIgnoreDirectives')},
                       signature={'kind': 'incremental-vs-one-shot',
                                  'key': json.dumps([[(o['op'], names.get(oid(o)) or o.get('name'),
                                                       next((f['text'] for f in fs if f['id'] == oid(o)), '')) for o in r['ops']],
                                                     r['mode']])})
    # (2) incremental (cache.Cache / language server functions) != fresh
    inc_bad = []
    for c in ov_by['cache']:
        if c.get('err') or c.get('fresh_err') or sorted(map(json.dumps, c['report'])) != sorted(map(json.dumps, c['fresh'])):
            inc_bad.append(c)
    inc_bad.sort(key=lambda c: (len(c['ops']), len(json.dumps(c))))
    seen_sig = set()
    for c in inc_bad:
        w = wss[idx[c['ws']]]
        rep, fresh = c.get('report') or [], c.get('fresh') or []
        missing = sorted({'%s/%s' % (x['cat'], x['title']) for x in fresh if x not in rep})
        extra = sorted({'%s/%s' % (x['cat'], x['title']) for x in rep if x not in fresh})
        sig = {'kind': 'cache-vs-fresh', 'key': json.dumps({'missing_rules': missing, 'extra_rules': extra, 'err': c.get('err', '')})}
        if sig['key'] in seen_sig:
            continue
        seen_sig.add(sig['key'])
        vlib.violation(ctx, {'kind': 'cache-vs-fresh', 'case': {k: c[k] for k in c if k != '_dump'}, 'files': files_of(w, c['state']),
                             'missing_rules': missing, 'extra_rules': extra,
                             'what': 'aggregates kept in cache.Cache (SetAggregates, then SetFileAggregates/Delete per step) and '
                                     'reported with WithAggregates(GetFileAggregates()) differ from a fresh one-shot run over the '
                                     'current files'},
                       signature=sig)
        if len(ctx.violations) >= 3:
            break
    lsp_bad = [r for r in ov_by['lsp'] if r['incr'] != r['fresh']]
    lsp_bad.sort(key=lambda r: (r['step'], len(r['files'])))
    for r in lsp_bad[:1]:
        vlib.violation(ctx, {'kind': 'lsp-incremental-vs-fresh', 'case': r,
                             'what': 'aggregate diagnostics after updateFileDiagnostics + updateAllDiagnostics(aggregatesReportOnly) '
                                     'differ from a cache linted from scratch on the same files'},
                       signature={'kind': 'lsp-incremental-vs-fresh', 'key': json.dumps([r['files'], r['step']])})
    for r in ov_by['overlay-error'][:1]:
        vlib.violation(ctx, {'kind': 'overlay-error', 'case': r}, no_input=True)
    # (3) the hypothesis H_aggperm, observed
    for o in [o for o in by['oracle'] if not o['h_perm']][:1]:
        vlib.violation(ctx, {'kind': 'aggregate-report-order-dependent', 'case': o,
                             'what': 'aggregate_report of %s gives different violations for different orders of the same entries '
                                     '(hypothesis H_aggperm of two_phase_eq_one_shot)' % o['rule']},
                       signature={'kind': 'aggregate-report-order-dependent', 'key': o['rule']})
    # (4) correspondence
    if not ctx.violations:
        names = {'Rrun': 'run_agrees (Lint one-shot / WithAggregates vs Model.AggPipeline)',
                 'Rcons': 'run_model_consistent (the model itself: two_phase = one_shot on the observed tables)',
                 'Rcol': 'collect_agrees (exported Report.Aggregates vs collect)',
                 'Rcolrep': 'collect_report_agrees (aggregate violations reported by a collect run itself)',
                 'Rcoldirs': 'collect_dirs_agrees (Report.IgnoreDirectives of a run: one entry per linted file, also an empty one)',
                 'Rcli': 'client_agrees (per-file collects + ONE directive map along a history vs api_history / api_report)',
                 'Rclicons': 'client_model_consistent (the model itself: api_report after a history = one_shot of the final files)',
                 'Rcdirs': 'cache_dirs_agrees (cache.GetIgnoreDirectives after every step vs lsp_history: a re-linted file '
                           'replaces its entry, also by none)',
                 'Rldirs': 'lsp_dirs_agrees (directive cache after updateFileDiagnostics vs lsp_history)',
                 'Rlrep': 'lsp_report_agrees (aggregate diagnostics of updateAllDiagnostics(aggregatesReportOnly) vs lsp_report)',
                 'Rlfresh': 'lsp_fresh_agrees (aggregate diagnostics of a cache linted from scratch vs one_shot)',
                 'Rlcons': 'lsp_model_consistent (the model itself: lsp_report after a history = one_shot of the final files)',
                 'Rdump': 'cache_dump_agrees (cache.GetFileAggregates vs Model.AggCache)',
                 'Rcrep': 'cache_report_agrees (report from cached aggregates)',
                 'Rfresh': 'cache_fresh_agrees (fresh one-shot in the overlay)'}
        for tag in ('Rcol', 'Rcoldirs', 'Rrun', 'Rcolrep', 'Rcons', 'Rcli', 'Rclicons', 'Rdump', 'Rcdirs', 'Rcrep', 'Rfresh',
                    'Rldirs', 'Rlrep', 'Rlfresh', 'Rlcons'):
            if bad[tag]:
                w, c = min(bad[tag], key=lambda wc: len(json.dumps({k: v for k, v in wc[1].items() if k != '_dump'})))
                vlib.violation(ctx, {'kind': 'correspondence', 'relation': 'Check.C09Check.' + names[tag],
                                     'case': {'run': {k: v for k, v in c.items() if k != '_dump'},
                                              'files': [{'id': f['id'], 'name': f['name'], 'text': f['text']} for f in w['files']]},
                                     'n_mismatches': len(bad[tag])}, no_input=True)
                break
    if rules_out_of_date:
        vlib.violation(ctx, {'kind': 'aggregate-rule-list', 'bundled': sorted(bundled), 'exercised': sorted(exercised),
                             'what': 'the bundled rules defining aggregate_report differ from the rules this check exercises: '
                                     + ', '.join(rules_out_of_date)}, no_input=True)
    if selftest_blind:
        vlib.violation(ctx, {'kind': 'glue-self-test', 'what': 'a perturbed observation was not flagged by ' + ', '.join(selftest_blind)},
                       no_input=True)
    if unknown_entries and not ctx.violations:
        vlib.violation(ctx, {'kind': 'correspondence', 'relation': 'aggregate entries in the cache that no rule produced for any file',
                             'n': unknown_entries}, no_input=True)
    for r in run_errs[:1]:
        vlib.violation(ctx, {'kind': 'lint-error', 'case': r}, no_input=False)
    proof_gate(ctx)

    # ---- evidence -------------------------------------------------------------------------
    hist = collections.Counter()
    for r in runs:
        hist['%s %s parts=%d' % (r['mode'], re.sub(r'\d+\.\d+$', '', r['src']), len(r['parts']))] += 1
    rules_seen = collections.Counter(v['title'] for r in runs for v in r['obs'])
    distinct = len({json.dumps([r['ws'], r['mode'], r['parts'], r.get('ops')]) for r in runs}) + \
        len({json.dumps([c['ws'], c['part'], c['use_collect']]) for c in collects}) + \
        len({json.dumps([c['ws'], c['ops']]) for c in caches}) + len({json.dumps([r['ws'], r['files'], r['step']]) for r in ov_by['lsp']})
    marker_lost = [c for c in ov_by['cache'] if any(x['title'] == 'nothing-aggregated' for x in c.get('fresh') or [])
                   and not any(x['title'] == 'nothing-aggregated' for x in c.get('report') or [])]
    # steps (cache history) in which a re-linted file went from some directives to none
    lost_last = 0
    prev_dirs = {}
    for c in sorted(ov_by['cache'], key=lambda c: (c['ws'], c['history'], c['step'])):
        k = (c['ws'], c['history'])
        before = prev_dirs.get(k, {}) if c['step'] > 0 else {}
        for f, d in (c.get('dirs') or {}).items():
            if not d and before.get(f):
                lost_last += 1
        prev_dirs[k] = c.get('dirs') or {}
    cov = proof_coverage(ctx, {
        'evaluations': len(runs) + len(collects) + len(caches) + len(ov_by['lsp']) + len(by['oracle']),
        'distinct_nontrivial': distinct,
        'rule': 'distinct = distinct (workspace, pipeline mode, ordered partition) runs + distinct collect runs + distinct cache '
                'operation sequences + distinct language-server history steps; oracle rows (direct rule evaluations) not counted',
        'workspaces': [{'ws': w['ws'], 'files': len(w['files'])} for w in wss],
        'bundled_aggregate_rules': sorted(bundled),
        'runs': len(runs), 'collect_runs': len(collects), 'oracle_rows': len(by['oracle']),
        'oracle_rows_checked_for_permutation_invariance': len([o for o in by['oracle'] if len(o['ids']) > 1]),
        'cache_steps': len(caches), 'lsp_steps': len(ov_by['lsp']),
        'client_history_steps': len([r for r in runs if r['mode'] in CLIENT]),
        'client_vs_one_shot_failures': len(cli_bad),
        'steps_where_a_file_lost_its_last_directive': lost_last,
        'violations_seen_by_rule': dict(rules_seen), 'histogram': dict(hist),
        'mismatches': {k: len(vv) for k, vv in bad.items()},
        'glue_self_tests': selftest, 'glue_self_tests_blind': selftest_blind,
        'two_phase_vs_one_shot_failures': len(pred_bad), 'cache_vs_fresh_failures': len(inc_bad),
        'cache_steps_where_the_empty_marker_was_lost': len(marker_lost),
        'lsp_incremental_vs_fresh_failures': len(lsp_bad),
        'samples': [
            {k: runs[len(runs) // 2][k] for k in ('ws', 'mode', 'parts', 'src', 'obs')} if runs else None,
            collects[0] if collects else None,
            {k: caches[-1][k] for k in ('ws', 'ops', 'report')} if caches else None],
        'exhaustive': False,
    })
    return vlib.finish(ctx, 'proof', cov, [
        'rule bodies (aggregate, aggregate_report), enablement and file exclusion are oracles, tabulated by direct OPA evaluation',
        'H_aggperm (aggregate_report is invariant under permutation of its entries) is a Section hypothesis; observed on '
        'every oracle row with two random orders',
        'aggregate entries carry their source file and rule (built with result.aggregate): hypothesis of the cache theorems',
        'the caller merges exported aggregates by merged[k] = append(merged[k], part[k]...) and directives by dirs[file] = ...',
    ])
