"""C19: rules needing a missing engine capability are skipped, never misfire."""
import glob, json, os, re, time
from collections import Counter as _cnt
import vlib
from vlib import clist, cbool
from common import proof_gate, proof_coverage

KINDS = ['v0', 'v1', 'stdin']
PREDS = ['has_object_keys', 'has_strings_count', 'has_if', 'has_contains', 'has_rego_v1_feature', 'is_opa_v1']
INTERESTING = ['sprintf', 'strings.count', 'object.keys', 'count', 'indexof_n', 'any', 'regex.match']

# what each gated rule needs from the target -- python's own reading of the rule documentation, used for the
# predicate evaluated on the implementation's outputs (independent of the Coq model and of Gen/GatedRules.v)
NEEDS = {
    'bugs/deprecated-builtin': [('none', 'v0only')],
    'bugs/if-empty-object': [('warning', 'kw:if')],
    'bugs/if-object-literal': [('warning', 'kw:if')],
    'bugs/rule-named-if': [('none', 'v0only')],
    'bugs/sprintf-arguments-mismatch': [('none', 'builtin:sprintf')],
    'custom/one-liner-rule': [('warning', 'kw:if')],
    'idiomatic/custom-has-key-construct': [('warning', 'builtin:object.keys')],
    'idiomatic/directory-package-mismatch': [('warn', 'filename')],
    'idiomatic/use-contains': [('warning', 'kw:contains'), ('none', 'v0only')],
    'idiomatic/use-if': [('warning', 'kw:if'), ('none', 'v0only')],
    'idiomatic/use-strings-count': [('warning', 'builtin:strings.count')],
    'imports/implicit-future-keywords': [('none', 'obsolete:rego_v1_import')],
    'imports/import-shadows-import': [('none', 'v0only')],
    'imports/use-rego-v1': [('warning', 'rego_v1_import'), ('none', 'v0only')],
    'testing/file-missing-test-suffix': [('warn', 'filename')],
}


def need_unmet(need, out, kind):
    feats, kws, bi = out['features'] or [], out['future_keywords'] or [], out['builtins'] or []
    v1 = 'rego_v1' in feats
    if need.startswith('builtin:'):
        return need[8:] not in bi
    if need.startswith('kw:'):
        return not (need[3:] in kws or 'rego_v1_import' in feats or v1)
    if need == 'rego_v1_import':
        return 'rego_v1_import' not in feats and not v1
    if need.startswith('obsolete:'):
        return need[9:] in feats
    if need == 'v0only':
        return v1 and kind != 'v0'
    if need == 'filename':
        return kind == 'stdin'
    raise ValueError(need)


def need_reads(need):
    """the capability dimensions a need reads: ('builtins' | 'future_keywords' | 'features', name)"""
    v1 = [('features', 'rego_v1_import'), ('features', 'rego_v1')]
    if need.startswith('builtin:'):
        return [('builtins', need[8:])]
    if need.startswith('kw:'):
        return [('future_keywords', need[3:])] + v1
    if need == 'rego_v1_import':
        return v1
    if need.startswith('obsolete:'):
        return [('features', need[9:])]
    if need == 'v0only':
        return [('features', 'rego_v1')]
    if need == 'filename':
        return []
    raise ValueError(need)


def default_ignored():
    """gated rules whose level in the provided configuration is `ignore` (they run only when the user configuration, or an
    enable option, switches them on): read from /repo's bundle/regal/config/provided/data.yaml"""
    out = []
    try:
        import yaml
        d = yaml.safe_load(open(os.path.join(vlib.REPO, 'bundle', 'regal', 'config', 'provided', 'data.yaml')))
        for c, rs in (d.get('rules') or {}).items():
            for t, r_ in (rs or {}).items():
                if isinstance(r_, dict) and r_.get('level') == 'ignore' and '%s/%s' % (c, t) in NEEDS:
                    out.append('%s/%s' % (c, t))
    except (OSError, ImportError, ValueError):
        out = ['bugs/if-empty-object', 'custom/one-liner-rule']
    return sorted(out)


# the other linter options that rewrite or wrap the user configuration before it reaches Rego
PIPE_CUSTOM = ['', 'fs', 'paths', 'file', 'fs-configured']
PIPE_CFG = ['', 'caps-only', 'more']
PIPE_FLAGS = ['', 'enable-all', 'disable-all-enable', 'disable-category', 'enable-category', 'disable']
SOME_TITLES = ['use-strings-count', 'custom-has-key-construct', 'use-if', 'use-contains', 'use-rego-v1', 'sprintf-arguments-mismatch',
               'one-liner-rule', 'deprecated-builtin', 'implicit-future-keywords', 'if-object-literal']


def pipeline_cases(ctx, gen_targets):
    """targets with capabilities other than regal's own x the options: each option alone on three targets, custom rules on
    every target, no / empty user configuration x custom rules, and a seeded sample of full combinations"""
    T = lambda **kw: dict({'engine': '', 'version': '', 'file': False, 'minus': None, 'plus': None, 'plus_bare': None, 'plus_readme': None}, **kw)
    old, old_file = T(engine='opa', version='v0.46.0'), T(engine='opa', version='v0.46.0', file=True)
    minus = T(minus=['object.keys', 'strings.count'])
    mid = T(engine='opa', version='v0.59.0', minus=['sprintf'], plus=['strings.count'])
    targets = [old, minus]
    for g in gen_targets:   # a generated file: keyword `if` alone, no features, no object.keys
        gg = g['gen']
        if 'if' in gg['future_keywords'] and 'contains' not in gg['future_keywords'] and not gg['features'] and gg['without_builtins'] == ['object.keys']:
            targets.append(g)
            break
    rest = [old_file, mid]
    default = T()
    P = lambda **kw: dict({'custom': '', 'cfg': '', 'flags': '', 'enable': None, 'prefix': False, 'input': '', 'debug': False}, **kw)

    def titles():
        return sorted(ctx.rng.shuffle(list(SOME_TITLES))[:2 + ctx.rng.below(4)])
    singles = [P(custom=c_) for c_ in PIPE_CUSTOM[1:]] + [P(cfg=c_) for c_ in PIPE_CFG[1:]] + \
        [P(flags=f, enable=titles() if f in ('disable-all-enable', 'disable') else None) for f in PIPE_FLAGS[1:]] + \
        [P(prefix=True), P(input='paths'), P(prefix=True, input='paths')]
    out = []
    for t in targets:
        for p_ in singles:
            out.append(('mixed', t, dict(p_, enable=titles() if p_['flags'] in ('disable-all-enable', 'disable') else None), None))
    for t in rest:
        out.append(('mixed', t, P(custom='fs'), None))
        out.append(('v1x3', t, P(custom='paths', cfg='caps-only'), None))
    for cfg in ('nil', 'empty'):
        for c_ in ('', 'fs', 'paths'):
            out.append(('mixed', default, P(cfg=cfg, custom=c_), None))
    out.append(('mixed', old, P(custom='fs', debug=True), None))
    n = 26 if ctx.quick() else 400
    pool = targets + rest
    for _ in range(n):
        t = ctx.rng.choice(pool)
        f = ctx.rng.choice(PIPE_FLAGS)
        inp = ctx.rng.choice(['', 'paths'])
        p_ = P(custom=ctx.rng.choice(PIPE_CUSTOM), cfg=ctx.rng.choice(PIPE_CFG), flags=f,
               enable=titles() if f in ('disable-all-enable', 'disable') else None, prefix=ctx.rng.below(2) == 0, input=inp)
        s_ = ctx.rng.choice(['mixed', 'mixed', 'v1x3', 'v0x1'] + ([] if inp == 'paths' else ['stdin']))
        dis = sorted(x for x in NEEDS if ctx.rng.below(5) == 0) if ctx.rng.below(3) == 0 and p_['cfg'] != 'caps-only' else None
        out.append((s_, t, p_, dis))
    return [{'set': s_, 'in': {'target': t, 'files': [], 'disabled': dis, 'pipe': p_}} for s_, t, p_, dis in out]


def eff_disabled(cin, ignored_by_default=()):
    """the gated rules that do not run, given the configuration and the enable/disable options of a pipeline case
    (bundle/regal/config/config.rego ignored_rule: forced off, or level ignore and not forced on)"""
    dis = set(cin.get('disabled') or [])
    p_ = cin.get('pipe')
    if not p_:
        return sorted(dis)
    if p_['cfg'] in ('caps-only', 'nil', 'empty'):
        dis = set(ignored_by_default)     # no rules section: the provided levels
    fl, en = p_['flags'], set(p_.get('enable') or [])
    title = lambda r_: r_.split('/', 1)[1]
    cat = lambda r_: r_.split('/', 1)[0]
    if fl == 'enable-all':
        return []
    if fl == 'disable-all-enable':
        return sorted(r_ for r_ in NEEDS if title(r_) not in en)
    if fl == 'disable-category':
        return sorted(dis | {r_ for r_ in NEEDS if cat(r_) == 'bugs'})
    if fl == 'enable-category':
        return sorted(r_ for r_ in NEEDS if cat(r_) != 'idiomatic')
    if fl == 'disable':
        return sorted(dis | {r_ for r_ in NEEDS if title(r_) in en})
    return sorted(dis)


def custom_rule_runs(p_):
    """is the custom rule of the harness (naming/verif-custom-rule) loaded and not switched off by the options"""
    if not p_ or not p_['custom']:
        return False
    return p_['flags'] in ('', 'enable-all', 'disable-category', 'disable')


def c_pipe_case(r):
    """Check.C19Check.pipe_case of a pipeline record"""
    out, p_ = r['out'], r['in']['pipe']
    user = 0 if p_['cfg'] == 'nil' else (2 if out.get('user_has_caps') else 1)
    return '(mkPipe %d%%nat %s %s %d%%nat %s)' % (user, c_caps(out), c_caps(out['this_caps']), 1 if p_['custom'] else 0, c_caps(out['eval_caps']))

BASE_KEYWORDS = ['every', 'in']      # future keywords no gate looks at: always listed in the generated files


def capability_dimensions():
    """every dimension some gate reads, from two sides: python's own needs table, and the names that occur in the
    conditions of the .rego sources (tools/gen/gatedrules.py -> Gen/GatedRules.json: `notices` bodies and
    capabilities.rego).  Sorted list of (kind, name)."""
    dims = {d for needs in NEEDS.values() for _, nd in needs for d in need_reads(nd)}
    try:
        g = json.load(open(os.path.join(vlib.COQ, 'theories', 'Gen', 'GatedRules.json')))
        dims |= {(k, n) for k, ns in g['dims'].items() for n in ns}
    except (OSError, ValueError, KeyError):
        pass
    return sorted(dims)


def generated_targets(ctx, dims):
    """one capabilities FILE per subset of the dimensions (all of them; a seeded sample with the corner cases beyond 2^9)"""
    n = len(dims)
    if n <= 9:
        masks = list(range(1 << n))
    else:
        masks = sorted({0, (1 << n) - 1} | {1 << i for i in range(n)} | {((1 << n) - 1) ^ (1 << i) for i in range(n)}
                       | {ctx.rng.below(1 << n) for _ in range(480)})
    out = []
    for m in masks:
        on = [d for i, d in enumerate(dims) if m & (1 << i)]
        out.append({'engine': '', 'version': '', 'file': False, 'minus': None, 'plus': None, 'plus_bare': None, 'plus_readme': None,
                    'gen': {'future_keywords': BASE_KEYWORDS + [x for k, x in on if k == 'future_keywords'],
                            'features': [x for k, x in on if k == 'features'],
                            'without_builtins': [x for k, x in dims if k == 'builtins' and (k, x) not in on]}})
    return out, n <= 9


def dims_on(out, dims):
    have = {'builtins': out['builtins'] or [], 'future_keywords': out['future_keywords'] or [], 'features': out['features'] or []}
    return frozenset(d for d in dims if d[1] in have[d[0]])


def cstr(x):
    if isinstance(x, str) and all(32 <= ord(ch) < 127 and ch != '"' for ch in x):
        return '(b "%s"%%string)' % x
    return vlib.cstr(x)


class Interner:
    """repeated sub-terms (capabilities, notices, oracle tables) are defined once and referred to by name"""
    def __init__(self):
        self.defs, self.names = [], {}

    def name(self, prefix, typ, term):
        k = (prefix, term)
        if k not in self.names:
            self.names[k] = '%s_%d' % (prefix, len(self.names))
            self.defs.append('Definition %s : %s := %s.' % (self.names[k], typ, term))
        return self.names[k]


INTERN = Interner()


def c_caps(out):
    return INTERN.name('K', 'caps', c_caps_term(out))


def c_caps_term(out):
    L = lambda xs: clist(cstr(x) for x in (xs or []))
    return '(mkCaps %s %s %s)' % (L(out['builtins']), L(out['future_keywords']), L(out['features']))


def c_file(kind):
    return '(mkFile %s %s)' % (cbool(kind == 'v0'), cbool(kind == 'stdin'))


def c_notice(n):
    return INTERN.name('Nt', 'notice', c_notice_term(n))


def c_notice_term(n):
    return '(mkNotice %s %s %s %s %s)' % (cstr(n['title']), cstr(n['description']), cstr(n['category']), cstr(n['level']), cstr(n['severity']))


def c_rule(key):
    c, t = key.split('/', 1)
    return INTERN.name('R', 'rule_id', '(%s, %s)' % (cstr(c), cstr(t)))


def kind_of(fs):
    return 'stdin' if fs['name'] == 'stdin' else fs['kind']


def c_fcase(out, kind):
    fo = out['fn'][kind]
    return '(mkF %s %s %s %s)' % (c_caps(out), c_file(kind), clist(cbool(fo['preds'][p]) for p in PREDS),
                                  clist(c_notice(n) for n in fo['notices']))


def c_lcase(cin, out):
    files = cin['files']
    oracle = sorted(set(k for kd in KINDS for k in out['fn'][kd]['reports']))
    viol = []
    for key, n in sorted((out['violations'] or {}).items()):
        fname, rk = key.split('|', 1)
        idx = [i for i, f in enumerate(files) if f['name'] == fname]
        viol.append('(%d%%nat, %s, %d%%nat)' % (idx[0] if idx else 99, c_rule(rk), n))
    return '(mkL %s %s %s %s %s %s %d%%nat)' % (
        c_caps(out), clist(c_rule(d) for d in cin.get('disabled_eff', cin.get('disabled') or [])),
        clist('(mkLF %s %d%%nat)' % (c_file(kind_of(f)), KINDS.index(kind_of(f))) for f in files),
        INTERN.name('Or', 'list (rule_id * list nat)',
                    clist('(%s, %s)' % (c_rule(k), clist('%d%%nat' % out['fn'][kd]['reports'].get(k, 0) for kd in KINDS)) for k in oracle)),
        clist(viol), clist(c_notice(n) for n in out['notices']), out['rules_skipped'])


def tkey(t):
    return json.dumps(t, sort_keys=True)


def base_key(t):
    return tkey({'engine': t['engine'], 'version': t['version'], 'file': t['file'], 'gen': t.get('gen')})


def all_plus(t):
    return (t.get('plus') or []) + (t.get('plus_readme') or []) + (t.get('plus_bare') or [])


def want_builtins(base, t, loaded):
    """of the names the harness reports on, those in (base \\ minus) U plus"""
    names = [n for n in INTERESTING] + sorted((set(base) | set(loaded)) - set(INTERESTING))
    minus, plus = set(t.get('minus') or []), set(all_plus(t))
    return [n for n in names if n in plus or (n in base and n not in minus)]


def error_class(msg):
    """an error message without versions, paths, quoted values"""
    m = re.sub(r"'[^']*'|\"[^\"]*\"", '<v>', msg or '')
    m = re.sub(r'v?\d+\.\d+\.\d+[-\w.]*', '<version>', m)
    m = re.sub(r'(/[\w.@-]+)+', '<path>', m)
    return re.sub(r'\s+', ' ', m).strip()[:160]


def run(ctx):
    phases, t_last = {}, [time.time()]

    def phase(name):
        phases[name] = round(time.time() - t_last[0], 1)
        t_last[0] = time.time()
    phases['coq_build_and_props'] = round(time.time() - ctx.t0, 1)
    h = vlib.build_harness(ctx, 'c19')
    phase('harness_build')
    outp = os.path.join(ctx.tmp, 'c19.jsonl')
    cases_file = os.path.join(ctx.tmp, 'cases.json')
    wd = os.path.join(ctx.tmp, 'ws')
    os.makedirs(wd)
    tier = ctx.tier
    if ctx.replay:
        rp = json.load(open(ctx.replay))
        corpus = [rp['case']] if 'case' in rp else []
        tier = 'replay' if corpus else ctx.tier
        for c_ in list(corpus):    # the base of an edited target is needed to say what (base \ minus) U plus is
            t = c_.get('target') or {}
            if t.get('minus') or all_plus(t):
                corpus.append({'target': dict(t, minus=None, plus=None, plus_bare=None, plus_readme=None), 'files': [], 'disabled': None})
    else:
        corpus = [json.load(open(f))['case'] for f in sorted(glob.glob(os.path.join(vlib.VERIF, 'corpus', 'C19', '*.json')))]
    json.dump(corpus, open(cases_file, 'w'))
    # generated capabilities files: every subset of every dimension a gate reads (keywords and features cannot be
    # varied by embedded versions or plus/minus); v0 and v1 trigger policies in one Lint (quick), all file sets (thorough)
    dims = capability_dimensions()
    gen_targets, gen_all = ([], True) if tier == 'replay' else generated_targets(ctx, dims)
    gen_file = os.path.join(ctx.tmp, 'generated.json')
    pipe_cases = [] if tier == 'replay' else pipeline_cases(ctx, gen_targets)
    json.dump([{'set': s_, 'in': {'target': t, 'files': [], 'disabled': None}} for t in gen_targets
               for s_ in (['mixed'] if ctx.quick() else ['mixed', 'v0x1', 'v0x3', 'v1x1', 'v1x3', 'stdin'])] + pipe_cases, open(gen_file, 'w'))
    rc, log = vlib.run([h, outp, tier, vlib.REPO, wd, cases_file, gen_file], env=dict(os.environ, VERIF_SEED=str(ctx.seed)), timeout=3000)
    if rc != 0:
        raise RuntimeError('c19 harness failed: ' + log[-3000:])
    phase('harness_run')
    recs = [json.loads(l) for l in open(outp)]
    ign = default_ignored()
    for r in recs:   # canonical: temp paths out of the replayable input
        r['in']['target'] = {k: v for k, v in r['in']['target'].items()}
        r['in']['files'] = r['in'].get('files') or []     # function-level cases have no files (Go: null)
        if r['in'].get('pipe'):
            r['in']['disabled_eff'] = eff_disabled(r['in'], ign)
    cfg_errs = [r for r in recs if r['out'].get('config_err')]
    fn_errs = [r for r in recs if r['out'].get('fn_err')]
    ok = [r for r in recs if not r['out'].get('config_err') and not r['out'].get('fn_err')]
    lint = [r for r in ok if r['in']['files']]
    lint_errs = [r for r in lint if r['out'].get('lint_err')]
    lint_ok = [r for r in lint if not r['out'].get('lint_err')]

    # ---- function level cases: distinct (capabilities as the gates see them, file kind, observation) ------------
    fseen, fcases = {}, []
    for r in ok:
        for kind in KINDS:
            if kind not in r['out']['fn']:
                continue
            key = json.dumps([r['out']['builtins'], r['out']['future_keywords'], r['out']['features'], kind, r['out']['fn'][kind]['preds'],
                              r['out']['fn'][kind]['notices']], sort_keys=True)
            if key not in fseen:
                fseen[key] = len(fcases)
                fcases.append((r, kind))
    # ---- plus / minus cases: base = the same target without edits ---------------------------------------------
    base_of = {}
    for r in ok:
        t = r['in']['target']
        if r['in'].get('pipe'):
            continue
        if not t.get('minus') and not t.get('plus') and not t.get('plus_bare') and not t.get('plus_readme'):
            base_of[base_key(t)] = r['out']['builtins'] or []
    # the target capabilities the configuration asks for: (base \ minus) U plus as a SET, whatever the order of the
    # lists, entries the base does not have, duplicates (python's own reading; the Lint predicate below uses it)
    for r in ok:
        t = r['in']['target']
        if (t.get('minus') or all_plus(t)) and base_key(t) in base_of and (r['in'].get('pipe') or {}).get('cfg') not in ('nil', 'empty'):
            r['want_builtins'] = want_builtins(base_of[base_key(t)], t, r['out']['builtins'] or [])
    pcases, pseen = [], set()
    for r in ok:
        t = r['in']['target']
        if not (t.get('minus') or t.get('plus') or t.get('plus_bare') or t.get('plus_readme')) or r['in'].get('pipe'):
            continue
        bk = base_key(t)
        if bk not in base_of:
            continue
        key = json.dumps([bk, t.get('minus'), t.get('plus'), t.get('plus_bare'), t.get('plus_readme')], sort_keys=True)
        if key in pseen:
            continue
        pseen.add(key)
        pcases.append((r, base_of[bk]))

    L = lambda xs: clist(cstr(x) for x in (xs or []))
    INTERN.defs, INTERN.names = [], {}
    head = ['From Coq Require Import String.', 'From Regal Require Import Check.C19Check.', 'Open Scope N_scope.']
    v = []
    CH = 40

    def chunked(name, typ, items):
        for k in range(0, len(items), CH):
            v.append('Definition %s_%d : list %s := %s.' % (name, k // CH, typ, clist(items[k:k + CH])))
        v.append('Definition %s : list %s := %s.' % (name, typ, ' ++ '.join(['%s_%d' % (name, k // CH) for k in range(0, len(items), CH)] + ['[]'])))
    chunked('f_cases', 'fcase', [c_fcase(r['out'], kind) for r, kind in fcases])
    chunked('l_cases', 'lcase', [c_lcase(r['in'], r['out']) for r in lint_ok])
    chunked('p_cases', 'pcase', ['(mkP %s %s %s %s %s)' % (L(base), L(r['in']['target'].get('minus')), L((r['in']['target'].get('plus') or []) + (r['in']['target'].get('plus_readme') or []) + (r['in']['target'].get('plus_bare') or [])),
                                                           L(INTERESTING), L(r['out']['builtins'])) for r, base in pcases])
    pipe_ok = [r for r in lint_ok if r['in'].get('pipe') and r['out'].get('eval_caps')]
    chunked('pp_cases', 'pipe_case', [c_pipe_case(r) for r in pipe_ok])
    v += ['Definition PP1 := Eval vm_compute in failing pipeline_agrees 0 pp_cases.',
          'Definition PP2 := Eval vm_compute in failing pipeline_meets_spec 0 pp_cases.', 'Print PP1. Print PP2.']
    if pipe_ok:    # self-test: evaluation capabilities with one name dropped must be flagged
        pr = json.loads(json.dumps(pipe_ok[0]))
        pr['out']['eval_caps']['features'] = (pr['out']['eval_caps']['features'] or []) + ['verif_no_such_feature']
        v += ['Definition S2 := Eval vm_compute in (failing pipeline_agrees 0 [%s]).' % c_pipe_case(pr), 'Print S2.']
    v += ['Definition F1 := Eval vm_compute in failing fcase_agrees 0 f_cases.',
          'Definition F2 := Eval vm_compute in failing fcase_meets_needs 0 f_cases.',
          'Definition L1 := Eval vm_compute in failing lcase_agrees 0 l_cases.',
          'Definition L2 := Eval vm_compute in failing (fun l => skipped_is_count l && needs_respected l) 0 l_cases.',
          'Definition P1 := Eval vm_compute in failing pcase_agrees 0 p_cases.',
          'Definition P2 := Eval vm_compute in failing pcase_meets_spec 0 p_cases.',
          'Print F1. Print F2. Print L1. Print L2. Print P1. Print P2.']
    # the generated files, as loaded, realise every on/off assignment of the dimensions the model's needs table reads
    # (Model/Notices.v dims_covered; Props/C19.v c19_covering_targets_suffice says why that is enough)
    gen_ok = [r for r in ok if r['in']['target'].get('gen') and not r['in'].get('pipe') and r['stream'] != 'list']
    gen_caps = sorted({c_caps(r['out']) for r in gen_ok})
    if gen_targets:
        v += ['Definition D1 := Eval vm_compute in (if dims_covered needs_table %s then [] else [0%%nat]).' % clist(gen_caps), 'Print D1.',
              'Definition D2 := Eval vm_compute in (if dims_covered needs_table %s then [] else [0%%nat]).' % clist(gen_caps[1:]), 'Print D2.']
    # self-test of the glue: a perturbed observation must be flagged
    if lint_ok:
        pr = json.loads(json.dumps(lint_ok[0]))
        pr['out']['rules_skipped'] += 1
        v += ['Definition S1 := Eval vm_compute in (failing lcase_agrees 0 [%s], failing skipped_is_count 0 [%s]).'
              % (c_lcase(pr['in'], pr['out']), c_lcase(pr['in'], pr['out'])), 'Print S1.']
    rc, cout = vlib.coq_eval(ctx, 'Cases_C19', '\n'.join(head + INTERN.defs + v), timeout=2400)
    if rc != 0:
        raise RuntimeError('case evaluation failed:\n' + cout[-3000:])
    phase('coq_eval')
    g = lambda m: vlib.parse_nat_list(cout, m) or []
    f1, f2, l1, l2, p1, p2 = g('F1'), g('F2'), g('L1'), g('L2'), g('P1'), g('P2')
    pp1, pp2 = g('PP1'), g('PP2')
    if pipe_ok and g('S2') != [0]:
        raise RuntimeError('self-test failed: perturbed evaluation capabilities were not flagged by Check.C19Check.pipeline_agrees')
    d1 = g('D1') if gen_targets and gen_all else []
    if gen_targets and gen_all and g('D2') != [0]:
        raise RuntimeError('self-test failed: Model.Notices.dims_covered accepts the generated targets with one of them left out')
    m_self = re.search(r'S1\s*=\s*\(([^)]*)\)', cout, re.S)
    if lint_ok and (not m_self or re.findall(r'\d+', m_self.group(1)) != ['0', '0']):
        raise RuntimeError('self-test failed: a perturbed rules_skipped was not flagged by Check.C19Check')

    # ---- the property evaluated in python on the implementation's own outputs ----------------------------------
    bad = []     # (record, kind of failure, detail)
    # "linting succeeds for any target": an error while loading the configuration or linting is recorded per target and is
    # a violation with that target as the replay; for an embedded version (no edits, no file) it is named as such
    err_targets = {}
    for r, what, msg in [(r, 'config-load-failed', r['out']['config_err']) for r in cfg_errs] + \
                        [(r, 'lint-failed', r['out']['lint_err']) for r in lint_errs]:
        t = r['in']['target']
        embedded = bool(t['engine']) and not t.get('file') and not t.get('gen') and not (t.get('minus') or all_plus(t)) and not r['in'].get('pipe')
        kind = 'linting-failed-for-embedded-version' if embedded else what
        name = '%s %s' % (t['engine'], t['version']) if t['engine'] else 'target without embedded version'
        cls = error_class(msg)
        err_targets.setdefault(kind + ': ' + cls, set()).add(name)
        bad.append((r, kind, {'message': 'linting failed for %s %s: %s' % ('embedded version' if embedded else 'target', name, cls),
                              'stage': what, 'error_class': cls, 'error': msg, 'all_targets_failing_like_this': err_targets[kind + ': ' + cls]}))
    for _, _, d_ in bad:
        d_['all_targets_failing_like_this'] = sorted(d_['all_targets_failing_like_this'])
    for r in ok:
        if 'want_builtins' in r and set(r['want_builtins']) != set(r['out']['builtins'] or []):
            t = r['in']['target']
            bad.append((r, 'target-capabilities-not-base-minus-plus',
                        {'base': base_of[base_key(t)], 'minus': t.get('minus'), 'plus': all_plus(t), 'expected_(base-minus)+plus': r['want_builtins'],
                         'loaded': r['out']['builtins'] or [],
                         'kept_although_in_minus': sorted(set(r['out']['builtins'] or []) - set(r['want_builtins'])),
                         'lost': sorted(set(r['want_builtins']) - set(r['out']['builtins'] or []))}))
    baseline = {}  # rule -> kind -> count of the rule body under the default target
    for r in ok:
        if r['in']['target']['engine'] == '' and not any(r['in']['target'].get(k) for k in ('minus', 'plus', 'plus_bare', 'plus_readme', 'gen')):
            for kind in KINDS:
                for k, n in r['out']['fn'][kind]['reports'].items():
                    baseline.setdefault(k, {})[kind] = n
    never_fires = sorted(k for k in NEEDS if not any(baseline.get(k, {}).get(kd, 0) for kd in KINDS))
    hist = {}
    for r in lint_ok:
        cin, out = r['in'], r['out']
        notices = out['notices']
        # needs are judged against the capabilities the configuration ASKS for ((base \ minus) U plus), not against what was loaded
        out_want = dict(out, builtins=r['want_builtins']) if 'want_builtins' in r else out
        keyset = [json.dumps(n, sort_keys=True) for n in notices]
        if len(set(keyset)) != len(keyset):
            bad.append((r, 'duplicate-notices', notices))
        want_skipped = sum(1 for n in notices if n['severity'] != 'none')
        hist[want_skipped] = hist.get(want_skipped, 0) + 1
        if out['rules_skipped'] != want_skipped:
            bad.append((r, 'rules-skipped-count', {'rules_skipped': out['rules_skipped'], 'notices_with_severity': want_skipped}))
        if out['files_scanned'] != len(cin['files']):
            bad.append((r, 'files-scanned', out['files_scanned']))
        if cin.get('pipe'):
            # the capabilities handed to evaluation are the configured target's, whatever the other options are
            ev = out.get('eval_caps') or {}
            want_caps = {k: out.get(k) or ([] if k != 'n_builtins' else 0) for k in ('n_builtins', 'builtins', 'future_keywords', 'features')}
            got_caps = {k: ev.get(k) or ([] if k != 'n_builtins' else 0) for k in want_caps}
            if got_caps != want_caps:
                bad.append((r, 'evaluation-capabilities-differ-from-target', {'configured_target': want_caps, 'handed_to_evaluation': got_caps,
                                                                              'options': cin['pipe']}))
            want_fired = len(cin['files']) if custom_rule_runs(cin['pipe']) else 0
            if out.get('custom_fired', 0) != want_fired:
                bad.append((r, 'custom-rule-did-not-run-as-configured', {'custom_rule_violations': out.get('custom_fired', 0), 'expected': want_fired,
                                                                         'options': cin['pipe']}))
        for f in cin['files']:
            kind = kind_of(f)
            for rule, needs in NEEDS.items():
                c, t = rule.split('/', 1)
                nviol = (out['violations'] or {}).get(f['name'] + '|' + rule, 0)
                if rule in cin.get('disabled_eff', cin.get('disabled') or []):
                    listed = any(n['category'] == c and n['title'] == t for n in notices)
                    if nviol or listed:
                        bad.append((r, 'disabled-rule-reported-or-listed', {'rule': rule, 'file': f, 'violations': nviol, 'listed': listed}))
                    continue
                unmet = [(sev, nd) for sev, nd in needs if need_unmet(nd, out_want, kind)]
                for sev, nd in unmet:
                    listed = any(n['category'] == c and n['title'] == t and n['severity'] == sev for n in notices)
                    if nviol or not listed:
                        bad.append((r, 'gated-rule-misfired' if nviol else 'gated-rule-not-listed',
                                    {'rule': rule, 'file': f, 'need': nd, 'violations': nviol, 'listed': listed}))
                if not unmet:
                    want = out['fn'][kind]['reports'].get(rule, 0)
                    if nviol != want:
                        bad.append((r, 'rule-silently-skipped' if nviol < want else 'unexpected-violations',
                                    {'rule': rule, 'file': f, 'violations': nviol, 'rule_body_reports': want}))
                    # the trigger really triggers (non-vacuity): as under the default target
                    if rule not in never_fires and kind != 'stdin' and baseline.get(rule, {}).get(kind, 0) and want == 0 \
                            and rule != 'imports/use-rego-v1':
                        bad.append((r, 'rule-body-quiet-on-trigger', {'rule': rule, 'file': f}))
    # each gate follows ITS OWN need and no other: over the generated files, the dimensions whose flip (everything else
    # equal) changes whether a rule is listed must be exactly the dimensions its need reads
    by_dims = {}
    for r in gen_ok:
        by_dims.setdefault(dims_on(r['out'], dims), r)
    dependence = {}

    def listed_fn(r, kind, rule, sev):
        c, t = rule.split('/', 1)
        return any(n['category'] == c and n['title'] == t and n['severity'] == sev for n in r['out']['fn'][kind]['notices'])
    for rule, needs in sorted(NEEDS.items()):
        for sev, nd in needs:
            seen_dep, witness = set(), {}
            for S, ra in by_dims.items():
                for d in dims:
                    rb = by_dims.get(S | {d})
                    if d in S or rb is None:
                        continue
                    for kind in KINDS:
                        if listed_fn(ra, kind, rule, sev) != listed_fn(rb, kind, rule, sev):
                            seen_dep.add(d)
                            witness.setdefault(d, (ra, rb, kind))
            want_dep = set(need_reads(nd))
            dependence['%s [%s]' % (rule, sev)] = {'reads': sorted('%s:%s' % d for d in seen_dep), 'need': nd}
            if gen_targets and gen_ok and gen_all and seen_dep != want_dep:
                foreign = sorted(seen_dep - want_dep)
                ra, rb, kind = witness[foreign[0]] if foreign else (gen_ok[0], gen_ok[0], 'v1')
                bad.append((rb, 'gate-follows-foreign-capability' if foreign else 'gate-ignores-its-capability',
                            {'rule': rule, 'severity': sev, 'need': nd, 'need_reads': sorted(map(list, want_dep)),
                             'listing_changes_with': sorted(map(list, seen_dep)), 'file_kind': kind,
                             'other_target': ra['in']['target']}))
    # one file vs three copies
    by_target = {}
    for r in lint_ok:
        if not r['in'].get('disabled') and not r['in'].get('pipe'):
            by_target.setdefault((tkey(r['in']['target']), r['stream']), {})[r['set']] = r
    copies_checked = 0
    for (tk, _), sets in by_target.items():
        for one, many in (('v0x1', 'v0x3'), ('v1x1', 'v1x3')):
            if one in sets and many in sets:
                a, b_ = sets[one]['out'], sets[many]['out']
                copies_checked += 1
                if a['notices'] != b_['notices'] or a['rules_skipped'] != b_['rules_skipped']:
                    bad.append((sets[many], 'one-file-vs-copies', {'one': [a['rules_skipped'], a['notices']], 'three': [b_['rules_skipped'], b_['notices']]}))
                va = {k.split('|', 1)[1]: n for k, n in (a['violations'] or {}).items()}
                for k, n in (b_['violations'] or {}).items():
                    if va.get(k.split('|', 1)[1], 0) != n:
                        bad.append((sets[many], 'one-file-vs-copies-violations', {'key': k, 'count': n, 'single': va.get(k.split('|', 1)[1], 0)}))
    # a builtin added through plus is loaded with the declaration the user wrote
    plus_decl = sorted({d for r in ok for d in (r['out'].get('plus_decl') or [])})
    seen_decl = set()
    for r in ok:
        t = r['in']['target']
        want = ['%s(string,string)->number' % n for n in (t.get('plus') or []) + (t.get('plus_readme') or [])] + \
            ['%s()->' % n for n in (t.get('plus_bare') or [])]
        got = r['out'].get('plus_decl') or []
        if want != got and tkey(t) not in seen_decl:
            seen_decl.add(tkey(t))
            bad.append((r, 'plus-declaration-lost', {'written': want, 'loaded': got}))

    # ---- verdicts ------------------------------------------------------------------------------------------
    def size_of(r):
        t = r['in']['target']
        pipe = r['in'].get('pipe') or {}
        return (sum(1 for k_, v_ in pipe.items() if v_), len(r['in']['files']),
                sum(len(t.get(k) or []) for k in ('minus', 'plus', 'plus_bare', 'plus_readme')), t['engine'] != '', t['version'])
    seen_kinds = set()
    for r, kind, detail in sorted(bad, key=lambda x: size_of(x[0])):
        if kind in seen_kinds:
            continue
        seen_kinds.add(kind)
        vlib.violation(ctx, {'kind': kind, 'case': r['in'], 'detail': detail,
                             'observed': {k: r['out'].get(k) for k in ('builtins', 'future_keywords', 'features', 'violations', 'notices', 'rules_skipped', 'lint_err', 'config_err')}},
                       signature={'kind': kind, 'key': json.dumps([r['in']['target'], [kind_of(f) for f in r['in']['files']],
                                                                  detail.get('rule') if isinstance(detail, dict) else None] +
                                                                 ([r['in']['disabled']] if r['in'].get('disabled') else []) +
                                                                 ([r['in']['pipe']] if r['in'].get('pipe') else []), sort_keys=True)})
        if len(ctx.violations) >= 4:
            break
    spec_lists = ((f2, [x[0] for x in fcases], 'Check.C19Check.fcase_meets_needs (notices = unmet needs)'),
                  (l2, lint_ok, 'Check.C19Check.skipped_is_count / needs_respected'),
                  (p2, [x[0] for x in pcases], 'Check.C19Check.pcase_meets_spec (builtins = (base - minus) + plus)'),
                  (pp2, pipe_ok, 'Check.C19Check.pipeline_meets_spec (capabilities handed to evaluation = configured target)'))
    for lst, pool, rel in spec_lists:
        if lst and not ctx.violations:
            r = min((pool[i] for i in lst), key=size_of)
            vlib.violation(ctx, {'kind': 'spec-in-coq', 'relation': rel, 'case': r['in'], 'observed': r['out'], 'n': len(lst)},
                           signature={'kind': 'spec-in-coq', 'key': json.dumps([rel, r['in']['target']], sort_keys=True)})
    if not ctx.violations:
        for lst, pool, rel in ((f1, [x[0] for x in fcases], 'Check.C19Check.fcase_agrees (capabilities.rego predicates + notices of every rule vs Gen/GatedRules.v)'),
                               (l1, lint_ok, 'Check.C19Check.lcase_agrees (main.rego gate + linter.go notices/rules_skipped)'),
                               (p1, [x[0] for x in pcases], 'Check.C19Check.pcase_agrees (plus/minus editing)'),
                               (pp1, pipe_ok, 'Check.C19Check.pipeline_agrees (Model/Notices.v get_config: user config -> with custom rules -> merged '
                                              'with the provided configuration vs GetConfig of the configured linter)')):
            if lst:
                r = min((pool[i] for i in lst), key=size_of)
                vlib.violation(ctx, {'kind': 'correspondence', 'relation': rel, 'case': r['in'], 'observed': r['out'], 'n_mismatches': len(lst)}, no_input=True)
                break
        if d1:
            vlib.violation(ctx, {'kind': 'coverage', 'relation': 'Model.Notices.dims_covered needs_table <capabilities loaded from the generated files>: '
                                 'some on/off assignment of the dimensions read by the needs table is realised by no generated file '
                                 '(capability_dimensions() in tools/props/c19.py misses a dimension, or a file does not load as written)',
                                 'dimensions': dims, 'generated_files': len(gen_targets)}, no_input=True)
        for r in fn_errs[:1]:
            vlib.violation(ctx, {'kind': 'harness-error', 'case': r['in'], 'error': r['out']['fn_err']}, no_input=True)
    proof_gate(ctx)

    targets = {tkey(r['in']['target']) for r in recs}
    list_recs = [r for r in ok if r['stream'] == 'list' and (r['in']['target'].get('minus') or all_plus(r['in']['target']))]
    sigs = {json.dumps([r['out']['builtins'], r['out']['future_keywords'], r['out']['features']]) for r in ok}
    cov = proof_coverage(ctx, {
        'evaluations': len(recs),
        'distinct_nontrivial': len(fcases) + len({json.dumps([r['out']['builtins'], r['out']['future_keywords'], r['out']['features'],
                                                              [kind_of(f) for f in r['in']['files']]]) for r in lint_ok}),
        'rule': 'targets: no capabilities section, every OPA version of ast.LoadCapabilitiesVersions, every EOPA version embedded in /repo, a capabilities '
                'file, minus/plus edits over all subsets of {sprintf, strings.count, object.keys}, minus/plus LISTS as lists (every ordering, entries absent '
                'from the base, duplicates, a name in both lists; bases = oldest+newest embedded version of every presence pattern of the three names; '
                'expected = (base - minus) + plus as a set), and GENERATED capabilities files '
                '(capabilities.from.file) for every subset of the dimensions any gate reads (built-in functions, future keywords, features: '
                'derived from the needs table and from the conditions in the .rego sources), each linted with the v0 and the v1 trigger policy. Function level for EVERY target x {v0 file, v1 file, '
                'stdin}: real capabilities.rego predicates, notices and report of every gated rule evaluated directly. Lint level: 6 file sets '
                '(v0 x1, v0 x3 copies, v1 x1, v1 x3, mixed, stdin); quick = one target per distinct set of capabilities the gates can see + all edits, '
                'thorough = every target. distinct = distinct (relevant capabilities, file kind, observation) function-level cases + distinct '
                '(relevant capabilities, file set) lint cases',
        'capability_dimensions': ['%s:%s' % d for d in dims], 'generated_capability_files': len(gen_targets),
        'generated_files_cover_all_subsets': bool(gen_all), 'dims_covered_checked_in_coq': bool(gen_targets and gen_all and not d1),
        'generated_file_cases': len([r for r in recs if r['in']['target'].get('gen')]),
        'gate_dimension_dependence_observed': dependence,
        'targets': len(targets), 'distinct_capability_signatures': len(sigs), 'fn_cases_distinct': len(fcases), 'lint_cases': len(lint_ok),
        'plus_minus_cases': len(pcases), 'one_vs_copies_pairs': copies_checked, 'rules_skipped_histogram': hist,
        'config_errors': len(cfg_errs), 'lint_errors': len(lint_errs), 'harness_errors': len(fn_errs),
        'errors_by_class_and_target': {k: sorted(v_) for k, v_ in sorted(err_targets.items())},
        'embedded_versions_loaded_at_function_level': len({tkey(r['in']['target']) for r in ok if r['stream'] == 'fn' and r['in']['target']['engine']}),
        'minus_plus_list_cases': {'cases': len(list_recs), 'linted': len([r for r in list_recs if r['in']['files']]),
                                  'bases': len({base_key(r['in']['target']) for r in list_recs}),
                                  'with_entry_absent_from_base': len([r for r in list_recs if set(r['in']['target'].get('minus') or []) - set(base_of.get(base_key(r['in']['target']), []))]),
                                  'with_duplicates': len([r for r in list_recs if len(set(r['in']['target'].get('minus') or [])) != len(r['in']['target'].get('minus') or [])]),
                                  'name_in_minus_and_plus': len([r for r in list_recs if set(r['in']['target'].get('minus') or []) & set(all_plus(r['in']['target']))]),
                                  'expected_set_checked': len([r for r in ok if 'want_builtins' in r])},
        'mismatch_model_fn': len(f1), 'mismatch_needs_fn': len(f2), 'mismatch_model_lint': len(l1), 'mismatch_spec_lint': len(l2),
        'mismatch_model_plusminus': len(p1), 'mismatch_spec_plusminus': len(p2), 'python_predicate_failures': len(bad),
        'pipeline_cases': {'lint_runs': len(pipe_ok), 'mismatch_model_pipeline': len(pp1), 'mismatch_spec_pipeline': len(pp2),
                           'custom_rules': dict(_cnt(r['in']['pipe']['custom'] or 'none' for r in pipe_ok)),
                           'user_config': dict(_cnt(r['in']['pipe']['cfg'] or 'rules+capabilities' for r in pipe_ok)),
                           'enable_disable_options': dict(_cnt(r['in']['pipe']['flags'] or 'none' for r in pipe_ok)),
                           'path_prefix': dict(_cnt(str(r['in']['pipe']['prefix']) for r in pipe_ok)),
                           'input': dict(_cnt(r['in']['pipe']['input'] or 'modules' for r in pipe_ok)),
                           'targets': len({tkey(r['in']['target']) for r in pipe_ok}),
                           'custom_rule_violations_total': sum(r['out'].get('custom_fired', 0) for r in pipe_ok),
                           'gated_rules_default_ignored': ign},
        'gated_rules_never_triggered_by_the_policies': never_fires, 'plus_builtin_declarations_as_loaded': plus_decl,
        'phase_seconds': phases,
        'samples': [{'target': r['in']['target'], 'files': r['in']['files'], 'rules_skipped': r['out']['rules_skipped'],
                     'notices': [n['title'] + ':' + n['severity'] for n in r['out']['notices']], 'violations': r['out']['violations']}
                    for r in lint_ok[:2] + lint_ok[len(lint_ok) // 2:len(lint_ok) // 2 + 1]],
        'exhaustive': 'all embedded versions at the function level; Lint level per distinct capability signature (quick) / all versions (thorough)',
    })
    return vlib.finish(ctx, 'proof', cov, [
        'rule bodies are oracles: notices/report of each rule are tabulated by evaluating data.regal.rules[c][t] directly with the real bundle',
        'gopkg.in/yaml.v3, capabilities.Lookup and OPA\'s embedded capabilities JSON are exercised, not modelled; the model starts from the loaded '
        'builtin names / future_keywords / features',
        'only the names of builtins are modelled; that a plus builtin is loaded with the declaration the user wrote is checked on the implementation directly',
        'completion order of the per-file goroutines is not controlled: notices are compared as sets; order independence is theorem c19_skipped_order_independent',
    ])
