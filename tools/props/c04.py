"""C04: rule enablement and severity follow the documented precedence."""
import glob, json, os, re, time
import vlib
from vlib import clist, cbool, copt
from common import proof_gate, proof_coverage

def cstr(x):
    """byte string literal: (b "text") when plain ASCII (string literals parse much faster than number lists)"""
    if isinstance(x, str) and all(32 <= ord(ch) < 127 and ch != '"' for ch in x):
        return '(b "%s"%%string)' % x
    return vlib.cstr(x)


def cixs(ix):
    """list of nat indices < 4096 as (ixs "..."): two characters per index, base 64 from "0"; quote-free"""
    assert all(0 <= i < 4096 for i in ix)
    return '(ixs "%s"%%string)' % ''.join(chr(48 + i // 64) + chr(48 + i % 64) for i in ix)


B_CAT, B_TITLE = 'bugs', 'constant-condition'
C_CAT, C_TITLE = 'naming', 'my-rule'
A_CAT, A_TITLE = 'imports', 'unresolved-import'     # a bundled aggregate rule (aggregate + aggregate_report, no report)
N_COLLECT_FILES = 2                                  # harness/cmd/c04: files of the earlier run whose aggregates are supplied
FOREIGN_STEPS = [
    'step 1: Linter with the same bundle / custom rule, NO user configuration and NO overrides (every rule enabled), '
    'WithExportAggregates(true), over %d files "package qN; import data.nonexistent.foo; allow if 1 == 1": keep Report.Aggregates' % N_COLLECT_FILES,
    'step 2: Linter with the configuration and overrides of "case", WithAggregates(<Report.Aggregates of step 1>), over case.files files '
    '(0 = aggregates only): Lint, DetermineEnabledRules, DetermineEnabledAggregateRules',
]
LEVELS = ['ignore', 'warning', 'error']
RADICES = [2, 5, 5, 5, 4, 2, 64, 2, 6, 2, 2, 2, 6, 2, 6, 2, 6]


# ------------------------------------------------------------------ the README chain, in python
# (the predicate of the property evaluated on what the implementation did, independent of the Coq model)

def spec_decision(params, cat, title, rule_level, cat_default, global_default, builtin_default):
    """returns None (rule does not run) or the level its violations carry"""
    p = params
    if title in (p.get('disable') or []):
        return None
    if title in (p.get('enable') or []):
        return 'error'
    if cat in (p.get('disable_category') or []):
        return None
    if cat in (p.get('enable_category') or []):
        return 'error'
    if p.get('disable_all'):
        return None
    if p.get('enable_all'):
        return 'error'
    level = rule_level or cat_default or global_default or builtin_default
    return None if level == 'ignore' else level


def lvl(x):
    """level of a `default:` / rule document as regal reads it: the string under "level", else none"""
    if isinstance(x, dict) and isinstance(x.get('level'), str):
        return x['level']
    return ''


def user_levels(cin, cat, title):
    if cin['no_user']:
        return '', '', ''
    rules = (cin['user'] or {}).get('rules') or {}
    catdoc = rules.get(cat) if isinstance(rules.get(cat), dict) else {}
    return lvl(catdoc.get(title)), lvl(catdoc.get('default')), lvl(rules.get('default'))


def rule_kind(cin):
    """(has_report, has_agg) of the rule under observation when the harness makes its bodies speak, else None"""
    ct = (cin['cat'], cin['title'])
    if ct == (B_CAT, B_TITLE):
        return True, False
    if cin['custom'] and ct == (C_CAT, C_TITLE):
        return True, True
    if ct == (A_CAT, A_TITLE):
        return False, True
    return None


def foreign(cin):
    return cin.get('supply') == 'foreign'


def n_files(cin):
    return cin['files'] if foreign(cin) else max(1, cin['files'])


def expected_violations(cin):
    """(per-file, aggregate) violations of the rule under observation in one Lint when the rule is on"""
    has_report, has_agg = rule_kind(cin)
    nf = n_files(cin)
    phase = foreign(cin) or nf > 1
    nagg = 0
    if has_agg and phase:
        nagg = 1 if cin['cat'] == C_CAT else (N_COLLECT_FILES if foreign(cin) else nf)
    return (nf if has_report else 0), nagg


def builtin_default(cin, cat, title, full_provided):
    """Regal's default for the rule: its provided level; "error" for a loaded custom rule; None = outside the
    property's domain (bundled rule without provided entry)"""
    if cin['custom'] and (cat, title) == (C_CAT, C_TITLE):
        return 'error'
    prov = full_provided if cin['full_bundle'] else (cin['provided'] or {})
    if title in (prov.get(cat) or {}):
        return prov[cat][title] or ''
    return None


def triggered(cin):
    return rule_kind(cin) is not None


def observed_decision(cin, out):
    """what the rule's main entry point did: `report`, for a rule without one `aggregate_report` on supplied aggregates"""
    has_report, _ = rule_kind(cin)
    return find_level(out['report'] if has_report else out['agg_report_foreign'], cin['cat'], cin['title'])


def deviations(cin, out, want):
    """every entry point of main.rego / the Linter that does not do what the documented precedence decides (want: None = off)"""
    has_report, has_agg = rule_kind(cin)
    cat, title = cin['cat'], cin['title']
    said = lambda x: 'did not report' if x is None else 'reported at level %r' % x
    dev = []
    if cin.get('fn', True) and 'report' in out and out['report'] is not None:
        if has_report and find_level(out['report'], cat, title) != want:
            dev.append(('report', 'main.report %s' % said(find_level(out['report'], cat, title))))
        if has_agg:
            if ((cat + '/' + title) in (out['aggregate'] or [])) != (want is not None):
                dev.append(('aggregate', 'main.aggregate %s for it' % ('collected' if want is None else 'did not collect')))
            if find_level(out['agg_report'], cat, title) != want:
                dev.append(('aggregate_report', 'main.aggregate_report on the aggregates of the same run %s' % said(find_level(out['agg_report'], cat, title))))
            if find_level(out['agg_report_foreign'], cat, title) != want:
                dev.append(('aggregate_report-foreign', 'main.aggregate_report on aggregates collected in an earlier run (every rule enabled) %s'
                            % said(find_level(out['agg_report_foreign'], cat, title))))
        if out['ignored'] != (want is None):
            dev.append(('ignored_rule', 'ignored_rule = %r' % out['ignored']))
        if out['level'] != (want if want is not None else 'ignore'):
            dev.append(('level_for_rule', 'level_for_rule = %r' % out['level']))
    if cin['lint'] and not (out.get('lint_err') or ''):
        lv = [x for x in out['lint_violations'] if x[0] == cat and x[1] == title]
        nfile, nagg = expected_violations(cin)
        how = ('Linter.Lint WithAggregates(aggregates exported by an earlier run in which every rule was enabled)' if foreign(cin) else 'Linter.Lint')
        how += ' over %d file(s)' % n_files(cin)
        if want is None and lv:
            dev.append(('lint-agg' if any(x[3] == 'agg' for x in lv) else 'lint', '%s reported it: %s' % (how, sorted({'%s (%s)' % (x[2], x[3]) for x in lv}))))
        elif want is not None and (bool(lv) != (nfile + nagg > 0) or any(x[2] != want for x in lv)):
            dev.append(('lint', '%s gave %s' % (how, sorted({'%s (%s)' % (x[2], x[3]) for x in lv}) or 'nothing')))
        if not out['noticed_noinput'] and (title in (out['enabled'] or [])) != (want is not None):
            dev.append(('enabled-list', 'DetermineEnabledRules %s it' % ('lists' if title in (out['enabled'] or []) else 'does not list')))
        if has_agg and cin.get('enabled_agg') and not out.get('enabled_err') and (title in (out['enabled_agg'] or [])) != (want is not None):
            dev.append(('enabled-agg-list', 'DetermineEnabledAggregateRules %s it' % ('lists' if title in (out['enabled_agg'] or []) else 'does not list')))
    return dev


def size_of(cin):
    """for choosing the smallest failing case"""
    p = cin['params']
    n = sum(len(p.get(k) or []) for k in ('disable', 'enable', 'disable_category', 'enable_category'))
    n += int(bool(p.get('disable_all'))) + int(bool(p.get('enable_all')))
    return (n, len(json.dumps(cin.get('user'), sort_keys=True)), len(json.dumps(cin.get('provided'), sort_keys=True)))


def sig_key(cin):
    d = {'rule': cin['cat'] + '/' + cin['title'], 'custom': cin['custom'], 'provided': 'bundle' if cin['full_bundle'] else cin['provided'],
         'user': None if cin['no_user'] else cin['user'], 'params': {k: v for k, v in cin['params'].items() if v}}
    if foreign(cin):
        d['supply'] = 'foreign'
    return json.dumps(d, sort_keys=True)


# ------------------------------------------------------------------ Coq printers

def code_level(s):
    if s is None:
        return 0
    return {'': 1, 'ignore': 2, 'warning': 3, 'error': 4}.get(s, 5)


def find_level(rows, cat, title):
    hits = [r for r in (rows or []) if r[0] == cat and r[1] == title]
    if not hits:
        return None
    return hits[0][2] if len(hits) == 1 else '<several>'


GROUPS = [(0, 0), (0, 1), (0, 2), (0, 3), (0, 4), (1, 4), (2, 0), (2, 1), (2, 2), (2, 3), (2, 4)]   # (k, p) in the order of Check/C04Table.v
ENTRY = 5                                                     # codes per case in that table


def fn_index(code):
    g = GROUPS.index((code['k'], code['p'])) * 6464
    if code['nu']:
        return g + 6400 + code['f']
    return g + ((code['u'] * 5 + code['c']) * 4 + code['g']) * 64 + code['f']


def fn_entry(cin, out, full_provided):
    """the 5 codes of Check.C04Check.fn_entry, from what /repo did (and, 4th, python's reading of the README)"""
    key = cin['cat'] + '/' + cin['title']
    c1 = code_level(out['go_entry']) + 6 * int(out['ignored']) + 12 * int(out['fd']) + 24 * int(out['fe'])
    c2 = code_level(out['level']) + 6 * int(out['to_run']) + 12 * int(key in (out['aggregate'] or []))
    c3 = code_level(find_level(out['report'], cin['cat'], cin['title'])) + 6 * code_level(find_level(out['agg_report'], cin['cat'], cin['title']))
    bd = builtin_default(cin, cin['cat'], cin['title'], full_provided)
    if bd is None:
        c4 = 0
    else:
        rl, cd, gd = user_levels(cin, cin['cat'], cin['title'])
        want = spec_decision(cin['params'], cin['cat'], cin['title'], rl, cd, gd, bd)
        c4 = 1 if want is None else 1 + code_level(want)
    return (c1, c2, c3, c4, code_level(find_level(out['agg_report_foreign'], cin['cat'], cin['title'])))


def c_rules_map(m):
    return clist('(%s, %s)' % (cstr(c), clist('(%s, %s)' % (cstr(t), cstr(l or '')) for t, l in sorted(rs.items())))
                 for c, rs in sorted((m or {}).items()))


def c_config(cin):
    if cin['no_user']:
        return 'None'
    rules = (cin['user'] or {}).get('rules') or {}
    cats, cdefs = [], []
    for c in sorted(rules):
        if c == 'default':
            continue
        doc = rules[c] if isinstance(rules[c], dict) else {}
        cats.append('(%s, %s)' % (cstr(c), clist('(%s, %s)' % (cstr(t), cstr(lvl(doc[t]))) for t in sorted(doc) if t != 'default')))
        if 'default' in doc:
            cdefs.append('(%s, %s)' % (cstr(c), cstr(lvl(doc['default']))))
    return '(Some (mkConfig %s %s %s))' % (clist(cats), clist(cdefs), cstr(lvl(rules.get('default'))))


def c_params(p):
    L = lambda k: clist(cstr(x) for x in (p.get(k) or []))
    return '(mkParams %s %s %s %s %s %s)' % (cbool(p.get('disable_all')), L('disable_category'), L('disable'),
                                              cbool(p.get('enable_all')), L('enable_category'), L('enable'))


def c_optlevel(x):
    return copt(None if x is None else cstr(x))


def c_ecase(cin, out):
    is_custom = cin['custom'] and (cin['cat'], cin['title']) == (C_CAT, C_TITLE)
    has_report, has_agg = rule_kind(cin) or (True, False)
    obs = '(mkObs %s %s %s %s %s %s %s %s %s %s)' % (
        c_optlevel(out['go_entry']), cbool(out['ignored']), cbool(out['fd']), cbool(out['fe']), cstr(out['level']),
        cbool(out['to_run']), c_optlevel(find_level(out['report'], cin['cat'], cin['title'])),
        cbool((cin['cat'] + '/' + cin['title']) in (out['aggregate'] or [])),
        c_optlevel(find_level(out['agg_report'], cin['cat'], cin['title'])),
        c_optlevel(find_level(out['agg_report_foreign'], cin['cat'], cin['title'])))
    return '(mkCase %s %s %s %s %s %s %s %s %s %s %s)' % (
        '[]' if cin['full_bundle'] else c_rules_map(cin['provided']), c_config(cin),
        clist(['(%s, %s)' % (cstr(C_CAT), cstr(C_TITLE))] if cin['custom'] else []),
        c_params(cin['params']), cstr(cin['cat']), cstr(cin['title']), cbool(is_custom), cbool(triggered(cin)),
        cbool(has_report), cbool(has_agg), obs)


class Names:
    """(category, title) pairs as indices into the table H_bundled written once into the case file"""
    def __init__(self, bundled):
        self.pairs = sorted(tuple(x.split('/', 1)) for x in bundled)
        self.ix = {p: i for i, p in enumerate(self.pairs)}
        self.by_title = {}
        for i, p in enumerate(self.pairs):
            self.by_title.setdefault(p[1], []).append(i)

    def pair_list(self, xs):
        known = [self.ix[tuple(x.split('/', 1))] for x in xs if tuple(x.split('/', 1)) in self.ix]
        extra = [x.split('/', 1) for x in xs if tuple(x.split('/', 1)) not in self.ix]
        s = '(names_at H_bundled %s)' % cixs(known)
        if extra:
            s = '(%s ++ %s)' % (s, clist('(%s, %s)' % (cstr(c), cstr(t)) for c, t in extra))
        return s

    def title_list(self, ts):
        known = [self.by_title[t][0] for t in ts if t in self.by_title]
        extra = [t for t in ts if t not in self.by_title]
        s = '(map snd (names_at H_bundled %s))' % cixs(known)
        if extra:
            s = '(%s ++ %s)' % (s, clist(cstr(t) for t in extra))
        return s


def c_lcase(names, agg_rules, cin, out):
    verr = (out.get('lint_err') or '').startswith('unknown-')
    viol = [v for v in (out['lint_violations'] or []) if v[0] == cin['cat'] and v[1] == cin['title']]
    custom_rep = sorted({v[1] for v in (out['lint_violations'] or []) if cin['custom'] and (v[0], v[1]) == (C_CAT, C_TITLE)})
    return '(mkLCase %s %s %d%%nat %d%%nat %s %s %s %s %s %s %s %s %s %s)' % (
        c_ecase(cin, out), cbool(cin['full_bundle']), n_files(cin), N_COLLECT_FILES if foreign(cin) else 0, cbool(verr),
        clist('(%s, %s)' % (cstr(v[2]), cbool(v[3] == 'agg')) for v in viol),
        names.title_list(out['enabled'] or []), cbool(cin.get('enabled_agg', False)), names.title_list(out['enabled_agg'] or []),
        names.pair_list(out['noticed_noinput'] or []), names.pair_list(agg_rules),
        clist(['(%s, %s)' % (cstr(C_CAT), cstr(C_TITLE))] if cin['custom'] else []),
        names.pair_list(out['to_run_all'] or []), clist(cstr(t) for t in custom_rep))


# ------------------------------------------------------------------ run

def run(ctx):
    phases, t_last = {}, [time.time()]

    def phase(name):
        phases[name] = round(time.time() - t_last[0], 1)
        t_last[0] = time.time()
    phases['coq_build_and_props'] = round(time.time() - ctx.t0, 1)
    h = vlib.build_harness(ctx, 'c04')
    phase('harness_build')
    outp = os.path.join(ctx.tmp, 'c04.jsonl')
    cases_file = os.path.join(ctx.tmp, 'cases.json')
    tier = ctx.tier
    if ctx.replay:
        rp = json.load(open(ctx.replay))
        corpus = [rp['case']] if 'case' in rp else []
        tier = 'replay' if corpus else ctx.tier
    else:
        corpus = []
        for f in sorted(glob.glob(os.path.join(vlib.VERIF, 'corpus', 'C04', '*.json'))):
            corpus.append(json.load(open(f))['case'])
    json.dump(corpus, open(cases_file, 'w'))
    rc, log = vlib.run([h, outp, tier, cases_file], env=dict(os.environ, VERIF_SEED=str(ctx.seed)), timeout=3000)
    if rc != 0:
        raise RuntimeError('c04 harness failed: ' + log[-3000:])
    phase('harness_run')
    recs = [json.loads(l) for l in open(outp)]
    binfo = [r for r in recs if r['stream'] == 'bundled']
    fn = [r for r in recs if r['stream'] == 'fn']
    ex = [r for r in recs if r['stream'] in ('corpus', 'lint', 'gen')]
    errs = [r for r in recs if r['stream'] != 'bundled' and r['out'].get('err')]

    # regal's provided configuration as python sees it (only used by the python predicate; Coq uses Gen/RulesTable.v)
    import yaml
    prov_doc = yaml.safe_load(open(os.path.join(vlib.REPO, 'bundle', 'regal', 'config', 'provided', 'data.yaml')))
    full_provided = {c: {t: lvl(r) for t, r in rs.items()} for c, rs in (prov_doc.get('rules') or {}).items() if isinstance(rs, dict)}

    bundled = binfo[0]['bundled'] if binfo else sorted(c + '/' + t for c, rs in full_provided.items() for t in rs)
    agg_rules = binfo[0]['bundled_aggregate'] if binfo else []
    names = Names(bundled)

    # ---- correspondence + specification inside Coq -------------------------------------------------
    fn_ok = [r for r in fn if not r['out'].get('err')]
    ex_ok = [r for r in ex if not r['out'].get('err')]
    lint_cases = [r for r in ex_ok if r['in']['lint']]
    fnonly_cases = [r for r in ex_ok if not r['in']['lint']]
    # The case data is evaluated by several coqc processes side by side (Coq reads literals at ~15 KB/s: one process would
    # spend more than 20 s on them): NL shards of Lint cases, NF shards of the exhaustive function-level table.
    hdr = ['From Coq Require Import String.', 'From Regal Require Import Check.C04Check Check.C04Table Gen.RulesTable.',
           'Open Scope N_scope.', 'Set Printing Depth 100000000.']
    hb = 'Definition H_bundled : list (str * str) := ' + clist('(%s, %s)' % (cstr(c), cstr(t)) for c, t in names.pairs) + '.'
    shards = []           # (name, text)
    NL = (4 if len(lint_cases) <= 400 else 8) if len(lint_cases) > 60 else 1
    per = (len(lint_cases) + NL - 1) // NL if lint_cases else 1
    lint_shards = []      # (name, offset)
    for si in range(NL):
        part = lint_cases[si * per:(si + 1) * per]
        if not part and si > 0:
            continue
        v = hdr + [hb]
        CH = 40
        for k in range(0, len(part), CH):
            v.append('Definition l_%d : list lcase := %s.' % (k // CH, clist(c_lcase(names, agg_rules, r['in'], r['out']) for r in part[k:k + CH])))
        v.append('Definition l_cases : list lcase := ' + ' ++ '.join(['l_%d' % (k // CH) for k in range(0, len(part), CH)] + ['[]']) + '.')
        v += ['Definition L1 := Eval vm_compute in failing lcase_agrees 0 l_cases.',
              'Definition L2 := Eval vm_compute in failing (fun l => case_meets_spec (lcase_full_ok l) && lint_meets_spec l) 0 l_cases.',
              'Definition L3 := Eval vm_compute in failing enabled_is_runnable 0 l_cases.',
              'Definition L4 := Eval vm_compute in failing enabled_agg_is_reporting 0 l_cases.',
              'Print L1. Print L2. Print L3. Print L4.']
        if si == 0:
            v.append('Definition e_cases : list ecase := ' + clist(c_ecase(r['in'], r['out']) for r in fnonly_cases) + '.')
            v += ['Definition T0 := Eval vm_compute in (if pairs_eqb H_bundled bundled_rules then [1] else [0])%nat.',
                  'Definition E1 := Eval vm_compute in failing case_agrees 0 e_cases.',
                  'Definition E2 := Eval vm_compute in failing case_meets_spec 0 e_cases.',
                  'Print T0. Print E1. Print E2.']
            # self-test of the glue: a case whose observation is perturbed must be flagged by the comparison
            if lint_cases:
                pr = json.loads(json.dumps(lint_cases[0]))
                pr['out']['ignored'] = not pr['out']['ignored']
                v += ['Definition S1 := Eval vm_compute in failing lcase_agrees 0 [%s].' % c_lcase(names, agg_rules, pr['in'], pr['out']), 'Print S1.']
        lint_shards.append(('Cases_C04_l%d' % si, si * per))
        shards.append(('Cases_C04_l%d' % si, '\n'.join(v)))
    # exhaustive function level: the table Coq computed from the model (Check/C04Table.v) against what /repo did, compared
    # inside Coq chunk by chunk (only the chunks this tier visits); a case the harness could not run fails everywhere
    slots = {fn_index(r['code']): i for i, r in enumerate(fn_ok)}
    chunks = []           # (name, has_report, has_agg, observed string, fn_ok indices)
    for gi, (gk, gp) in enumerate(GROUPS):
        for ui, u in enumerate(('0', '1', '2', '3', '4', 'nu')):
            base, size = gi * 6464 + (6400 if u == 'nu' else ui * 1280), (64 if u == 'nu' else 1280)
            if not any((base + j) in slots for j in range(size)):
                continue
            idx = [slots.get(base + j) for j in range(size)]
            got = ''.join('~' * ENTRY if i is None else ''.join(chr(48 + x) for x in fn_entry(fn_ok[i]['in'], fn_ok[i]['out'], full_provided)) for i in idx)
            chunks.append(('%d_%d_%s' % (gk, gp, u), gk != 2, gk != 0, got, idx))
    NF = 5 if len(chunks) > 10 else 1
    fn_shards = []        # (name, fn_ok indices in the order of the shard's cases)
    for si in range(NF):
        part = chunks[si::NF]
        if not part:
            continue
        v = list(hdr)
        for name, hr, ha, got, idx in part:
            v.append('Definition obs_%s := "%s"%%string.' % (name, got))
        terms = clist('(%s, %s, tbl_%s, obs_%s)' % (cbool(hr), cbool(ha), name, name) for name, hr, ha, got, idx in part)
        v += ['Definition FN := Eval vm_compute in chunks_failing %s 0.' % terms,
              'Definition F1 := Eval vm_compute in fst (fst FN).', 'Definition F2 := Eval vm_compute in snd (fst FN).',
              'Definition F3 := Eval vm_compute in snd FN.',
              'Definition FD := Eval vm_compute in [fold_left (fun a t => chunk_in_domain (snd (fst t)) a) %s 0].' % terms,
              'Print F1. Print F2. Print F3. Print FD.']
        fn_shards.append(('Cases_C04_f%d' % si, [i for c in part for i in c[4]]))
        shards.append(('Cases_C04_f%d' % si, '\n'.join(v)))
    from concurrent.futures import ThreadPoolExecutor
    with ThreadPoolExecutor(max_workers=max(1, len(shards))) as ex_pool:
        outs = dict(zip([n for n, _ in shards], ex_pool.map(lambda nt: vlib.coq_eval(ctx, nt[0], nt[1], timeout=2400), shards)))
    for n, (rc, cout) in outs.items():
        if rc != 0:
            raise RuntimeError('case evaluation failed (%s):\n' % n + cout[-3000:])
    phase('coq_eval')

    def nats(n, m, required=True):
        x = vlib.parse_nat_list(outs[n][1], m)
        if x is None:
            if required:
                raise RuntimeError('%s: %s was not evaluated:\n%s' % (n, m, outs[n][1][-2000:]))
            return []
        return x
    l1, l2, l3, l4 = ([off + i for n, off in lint_shards for i in nats(n, m)] for m in ('L1', 'L2', 'L3', 'L4'))
    first = lint_shards[0][0] if lint_shards else None
    t0, e1, e2 = ((nats(first, m) if first else []) for m in ('T0', 'E1', 'E2'))
    if not first:
        t0 = [1]
    if lint_cases and nats(first, 'S1') != [0]:
        raise RuntimeError('self-test failed: a perturbed observation was not flagged by Check.C04Check.lcase_agrees')
    f1, f2, fx, fn_in_domain = [], [], [], 0
    if fn_ok:
        for n, order in fn_shards:
            back = lambda m: [order[i] for i in nats(n, m) if i < len(order) and order[i] is not None]
            f1 += back('F1')        # model and implementation disagree
            f2 += back('F2')        # the README decision (as Coq computes it) is not what /repo's entry points did
            fx += back('F3')        # python's and Coq's reading of the README differ: glue bug
            fn_in_domain += nats(n, 'FD')[0]
        f1, f2, fx = sorted(f1), sorted(f2), sorted(fx)
        if fx and not f2:
            raise RuntimeError('python and Coq specifications disagree on case %r' % fn_ok[fx[0]]['code'])

    # ---- the property evaluated in python on the implementation's own outputs ---------------------------
    py_bad, py_checked, hist = [], 0, {}
    for r in fn_ok + ex_ok:
        cin, out = r['in'], r['out']
        if not triggered(cin):
            continue
        bd = builtin_default(cin, cin['cat'], cin['title'], full_provided)
        if bd is None:
            continue
        rl, cd, gd = user_levels(cin, cin['cat'], cin['title'])
        want = spec_decision(cin['params'], cin['cat'], cin['title'], rl, cd, gd, bd)
        py_checked += 1
        hist[str(want)] = hist.get(str(want), 0) + 1
        # every entry point (report / aggregate / aggregate_report on own and on supplied aggregates), the level function,
        # the enable predicate, what Lint returns and the lists computed up front must tell the same story
        if deviations(cin, out, want):
            py_bad.append(r)
    enabled_bad = []
    for r in lint_cases:
        cin, out = r['in'], r['out']
        if not cin['full_bundle'] or out.get('enabled_err'):
            continue
        nn = set(out['noticed_noinput'] or [])
        runnable = sorted([x.split('/', 1)[1] for x in (out['to_run_all'] or []) if x not in nn and x in set(bundled)] +
                          sorted({x[1] for x in out['lint_violations'] if cin['custom'] and (x[0], x[1]) == (C_CAT, C_TITLE)}))
        if sorted(out['enabled'] or []) != runnable and not (out.get('lint_err') or ''):
            enabled_bad.append(r)

    # the aggregate list computed up front against what really reported when aggregates of every rule were supplied
    enabled_agg_bad = []
    for r in lint_cases:
        cin, out = r['in'], r['out']
        if not (foreign(cin) and cin.get('enabled_agg') and triggered(cin) and rule_kind(cin)[1]) or out.get('enabled_err') or (out.get('lint_err') or ''):
            continue
        reported = any(x[0] == cin['cat'] and x[1] == cin['title'] and x[3] == 'agg' for x in out['lint_violations'])
        if (cin['title'] in (out['enabled_agg'] or [])) != reported:
            enabled_agg_bad.append(r)

    # ---- verdicts --------------------------------------------------------------------------------------
    def report_spec(r, what):
        cin = r['in']
        obj = {'kind': 'decision-vs-spec', 'case': cin, 'observed': {k: r['out'].get(k) for k in
               ('go_entry', 'ignored', 'level', 'to_run', 'report', 'aggregate', 'agg_report', 'agg_report_foreign',
                'lint_violations', 'lint_err', 'enabled_agg')}, 'what': what}
        w = want_got(r)[0]
        if foreign(cin) or (w != '?' and any(d[0] == 'aggregate_report-foreign' for d in deviations(cin, r['out'], w))):
            obj['steps'] = FOREIGN_STEPS
        vlib.violation(ctx, obj,
                       signature={'kind': 'decision-vs-spec', 'key': sig_key(cin)})

    spec_bad = {r['id']: r for r in py_bad}
    for i in f2:
        spec_bad.setdefault(fn_ok[i]['id'], fn_ok[i])
    for i in l2:
        spec_bad.setdefault(lint_cases[i]['id'], lint_cases[i])
    for i in e2:
        spec_bad.setdefault(fnonly_cases[i]['id'], fnonly_cases[i])
    def want_got(r):
        cin = r['in']
        bd = builtin_default(cin, cin['cat'], cin['title'], full_provided)
        rl, cd, gd = user_levels(cin, cin['cat'], cin['title'])
        want = spec_decision(cin['params'], cin['cat'], cin['title'], rl, cd, gd, bd) if bd is not None else '?'
        return want, observed_decision(cin, r['out'])

    def deviation_class(r):
        want, got = want_got(r)
        shape = lambda x: 'off' if x is None else ('no-level' if x == '' else 'on')
        dev = deviations(r['in'], r['out'], want) if want != '?' else []
        return (r['in']['cat'] + '/' + r['in']['title'], shape(want), shape(got), dev[0][0] if dev else '')

    # one report per kind of deviation (smallest case of each), so that distinct defects are not hidden behind each other
    by_class = {}
    for r in sorted(spec_bad.values(), key=lambda r: size_of(r['in'])):
        by_class.setdefault(deviation_class(r), r)
    for r in list(by_class.values())[:4]:
        cin = r['in']
        want, got = want_got(r)
        lint_part = ''
        if cin['lint']:
            lv = sorted({x[2] for x in (r['out']['lint_violations'] or []) if x[0] == cin['cat'] and x[1] == cin['title']})
            lint_part = '; Linter.Lint reported it at levels %s, DetermineEnabledRules %s it' % (
                lv or 'none (not reported)', 'lists' if cin['title'] in (r['out']['enabled'] or []) else 'does not list')
        dev = deviations(cin, r['out'], want) if want != '?' else []
        report_spec(r, 'rule %s/%s (%s): the documented precedence gives %s; but: %s (level_for_rule=%r, ignored_rule=%r, merged level=%r)%s'
                    % (cin['cat'], cin['title'], 'custom' if cin['custom'] and cin['cat'] == C_CAT else 'bundled',
                       'disabled' if want is None else 'level ' + str(want),
                       '; '.join(d[1] for d in dev) or ('main.report did ' + ('not report' if got is None else 'report at level %r' % got)),
                       r['out']['level'], r['out']['ignored'], r['out']['go_entry'], lint_part))
    elist_bad = {r['id']: r for r in enabled_bad}
    for i in l3:
        elist_bad.setdefault(lint_cases[i]['id'], lint_cases[i])
    for r in sorted(elist_bad.values(), key=lambda r: size_of(r['in']))[:1]:
        cin, out = r['in'], r['out']
        nn = set(out['noticed_noinput'] or [])
        runnable = sorted(x.split('/', 1)[1] for x in (out['to_run_all'] or []) if x not in nn and x in set(bundled))
        vlib.violation(ctx, {'kind': 'enabled-list', 'case': cin,
                             'only_in_enabled_list': sorted(set(out['enabled'] or []) - set(runnable) - {x[1] for x in out['lint_violations'] if (x[0], x[1]) == (C_CAT, C_TITLE)}),
                             'only_runnable': sorted(set(runnable) - set(out['enabled'] or [])),
                             'custom_rules_reporting': sorted({x[1] for x in out['lint_violations'] if (x[0], x[1]) == (C_CAT, C_TITLE)}),
                             'enabled_agg': out.get('enabled_agg'), 'lint_violations': out.get('lint_violations'),
                             'steps': FOREIGN_STEPS if foreign(cin) else ['one Linter: Lint, DetermineEnabledRules, DetermineEnabledAggregateRules'],
                             'what': 'DetermineEnabledRules / DetermineEnabledAggregateRules differ from the set of rules that can report'},
                       signature={'kind': 'enabled-list', 'key': sig_key(cin)})
    eagg_bad = {r['id']: r for r in enabled_agg_bad}
    for i in l4:
        eagg_bad.setdefault(lint_cases[i]['id'], lint_cases[i])
    for r in sorted(eagg_bad.values(), key=lambda r: (r['in']['files'], size_of(r['in'])))[:1]:
        cin, out = r['in'], r['out']
        lv = [x for x in out['lint_violations'] if x[0] == cin['cat'] and x[1] == cin['title']]
        vlib.violation(ctx, {'kind': 'enabled-aggregate-list', 'case': cin, 'steps': FOREIGN_STEPS,
                             'enabled_aggregate_rules': out.get('enabled_agg'), 'violations_of_the_rule': lv,
                             'what': 'rule %s/%s %s DetermineEnabledAggregateRules, yet Lint on the supplied aggregates %s'
                                     % (cin['cat'], cin['title'], 'is in' if cin['title'] in (out['enabled_agg'] or []) else 'is not in',
                                        'reported it: %s' % sorted({'%s (%s)' % (x[2], x[3]) for x in lv}) if lv else 'did not report it')},
                       signature={'kind': 'enabled-aggregate-list', 'key': sig_key(cin)})
    # correspondence only (no failing input found above)
    if not ctx.violations:
        if t0 != [1]:
            vlib.violation(ctx, {'kind': 'correspondence', 'relation': 'Gen/RulesTable.v bundled_rules = data.regal.rules[c][t] of the loaded bundle',
                                 'harness_bundled': bundled[:200]}, no_input=True)
        for lst, pool, rel in ((f1, fn_ok, 'Check.C04Check.case_agrees (function level, exhaustive)'),
                               (l1, lint_cases, 'Check.C04Check.lcase_agrees (Lint / DetermineEnabledRules)'),
                               (e1, fnonly_cases, 'Check.C04Check.case_agrees (explicit cases)')):
            if lst:
                r = min((pool[i] for i in lst), key=lambda r: size_of(r['in']))
                det = case_details(ctx, names, agg_rules, r)
                vlib.violation(ctx, {'kind': 'correspondence', 'relation': rel, 'case': r['in'], 'observed': r['out'],
                                     'disagreeing_parts': det, 'n_mismatches': len(lst)}, no_input=True)
                break
    for r in errs[:1]:
        if not ctx.violations:
            vlib.violation(ctx, {'kind': 'harness-error', 'case': r['in'], 'error': r['out']['err']}, no_input=True)
    proof_gate(ctx)

    distinct = len({json.dumps([r['in']['provided'], r['in']['user'], r['in']['no_user'], r['in']['params'], r['in']['cat'], r['in']['title'],
                                r['in']['full_bundle'], r['in']['custom'], r['in']['files'] if r['in']['lint'] else 0, r['in'].get('supply')], sort_keys=True)
                    for r in fn_ok + ex_ok})
    sample = lambda r: {'in': r['in'], 'out': {k: r['out'].get(k) for k in ('go_entry', 'ignored', 'level', 'to_run', 'report', 'aggregate', 'agg_report',
                                                                            'agg_report_foreign', 'lint_violations')}}
    cov = proof_coverage(ctx, {
        'evaluations': len(fn_ok) + len(ex_ok),
        'distinct_nontrivial': distinct,
        'rule': 'function level: EXHAUSTIVE over provided level {missing, no level, ignore, warning, error} x user rule level {absent, no level, '
                'ignore, warning, error} x category default {absent, no level, 3 levels} x global default {none, 3 levels} x the 2^6 command line '
                'overrides naming / not naming the rule and its category (plus the no-user-config row), for bundled rule bugs/constant-condition '
                '(report), custom rule naming/my-rule (report + aggregate + aggregate_report bodies) and bundled aggregate rule '
                'imports/unresolved-import (aggregate + aggregate_report): real Linter.GetConfig merge, then real '
                'data.regal.config.{ignored_rule,level_for_rule,_force_*} and data.regal.main.{_rules_to_run,report,aggregate,aggregate_report}, '
                'aggregate_report both on the aggregates of the same configuration and on aggregates exported by an earlier real Lint run in '
                'which every rule was enabled. '
                'Lint level: Linter.Lint (1 and 3 files) + DetermineEnabledRules/DetermineEnabledAggregateRules on sampled codes (reduced and real '
                'provided config), two-step cases (collect with every rule enabled, then WithAggregates under each way of disabling/enabling, '
                '0/1/3 files) for the custom and the bundled aggregate rule, and generated multi-rule configurations over the real bundle '
                'incl. odd level strings. '
                'distinct = distinct (provided, user document, params, rule, custom?, files) tuples',
        'fn_cases': len(fn_ok), 'fn_cases_in_spec_domain': fn_in_domain, 'lint_cases': len(lint_cases),
        'lint_cases_with_supplied_aggregates': sum(1 for r in lint_cases if foreign(r['in'])), 'explicit_fn_cases': len(fnonly_cases),
        'python_predicate_checked': py_checked, 'decision_histogram': hist,
        'lint_validation_errors': sum(1 for r in lint_cases if (r['out'].get('lint_err') or '').startswith('unknown-')),
        'mismatch_model_fn': len(f1), 'mismatch_spec_fn': len(f2), 'mismatch_model_lint': len(l1), 'mismatch_spec_lint': len(l2),
        'mismatch_enabled_list': len(l3) + len(enabled_bad), 'mismatch_enabled_aggregate_list': len(l4) + len(enabled_agg_bad), 'mismatch_python_predicate': len(py_bad), 'harness_errors': len(errs),
        'tables_agree_with_loaded_bundle': t0 == [1], 'phase_seconds': phases,
        'samples': [sample(r) for r in (fn_ok[len(fn_ok) // 3:len(fn_ok) // 3 + 1] + lint_cases[:1] + ex_ok[-1:])],
        'exhaustive': 'function level: yes (finite abstraction named by the property); Lint level: sampled',
    })
    return vlib.finish(ctx, 'proof', cov, [
        'gopkg.in/yaml.v3 + Config.UnmarshalYAML are exercised, not modelled: tools/props/c04.py transcribes the user document into the model config '
        '(level = the string under "level", else unset), a disagreement shows as a correspondence mismatch',
        'mergo.Merge is modelled on Config.Rules only (map-held Rule structs are replaced as a whole); Config.Defaults of the provided config is empty',
        'rule bodies, file exclusion (C05) and notices (C19) are oracle inputs of the model (booleans excluded / noticed)',
        'Linter.validate (unknown rule / category names) is not modelled: such cases are skipped at the Lint level and counted',
    ])


def case_details(ctx, names, agg_rules, r):
    cin, out = r['in'], r['out']
    v = ['From Regal Require Import Check.C04Check Gen.RulesTable.', 'Open Scope N_scope.',
         'Definition H_bundled : list (str * str) := ' + clist('(%s, %s)' % (cstr(c), cstr(t)) for c, t in names.pairs) + '.']
    if cin['lint']:
        v.append('Definition L := %s.' % c_lcase(names, agg_rules, cin, out))
        v.append('Definition C := lcase_full_ok L.')
        v.append('Definition D := Eval vm_compute in (map (fun b : bool => if b then 1 else 0) '
                 '[go_agrees C; rego_agrees C; main_agrees C; lint_agrees L; enabled_agrees L; enabled_agg_agrees L])%nat.')
        parts = ['go-merge', 'rego-functions', 'main.rego report/aggregate', 'Lint violations', 'DetermineEnabledRules', 'DetermineEnabledAggregateRules']
    else:
        v.append('Definition C := %s.' % c_ecase(cin, out))
        v.append('Definition D := Eval vm_compute in (map (fun b : bool => if b then 1 else 0) [go_agrees C; rego_agrees C; main_agrees C])%nat.')
        parts = ['go-merge', 'rego-functions', 'main.rego report/aggregate']
    v.append('Print D.')
    rc, cout = vlib.coq_eval(ctx, 'Det_C04', '\n'.join(v))
    d = vlib.parse_nat_list(cout, 'D') or []
    return [p for p, ok in zip(parts, d) if not ok]
