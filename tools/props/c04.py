"""C04: rule enablement and severity follow the documented precedence."""
import glob, json, os, re, time
import vlib
from vlib import clist, cbool, copt
from common import proof_gate, proof_coverage

def cstr(x):
    """byte string literal: (b "text") when plain ASCII (string literals parse much faster than number lists)"""
    if isinstance(x, str) and all(32 <= ord(ch) < 127 and ch != '"' for ch in x):
        return '(b "%s"%%string)' % x
    return vlib.cstr(x)


def cixs(ix):
    """list of nat indices < 4096 as (ixs "..."): two characters per index, base 64 from "0"; quote-free"""
    assert all(0 <= i < 4096 for i in ix)
    return '(ixs "%s"%%string)' % ''.join(chr(48 + i // 64) + chr(48 + i % 64) for i in ix)


B_CAT, B_TITLE = 'bugs', 'constant-condition'
C_CAT, C_TITLE = 'naming', 'my-rule'
LEVELS = ['ignore', 'warning', 'error']
RADICES = [2, 5, 5, 5, 4, 2, 64, 2, 6, 2, 2, 2, 6, 2, 6, 2, 6]


# ------------------------------------------------------------------ the README chain, in python
# (the predicate of the property evaluated on what the implementation did, independent of the Coq model)

def spec_decision(params, cat, title, rule_level, cat_default, global_default, builtin_default):
    """returns None (rule does not run) or the level its violations carry"""
    p = params
    if title in (p.get('disable') or []):
        return None
    if title in (p.get('enable') or []):
        return 'error'
    if cat in (p.get('disable_category') or []):
        return None
    if cat in (p.get('enable_category') or []):
        return 'error'
    if p.get('disable_all'):
        return None
    if p.get('enable_all'):
        return 'error'
    level = rule_level or cat_default or global_default or builtin_default
    return None if level == 'ignore' else level


def lvl(x):
    """level of a `default:` / rule document as regal reads it: the string under "level", else none"""
    if isinstance(x, dict) and isinstance(x.get('level'), str):
        return x['level']
    return ''


def user_levels(cin, cat, title):
    if cin['no_user']:
        return '', '', ''
    rules = (cin['user'] or {}).get('rules') or {}
    catdoc = rules.get(cat) if isinstance(rules.get(cat), dict) else {}
    return lvl(catdoc.get(title)), lvl(catdoc.get('default')), lvl(rules.get('default'))


def builtin_default(cin, cat, title, full_provided):
    """Regal's default for the rule: its provided level; "error" for a loaded custom rule; None = outside the
    property's domain (bundled rule without provided entry)"""
    if cin['custom'] and (cat, title) == (C_CAT, C_TITLE):
        return 'error'
    prov = full_provided if cin['full_bundle'] else (cin['provided'] or {})
    if title in (prov.get(cat) or {}):
        return prov[cat][title] or ''
    return None


def triggered(cin):
    ct = (cin['cat'], cin['title'])
    return ct == (B_CAT, B_TITLE) or (cin['custom'] and ct == (C_CAT, C_TITLE))


def observed_decision(cin, out):
    hits = [r for r in (out['report'] or []) if r[0] == cin['cat'] and r[1] == cin['title']]
    if not hits:
        return None
    return hits[0][2] if len(hits) == 1 else '<several>'


def size_of(cin):
    """for choosing the smallest failing case"""
    p = cin['params']
    n = sum(len(p.get(k) or []) for k in ('disable', 'enable', 'disable_category', 'enable_category'))
    n += int(bool(p.get('disable_all'))) + int(bool(p.get('enable_all')))
    return (n, len(json.dumps(cin.get('user'), sort_keys=True)), len(json.dumps(cin.get('provided'), sort_keys=True)))


def sig_key(cin):
    return json.dumps({'rule': cin['cat'] + '/' + cin['title'], 'custom': cin['custom'], 'provided': 'bundle' if cin['full_bundle'] else cin['provided'],
                       'user': None if cin['no_user'] else cin['user'], 'params': {k: v for k, v in cin['params'].items() if v}},
                      sort_keys=True)


# ------------------------------------------------------------------ Coq printers

def code_level(s):
    if s is None:
        return 0
    return {'': 1, 'ignore': 2, 'warning': 3, 'error': 4}.get(s, 5)


def find_level(rows, cat, title):
    hits = [r for r in (rows or []) if r[0] == cat and r[1] == title]
    if not hits:
        return None
    return hits[0][2] if len(hits) == 1 else '<several>'


GROUPS = [(0, 0), (0, 1), (0, 2), (0, 3), (0, 4), (1, 4)]   # (k, p) in the order of Check/C04Table.v


def fn_index(code):
    g = GROUPS.index((code['k'], code['p'])) * 6464
    if code['nu']:
        return g + 6400 + code['f']
    return g + ((code['u'] * 5 + code['c']) * 4 + code['g']) * 64 + code['f']


def fn_entry(cin, out, full_provided):
    """the 4 characters of Check.C04Check.fn_entry, from what /repo did (and, 4th, python's reading of the README)"""
    ch = lambda n: chr(48 + n)
    key = cin['cat'] + '/' + cin['title']
    c1 = code_level(out['go_entry']) + 6 * int(out['ignored']) + 12 * int(out['fd']) + 24 * int(out['fe'])
    c2 = code_level(out['level']) + 6 * int(out['to_run']) + 12 * int(key in (out['aggregate'] or []))
    c3 = code_level(find_level(out['report'], cin['cat'], cin['title'])) + 6 * code_level(find_level(out['agg_report'], cin['cat'], cin['title']))
    bd = builtin_default(cin, cin['cat'], cin['title'], full_provided)
    if bd is None:
        c4 = 0
    else:
        rl, cd, gd = user_levels(cin, cin['cat'], cin['title'])
        want = spec_decision(cin['params'], cin['cat'], cin['title'], rl, cd, gd, bd)
        c4 = 1 if want is None else 1 + code_level(want)
    return ch(c1) + ch(c2) + ch(c3) + ch(c4)


def c_rules_map(m):
    return clist('(%s, %s)' % (cstr(c), clist('(%s, %s)' % (cstr(t), cstr(l or '')) for t, l in sorted(rs.items())))
                 for c, rs in sorted((m or {}).items()))


def c_config(cin):
    if cin['no_user']:
        return 'None'
    rules = (cin['user'] or {}).get('rules') or {}
    cats, cdefs = [], []
    for c in sorted(rules):
        if c == 'default':
            continue
        doc = rules[c] if isinstance(rules[c], dict) else {}
        cats.append('(%s, %s)' % (cstr(c), clist('(%s, %s)' % (cstr(t), cstr(lvl(doc[t]))) for t in sorted(doc) if t != 'default')))
        if 'default' in doc:
            cdefs.append('(%s, %s)' % (cstr(c), cstr(lvl(doc['default']))))
    return '(Some (mkConfig %s %s %s))' % (clist(cats), clist(cdefs), cstr(lvl(rules.get('default'))))


def c_params(p):
    L = lambda k: clist(cstr(x) for x in (p.get(k) or []))
    return '(mkParams %s %s %s %s %s %s)' % (cbool(p.get('disable_all')), L('disable_category'), L('disable'),
                                              cbool(p.get('enable_all')), L('enable_category'), L('enable'))


def c_optlevel(x):
    return copt(None if x is None else cstr(x))


def c_ecase(cin, out):
    is_custom = cin['custom'] and (cin['cat'], cin['title']) == (C_CAT, C_TITLE)
    obs = '(mkObs %s %s %s %s %s %s %s %s %s)' % (
        c_optlevel(out['go_entry']), cbool(out['ignored']), cbool(out['fd']), cbool(out['fe']), cstr(out['level']),
        cbool(out['to_run']), c_optlevel(find_level(out['report'], cin['cat'], cin['title'])),
        cbool((cin['cat'] + '/' + cin['title']) in (out['aggregate'] or [])),
        c_optlevel(find_level(out['agg_report'], cin['cat'], cin['title'])))
    return '(mkCase %s %s %s %s %s %s %s %s %s)' % (
        '[]' if cin['full_bundle'] else c_rules_map(cin['provided']), c_config(cin),
        clist(['(%s, %s)' % (cstr(C_CAT), cstr(C_TITLE))] if cin['custom'] else []),
        c_params(cin['params']), cstr(cin['cat']), cstr(cin['title']), cbool(is_custom), cbool(triggered(cin)), obs)


class Names:
    """(category, title) pairs as indices into the table H_bundled written once into the case file"""
    def __init__(self, bundled):
        self.pairs = sorted(tuple(x.split('/', 1)) for x in bundled)
        self.ix = {p: i for i, p in enumerate(self.pairs)}
        self.by_title = {}
        for i, p in enumerate(self.pairs):
            self.by_title.setdefault(p[1], []).append(i)

    def pair_list(self, xs):
        known = [self.ix[tuple(x.split('/', 1))] for x in xs if tuple(x.split('/', 1)) in self.ix]
        extra = [x.split('/', 1) for x in xs if tuple(x.split('/', 1)) not in self.ix]
        s = '(names_at H_bundled %s)' % cixs(known)
        if extra:
            s = '(%s ++ %s)' % (s, clist('(%s, %s)' % (cstr(c), cstr(t)) for c, t in extra))
        return s

    def title_list(self, ts):
        known = [self.by_title[t][0] for t in ts if t in self.by_title]
        extra = [t for t in ts if t not in self.by_title]
        s = '(map snd (names_at H_bundled %s))' % cixs(known)
        if extra:
            s = '(%s ++ %s)' % (s, clist(cstr(t) for t in extra))
        return s


def c_lcase(names, agg_rules, cin, out):
    verr = (out.get('lint_err') or '').startswith('unknown-')
    viol = [v for v in (out['lint_violations'] or []) if v[0] == cin['cat'] and v[1] == cin['title']]
    custom_rep = sorted({v[1] for v in (out['lint_violations'] or []) if cin['custom'] and (v[0], v[1]) == (C_CAT, C_TITLE)})
    return '(mkLCase %s %s %d%%nat %s %s %s %s %s %s %s %s %s %s)' % (
        c_ecase(cin, out), cbool(cin['full_bundle']), max(1, cin['files']), cbool(verr),
        clist('(%s, %s)' % (cstr(v[2]), cbool(v[3] == 'agg')) for v in viol),
        names.title_list(out['enabled'] or []), cbool(cin.get('enabled_agg', False)), names.title_list(out['enabled_agg'] or []),
        names.pair_list(out['noticed_noinput'] or []), names.pair_list(agg_rules),
        clist(['(%s, %s)' % (cstr(C_CAT), cstr(C_TITLE))] if cin['custom'] else []),
        names.pair_list(out['to_run_all'] or []), clist(cstr(t) for t in custom_rep))


# ------------------------------------------------------------------ run

def run(ctx):
    phases, t_last = {}, [time.time()]

    def phase(name):
        phases[name] = round(time.time() - t_last[0], 1)
        t_last[0] = time.time()
    phases['coq_build_and_props'] = round(time.time() - ctx.t0, 1)
    h = vlib.build_harness(ctx, 'c04')
    phase('harness_build')
    outp = os.path.join(ctx.tmp, 'c04.jsonl')
    cases_file = os.path.join(ctx.tmp, 'cases.json')
    tier = ctx.tier
    if ctx.replay:
        rp = json.load(open(ctx.replay))
        corpus = [rp['case']] if 'case' in rp else []
        tier = 'replay' if corpus else ctx.tier
    else:
        corpus = []
        for f in sorted(glob.glob(os.path.join(vlib.VERIF, 'corpus', 'C04', '*.json'))):
            corpus.append(json.load(open(f))['case'])
    json.dump(corpus, open(cases_file, 'w'))
    rc, log = vlib.run([h, outp, tier, cases_file], env=dict(os.environ, VERIF_SEED=str(ctx.seed)), timeout=3000)
    if rc != 0:
        raise RuntimeError('c04 harness failed: ' + log[-3000:])
    phase('harness_run')
    recs = [json.loads(l) for l in open(outp)]
    binfo = [r for r in recs if r['stream'] == 'bundled']
    fn = [r for r in recs if r['stream'] == 'fn']
    ex = [r for r in recs if r['stream'] in ('corpus', 'lint', 'gen')]
    errs = [r for r in recs if r['stream'] != 'bundled' and r['out'].get('err')]

    # regal's provided configuration as python sees it (only used by the python predicate; Coq uses Gen/RulesTable.v)
    import yaml
    prov_doc = yaml.safe_load(open(os.path.join(vlib.REPO, 'bundle', 'regal', 'config', 'provided', 'data.yaml')))
    full_provided = {c: {t: lvl(r) for t, r in rs.items()} for c, rs in (prov_doc.get('rules') or {}).items() if isinstance(rs, dict)}

    bundled = binfo[0]['bundled'] if binfo else sorted(c + '/' + t for c, rs in full_provided.items() for t in rs)
    agg_rules = binfo[0]['bundled_aggregate'] if binfo else []
    names = Names(bundled)

    # ---- correspondence + specification inside Coq -------------------------------------------------
    fn_ok = [r for r in fn if not r['out'].get('err')]
    ex_ok = [r for r in ex if not r['out'].get('err')]
    lint_cases = [r for r in ex_ok if r['in']['lint']]
    fnonly_cases = [r for r in ex_ok if not r['in']['lint']]
    chunk_names = ['tbl_%d_%d_%s' % (k, p, u) for k, p in GROUPS for u in ('0', '1', '2', '3', '4', 'nu')]
    v = ['From Coq Require Import String.', 'From Regal Require Import Check.C04Check Check.C04Table Gen.RulesTable.',
         'Open Scope N_scope.', 'Set Printing Depth 100000000.']
    v.append('Definition H_bundled : list (str * str) := ' + clist('(%s, %s)' % (cstr(c), cstr(t)) for c, t in names.pairs) + '.')
    CH = 40
    for k in range(0, len(lint_cases), CH):
        v.append('Definition l_%d : list lcase := %s.' % (k // CH, clist(c_lcase(names, agg_rules, r['in'], r['out']) for r in lint_cases[k:k + CH])))
    v.append('Definition l_cases : list lcase := ' + ' ++ '.join(['l_%d' % (k // CH) for k in range(0, len(lint_cases), CH)] + ['[]']) + '.')
    v.append('Definition e_cases : list ecase := ' + clist(c_ecase(r['in'], r['out']) for r in fnonly_cases) + '.')
    v += ['Definition T0 := Eval vm_compute in (if pairs_eqb H_bundled bundled_rules then [1] else [0])%nat.',
          'Definition L1 := Eval vm_compute in failing lcase_agrees 0 l_cases.',
          'Definition L2 := Eval vm_compute in failing (fun l => case_meets_spec (lcase_full_ok l) && lint_meets_spec l) 0 l_cases.',
          'Definition L3 := Eval vm_compute in failing enabled_is_runnable 0 l_cases.',
          'Definition E1 := Eval vm_compute in failing case_agrees 0 e_cases.',
          'Definition E2 := Eval vm_compute in failing case_meets_spec 0 e_cases.',
          'Print T0. Print L1. Print L2. Print L3. Print E1. Print E2.']
    # self-test of the glue: a case whose observation is perturbed must be flagged by the comparison
    if lint_cases:
        pr = json.loads(json.dumps(lint_cases[0]))
        pr['out']['ignored'] = not pr['out']['ignored']
        v += ['Definition S1 := Eval vm_compute in failing lcase_agrees 0 [%s].' % c_lcase(names, agg_rules, pr['in'], pr['out']), 'Print S1.']
    if fn_ok:
        v += ['Open Scope string_scope.'] + ['Print %s.' % n for n in chunk_names]
    rc, cout = vlib.coq_eval(ctx, 'Cases_C04', '\n'.join(v), timeout=2400)
    if rc != 0:
        raise RuntimeError('case evaluation failed:\n' + cout[-3000:])
    phase('coq_eval')
    g = lambda m: vlib.parse_nat_list(cout, m) or []
    t0, l1, l2, l3, e1, e2 = g('T0'), g('L1'), g('L2'), g('L3'), g('E1'), g('E2')
    if lint_cases and g('S1') != [0]:
        raise RuntimeError('self-test failed: a perturbed observation was not flagged by Check.C04Check.lcase_agrees')
    # exhaustive function level: the table Coq computed from the model (Check/C04Table.v) against what /repo did
    f1, f2, fx, fn_in_domain = [], [], [], 0
    if fn_ok:
        chunks = dict(re.findall(r'(tbl_\w+) =\s*"((?:[^"]|"")*)"', cout, re.S))
        table = ''.join(chunks.get(n, '').replace('\n', '') for n in chunk_names)
        if len(table) != 4 * 6464 * len(GROUPS):
            raise RuntimeError('expected table has %d characters' % len(table))
        for i, r in enumerate(fn_ok):
            k = fn_index(r['code'])
            want = table[4 * k:4 * k + 4]
            got = fn_entry(r['in'], r['out'], full_provided)
            if got[:3] != want[:3]:
                f1.append(i)                    # model and implementation disagree
            if want[3] != '0':
                fn_in_domain += 1
                rep = (ord(got[2]) - 48) % 6    # observed: 0 not reported, else level code
                if rep != ord(want[3]) - 49:
                    f2.append(i)                # the README decision (as Coq computes it) is not what /repo did
            if got[3] != want[3]:
                fx.append(i)                    # python's and Coq's reading of the README differ: glue bug
        if fx and not f2:
            raise RuntimeError('python and Coq specifications disagree on case %r' % fn_ok[fx[0]]['code'])

    # ---- the property evaluated in python on the implementation's own outputs ---------------------------
    py_bad, py_checked, hist = [], 0, {}
    for r in fn_ok + ex_ok:
        cin, out = r['in'], r['out']
        if not triggered(cin):
            continue
        bd = builtin_default(cin, cin['cat'], cin['title'], full_provided)
        if bd is None:
            continue
        rl, cd, gd = user_levels(cin, cin['cat'], cin['title'])
        want = spec_decision(cin['params'], cin['cat'], cin['title'], rl, cd, gd, bd)
        got = observed_decision(cin, out)
        py_checked += 1
        hist[str(want)] = hist.get(str(want), 0) + 1
        ok = (want == got)
        # the level function and the enable predicate must tell the same story
        ok = ok and (out['ignored'] == (want is None)) and (out['level'] == (want if want is not None else 'ignore'))
        if cin['lint'] and not (out.get('lint_err') or ''):
            lv = [x for x in out['lint_violations'] if x[0] == cin['cat'] and x[1] == cin['title']]
            ok = ok and ((want is None and not lv) or (want is not None and lv and all(x[2] == want for x in lv)))
            # the list computed up front names the rule exactly when it reports
            ok = ok and ((cin['title'] in (out['enabled'] or [])) == (want is not None)) if not out['noticed_noinput'] else ok
        if not ok:
            py_bad.append(r)
    enabled_bad = []
    for r in lint_cases:
        cin, out = r['in'], r['out']
        if not cin['full_bundle'] or out.get('enabled_err'):
            continue
        nn = set(out['noticed_noinput'] or [])
        runnable = sorted([x.split('/', 1)[1] for x in (out['to_run_all'] or []) if x not in nn and x in set(bundled)] +
                          sorted({x[1] for x in out['lint_violations'] if cin['custom'] and (x[0], x[1]) == (C_CAT, C_TITLE)}))
        if sorted(out['enabled'] or []) != runnable and not (out.get('lint_err') or ''):
            enabled_bad.append(r)

    # ---- verdicts --------------------------------------------------------------------------------------
    def report_spec(r, what):
        cin = r['in']
        vlib.violation(ctx, {'kind': 'decision-vs-spec', 'case': cin, 'observed': {k: r['out'].get(k) for k in
                             ('go_entry', 'ignored', 'level', 'to_run', 'report', 'lint_violations', 'lint_err')},
                             'what': what},
                       signature={'kind': 'decision-vs-spec', 'key': sig_key(cin)})

    spec_bad = {r['id']: r for r in py_bad}
    for i in f2:
        spec_bad.setdefault(fn_ok[i]['id'], fn_ok[i])
    for i in l2:
        spec_bad.setdefault(lint_cases[i]['id'], lint_cases[i])
    for i in e2:
        spec_bad.setdefault(fnonly_cases[i]['id'], fnonly_cases[i])
    def want_got(r):
        cin = r['in']
        bd = builtin_default(cin, cin['cat'], cin['title'], full_provided)
        rl, cd, gd = user_levels(cin, cin['cat'], cin['title'])
        want = spec_decision(cin['params'], cin['cat'], cin['title'], rl, cd, gd, bd) if bd is not None else '?'
        return want, observed_decision(cin, r['out'])

    def deviation_class(r):
        want, got = want_got(r)
        shape = lambda x: 'off' if x is None else ('no-level' if x == '' else 'on')
        return (r['in']['custom'] and r['in']['cat'] == C_CAT, shape(want), shape(got))

    # one report per kind of deviation (smallest case of each), so that distinct defects are not hidden behind each other
    by_class = {}
    for r in sorted(spec_bad.values(), key=lambda r: size_of(r['in'])):
        by_class.setdefault(deviation_class(r), r)
    for r in list(by_class.values())[:4]:
        cin = r['in']
        want, got = want_got(r)
        lint_part = ''
        if cin['lint']:
            lv = sorted({x[2] for x in (r['out']['lint_violations'] or []) if x[0] == cin['cat'] and x[1] == cin['title']})
            lint_part = '; Linter.Lint reported it at levels %s, DetermineEnabledRules %s it' % (
                lv or 'none (not reported)', 'lists' if cin['title'] in (r['out']['enabled'] or []) else 'does not list')
        report_spec(r, 'rule %s/%s (%s): the documented precedence gives %s; main.report did %s (level_for_rule=%r, ignored_rule=%r, merged level=%r)%s'
                    % (cin['cat'], cin['title'], 'custom' if cin['custom'] and cin['cat'] == C_CAT else 'bundled',
                       'disabled' if want is None else 'level ' + str(want),
                       'not report' if got is None else 'report at level %r' % got,
                       r['out']['level'], r['out']['ignored'], r['out']['go_entry'], lint_part))
    elist_bad = {r['id']: r for r in enabled_bad}
    for i in l3:
        elist_bad.setdefault(lint_cases[i]['id'], lint_cases[i])
    for r in sorted(elist_bad.values(), key=lambda r: size_of(r['in']))[:1]:
        cin, out = r['in'], r['out']
        nn = set(out['noticed_noinput'] or [])
        runnable = sorted(x.split('/', 1)[1] for x in (out['to_run_all'] or []) if x not in nn and x in set(bundled))
        vlib.violation(ctx, {'kind': 'enabled-list', 'case': cin,
                             'only_in_enabled_list': sorted(set(out['enabled'] or []) - set(runnable) - {x[1] for x in out['lint_violations'] if (x[0], x[1]) == (C_CAT, C_TITLE)}),
                             'only_runnable': sorted(set(runnable) - set(out['enabled'] or [])),
                             'custom_rules_reporting': sorted({x[1] for x in out['lint_violations'] if (x[0], x[1]) == (C_CAT, C_TITLE)}),
                             'what': 'DetermineEnabledRules differs from the set of rules that can report'},
                       signature={'kind': 'enabled-list', 'key': sig_key(cin)})
    # correspondence only (no failing input found above)
    if not ctx.violations:
        if t0 != [1]:
            vlib.violation(ctx, {'kind': 'correspondence', 'relation': 'Gen/RulesTable.v bundled_rules = data.regal.rules[c][t] of the loaded bundle',
                                 'harness_bundled': bundled[:200]}, no_input=True)
        for lst, pool, rel in ((f1, fn_ok, 'Check.C04Check.case_agrees (function level, exhaustive)'),
                               (l1, lint_cases, 'Check.C04Check.lcase_agrees (Lint / DetermineEnabledRules)'),
                               (e1, fnonly_cases, 'Check.C04Check.case_agrees (explicit cases)')):
            if lst:
                r = min((pool[i] for i in lst), key=lambda r: size_of(r['in']))
                det = case_details(ctx, names, agg_rules, r)
                vlib.violation(ctx, {'kind': 'correspondence', 'relation': rel, 'case': r['in'], 'observed': r['out'],
                                     'disagreeing_parts': det, 'n_mismatches': len(lst)}, no_input=True)
                break
    for r in errs[:1]:
        if not ctx.violations:
            vlib.violation(ctx, {'kind': 'harness-error', 'case': r['in'], 'error': r['out']['err']}, no_input=True)
    proof_gate(ctx)

    distinct = len({json.dumps([r['in']['provided'], r['in']['user'], r['in']['no_user'], r['in']['params'], r['in']['cat'], r['in']['title'],
                                r['in']['full_bundle'], r['in']['custom'], r['in']['files'] if r['in']['lint'] else 0], sort_keys=True)
                    for r in fn_ok + ex_ok})
    sample = lambda r: {'in': r['in'], 'out': {k: r['out'].get(k) for k in ('go_entry', 'ignored', 'level', 'to_run', 'report')}}
    cov = proof_coverage(ctx, {
        'evaluations': len(fn_ok) + len(ex_ok),
        'distinct_nontrivial': distinct,
        'rule': 'function level: EXHAUSTIVE over provided level {missing, no level, ignore, warning, error} x user rule level {absent, no level, '
                'ignore, warning, error} x category default {absent, no level, 3 levels} x global default {none, 3 levels} x the 2^6 command line '
                'overrides naming / not naming the rule and its category (plus the no-user-config row), for bundled rule bugs/constant-condition and '
                'custom rule naming/my-rule (report + aggregate + aggregate_report bodies): real Linter.GetConfig merge, then real '
                'data.regal.config.{ignored_rule,level_for_rule,_force_*} and data.regal.main.{_rules_to_run,report,aggregate,aggregate_report}. '
                'Lint level: Linter.Lint (1 and 3 files) + DetermineEnabledRules/DetermineEnabledAggregateRules on sampled codes (reduced and real '
                'provided config) and on generated multi-rule configurations over the real bundle incl. odd level strings. '
                'distinct = distinct (provided, user document, params, rule, custom?, files) tuples',
        'fn_cases': len(fn_ok), 'fn_cases_in_spec_domain': fn_in_domain, 'lint_cases': len(lint_cases), 'explicit_fn_cases': len(fnonly_cases),
        'python_predicate_checked': py_checked, 'decision_histogram': hist,
        'lint_validation_errors': sum(1 for r in lint_cases if (r['out'].get('lint_err') or '').startswith('unknown-')),
        'mismatch_model_fn': len(f1), 'mismatch_spec_fn': len(f2), 'mismatch_model_lint': len(l1), 'mismatch_spec_lint': len(l2),
        'mismatch_enabled_list': len(l3) + len(enabled_bad), 'mismatch_python_predicate': len(py_bad), 'harness_errors': len(errs),
        'tables_agree_with_loaded_bundle': t0 == [1], 'phase_seconds': phases,
        'samples': [sample(r) for r in (fn_ok[len(fn_ok) // 3:len(fn_ok) // 3 + 1] + lint_cases[:1] + ex_ok[-1:])],
        'exhaustive': 'function level: yes (finite abstraction named by the property); Lint level: sampled',
    })
    return vlib.finish(ctx, 'proof', cov, [
        'gopkg.in/yaml.v3 + Config.UnmarshalYAML are exercised, not modelled: tools/props/c04.py transcribes the user document into the model config '
        '(level = the string under "level", else unset), a disagreement shows as a correspondence mismatch',
        'mergo.Merge is modelled on Config.Rules only (map-held Rule structs are replaced as a whole); Config.Defaults of the provided config is empty',
        'rule bodies, file exclusion (C05) and notices (C19) are oracle inputs of the model (booleans excluded / noticed)',
        'Linter.validate (unknown rule / category names) is not modelled: such cases are skipped at the Lint level and counted',
    ])


def case_details(ctx, names, agg_rules, r):
    cin, out = r['in'], r['out']
    v = ['From Regal Require Import Check.C04Check Gen.RulesTable.', 'Open Scope N_scope.',
         'Definition H_bundled : list (str * str) := ' + clist('(%s, %s)' % (cstr(c), cstr(t)) for c, t in names.pairs) + '.']
    if cin['lint']:
        v.append('Definition L := %s.' % c_lcase(names, agg_rules, cin, out))
        v.append('Definition C := lcase_full_ok L.')
        v.append('Definition D := Eval vm_compute in (map (fun b : bool => if b then 1 else 0) '
                 '[go_agrees C; rego_agrees C; main_agrees C; lint_agrees L; enabled_agrees L; enabled_agg_agrees L])%nat.')
        parts = ['go-merge', 'rego-functions', 'main.rego report/aggregate', 'Lint violations', 'DetermineEnabledRules', 'DetermineEnabledAggregateRules']
    else:
        v.append('Definition C := %s.' % c_ecase(cin, out))
        v.append('Definition D := Eval vm_compute in (map (fun b : bool => if b then 1 else 0) [go_agrees C; rego_agrees C; main_agrees C])%nat.')
        parts = ['go-merge', 'rego-functions', 'main.rego report/aggregate']
    v.append('Print D.')
    rc, cout = vlib.coq_eval(ctx, 'Det_C04', '\n'.join(v))
    d = vlib.parse_nat_list(cout, 'D') or []
    return [p for p, ok in zip(parts, d) if not ok]
