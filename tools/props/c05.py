"""C05: ignored files never produce violations; the Go and the Rego ignore matcher agree.

Four layers (plus the language server call sites), each compared (a) implementation against implementation / against the meaning of the
property (python, no model) and (b) implementation against the Coq model (Check/C05Check.v):
  pat   : one pattern x every relative path of depth <= 4 x 9 (prefix, file spelling) shapes, through
          config.FilterIgnoredPaths and through OPA (_pattern_compiler, _exclude, _file_name_relative_to_root)
  small : lists of patterns (CLI / config / per rule) on a few files: filterPaths, _global_ignore_patterns,
          excluded_file
  lint  : linter.Lint with a global and per-rule ignores for a built-in, a custom and a custom aggregate rule
  walk  : real directory trees given as DIRECTORY arguments (absolute, trailing separator, ".", relative; prefix = root,
          root + "/", none) to FilterIgnoredPaths / Lint / the binary; the names of the argument and of the directories above
          it come from the pattern alphabet; the model walks the tree itself (Model/Discover.v walk + Model/ExcludeWalk.v)
  lsp   : the language server (overlay test in package lsp): ignoreURI / getFilteredModules / uri.ToPath, documents opened and
          linted, workspaces loaded from real trees, for percent-encoded URIs of both client kinds; patterns in plain form
Round 3: the names of every layer include characters that are spelled differently as plain path, below an absolute directory and
in a file:// URI (space, %, #, ?, +, non-ASCII); URI names are percent-encoded as a client spells them.
The glob engine is an oracle: its answers are tabulated by the harness straight from gobwas/glob."""
import collections, json, os, re
from concurrent.futures import ThreadPoolExecutor
import vlib
from common import proof_gate, proof_coverage

KINDS = ('builtin', 'custom', 'agg')


# ---------------------------------------------------------------- wire format (see Check/C05Check.v)

def b8(n):
    return bytes([n])


def b16(n):
    assert 0 <= n < 65536, n
    return bytes([n >> 8, n & 255])


def bstr(x):
    b = x.encode('utf-8', 'surrogateescape') if isinstance(x, str) else bytes(x)
    return b16(len(b)) + b


def blist(items):
    items = list(items)
    return b16(len(items)) + b''.join(items)


def bstrs(l):
    return blist(bstr(x) for x in (l or []))


def bopt(x):
    return b8(0) if x is None else b8(1) + x


def bbits(h):
    z = int(h, 16)
    return bstr(z.to_bytes((z.bit_length() + 7) // 8, 'little'))


def btable(rows):
    return blist(bstr(r[0]) + bopt(None if r[1] == 'bad' else bstrs(r[2:])) for r in (rows or []))


def to_ints_v(data):
    """bytes -> Coq term of type list (list int): 7 bytes per primitive integer, little endian"""
    data = data + b'\0' * ((-len(data)) % 7)
    ints = [str(int.from_bytes(data[k:k + 7], 'little')) for k in range(0, len(data), 7)]
    return '[' + ';\n'.join('[' + ';'.join(ints[k:k + 1000]) + ']' for k in range(0, len(ints), 1000)) + ']'


HEAD = 'From Coq Require Import Uint63.\nFrom Regal Require Import Check.C05Check.\nOpen Scope uint63_scope.\n'


def pat_v(universe, shapes, cases):
    data = bstrs(universe)
    data += blist(bstr(s['prefix']) + bstrs(s['files']) + bstrs(s['rego_rel']) for s in shapes)
    data += blist(
        bstr(c['p']) + bstrs(c['compiler'])
        + blist(bstr(r['e']) + b8(1 if r['ok'] else 0) + bbits(r['mask']) for r in c['rows'])
        + blist(bopt(None if g in ('error', 'notsublist') else bbits(g)) for g in c['go'])
        + blist(bbits(g) for g in c['rego'])
        for c in cases)
    return (HEAD + 'Definition data : list (list int) := %s.\n' % to_ints_v(data) +
            'Definition R := Eval vm_compute in pat_report data.\n'
            'Definition RN := Eval vm_compute in [fst (fst R)].\nDefinition RB := Eval vm_compute in snd (fst R).\n'
            'Definition RR := Eval vm_compute in snd R.\nPrint RN. Print RB. Print RR.\n')


def small_v(cases):
    data = blist(
        bstr(c['prefix']) + bstrs(c['files']) + bstrs(c['cli']) + bopt(bstrs(c['cfg']) if c['cfg_set'] else None)
        + bstrs(c['rule']) + bstrs(c['cols']) + btable(c['table'])
        + bopt(None if c['go_err'] else bstrs(c['go_kept']))
        + bopt(bstrs(c['rego_global']) if c['rego_global_defined'] else None)
        + bstrs(c['rego_rel']) + blist(b16(j) for j in c['rego_excl']) + blist(b16(j) for j in c['rego_excl_global'])
        for c in cases)
    return (HEAD + 'Definition data : list (list int) := %s.\n' % to_ints_v(data) +
            'Definition R := Eval vm_compute in small_report data.\n'
            'Definition RN := Eval vm_compute in [fst R].\nDefinition RS := Eval vm_compute in snd R.\nPrint RN. Print RS.\n')


def lint_v(cases):
    def one(c):
        ign = c['rule_ignore']
        hit = c.get('hit') or {}
        return (bstr(c['prefix']) + bstrs(c['files']) + bstrs(c['cli']) + bopt(bstrs(c['cfg']) if c['cfg_set'] else None)
                + bstrs(ign.get('builtin')) + bstrs(ign.get('custom')) + bstrs(ign.get('agg'))
                + bstrs(c['cols']) + btable(c['table']) + b8(1 if c.get('err') else 0) + b16(c['files_scanned'])
                + bstrs(hit.get('builtin')) + bstrs(hit.get('custom')) + bstrs(hit.get('agg')))
    data = blist(one(c) for c in cases)
    return (HEAD + 'Definition data : list (list int) := %s.\n' % to_ints_v(data) +
            'Definition R := Eval vm_compute in lint_report data.\n'
            'Definition RN := Eval vm_compute in [fst R].\nDefinition RL := Eval vm_compute in snd R.\nPrint RN. Print RL.\n')


def lcase_bytes(c, files):
    ign = c['rule_ignore']
    hit = c.get('hit') or {}
    return (bstr(c['prefix']) + bstrs(files) + bstrs(c['cli']) + bopt(bstrs(c['cfg']) if c['cfg_set'] else None)
            + bstrs(ign.get('builtin')) + bstrs(ign.get('custom')) + bstrs(ign.get('agg'))
            + bstrs(c['cols']) + btable(c['table']) + b8(1 if c.get('err') else 0) + b16(c['files_scanned'])
            + bstrs(hit.get('builtin')) + bstrs(hit.get('custom')) + bstrs(hit.get('agg')))


def walk_tree(c):
    """the tree the argument denotes as nested dicts (None = file), from the entries below the root"""
    root = {}
    for e in c['entries']:
        cur = root
        parts = e['rel'].split('/')
        for d in parts[:-1]:
            cur = cur.setdefault(d, {})
        if e['kind'] == 'dir':
            cur.setdefault(parts[-1], {})
        else:
            cur[parts[-1]] = None
    for d in (c['sub'].split('/') if c['sub'] else []):
        root = root[d]
    return root


def bnode(t):
    if t is None:
        return b8(0)
    # os.ReadDir order: sorted by file name (bytes)
    return b8(1) + blist(bstr(k) + bnode(t[k]) for k in sorted(t, key=lambda x: x.encode()))


def walk_v(cases):
    data = blist(
        lcase_bytes(c, []) + bstr(c['arg']) + bnode(walk_tree(c)) + b8(1 if c['mode'] == 'filter' else 0)
        + bopt(None if c.get('err') else bstrs(c['kept']))
        for c in cases)
    return (HEAD + 'Definition data : list (list int) := %s.\n' % to_ints_v(data) +
            'Definition R := Eval vm_compute in walk_report data.\n'
            'Definition RN := Eval vm_compute in [fst R].\nDefinition RT := Eval vm_compute in snd R.\nPrint RN. Print RT.\n')


def lsp_v(cases):
    data = blist(
        b8(0 if c['kind'] == 'site' else 1) + b8(1 if c['client'] == 'vscode' else 0)
        + bstr(c['root']) + bstrs(c['uris']) + bstrs(c['ignore']) + bstrs(c['cols']) + btable(c['table'])
        + bstr(c['root_path']) + bstrs(c['paths'])
        + blist(b8(1 if x else 0) for x in c['ignored'])
        + bopt(bstrs(c['modules']) if c['kind'] == 'site' and c['modules_ok'] else None)
        for c in cases)
    return (HEAD + 'Definition data : list (list int) := %s.\n' % to_ints_v(data) +
            'Definition R := Eval vm_compute in lsp_report data.\n'
            'Definition RN := Eval vm_compute in [fst R].\nDefinition RW := Eval vm_compute in snd R.\nPrint RN. Print RW.\n')


TOKENS = ['a', 'b.rego', '*', '**', '?', '/', '[ab]']
COMPS = ['a', 'b', 'a.rego', 'b.rego']


def token_pool(k):
    cur, seen, res = [''], set(), []
    for _ in range(k):
        cur = list(dict.fromkeys(c + t for c in cur for t in TOKENS))
        for p in cur:
            if p not in seen:
                seen.add(p)
                res.append(p)
    return res


def rel_paths(depth):
    cur, res = [''], []
    for _ in range(depth):
        cur = [(c + '/' if c else '') + k for c in cur for k in COMPS]
        res += cur
    return res


# ---- language server: names are spelled differently as plain path, as absolute directory and as file:// URI
# (percent-encoded by the client); the ignore patterns are always written against the plain root-relative path

LSP_DIRS = ['a', 'b', 'a b', 'gen files', '\u00e9', '\u65e5', 'a#b', 'a?b', '50%', 'a+b', 'x%20y', 'pol\u00edtica']
LSP_FILES = ['a.rego', 'b.rego', 'p.rego', 'a b.rego', '\u00e9.rego', '\u65e5.rego', 'a#b.rego', 'a+b.rego', '50%.rego', 'a?b.rego',
             'x%20y.rego', 'a', 'b.json']
LSP_GLOBS = ['a?b', 'a?b.rego', 'a?b/', '*#*', '\u00e9', '\u00e9/', '/\u00e9', '\u65e5*', '?.rego', '* *', '* */', '/* */', '50%', '*%*', '50%/',
             'a%20b.rego', 'a%20b', 'x%20y', 'x%2520y', '/a b/', '**/a+b/**', 'a+b', 'a[ +]b', 'gen?files/', 'gen files/',
             '*.rego', '**/p.rego', 'a b/**/p.rego', '%C3%A9', '%c3%a9/', 'a%23b', '[#?]', '*[#?+]*', 'pol\u00edtica/', 'pol?tica']
# (workspace root URI, its plain path, client); VS Code spells a Windows drive "c%3A"
LSP_ROOTS = [('file:///w', '/w', 'generic'), ('file:///w', '/w', 'generic'), ('file:///my%20w', '/my w', 'generic'),
             ('file:///w/%C3%A9', '/w/\u00e9', 'generic'), ('file:///ws/50%25/x%23y', '/ws/50%/x#y', 'generic'),
             ('file:///w/a%2Bb', '/w/a+b', 'generic'), ('file:///w', '/w', 'vscode'), ('file:///c%3A/w', '/c:/w', 'vscode'),
             ('file:///c%3A/my%20w', '/c:/my w', 'vscode'), ('file:///c:/w', '/c:/w', 'vscode')]
UNRESERVED = set(b'ABCDEFGHIJKLMNOPQRSTUVWXYZabcdefghijklmnopqrstuvwxyz0123456789-_.~')


def uri_escape(seg, style='upper', rng=None):
    """one path segment as a client writes it into a URI: RFC 3986 unreserved characters stay, every other byte is %XY
    (what regal's uri.FromPath produces: url.QueryEscape with "+" replaced by "%20"); style 'lower': lower-case hex digits;
    style 'over': one unreserved character escaped as well (allowed, equivalent)"""
    bs = seg.encode()
    over = rng.below(len(bs)) if style == 'over' and rng is not None and bs else -1
    out = ''
    for k, b in enumerate(bs):
        if b in UNRESERVED and k != over:
            out += chr(b)
        else:
            out += ('%%%02x' if style == 'lower' else '%%%02X') % b
    return out


def uri_below(root_uri, rel, style='upper', rng=None):
    return root_uri + '/' + '/'.join(uri_escape(x, style, rng) for x in rel.split('/'))


def lsp_rel(rng):
    d = rng.below(3)
    return '/'.join([rng.choice(LSP_DIRS) for _ in range(d)] + [rng.choice(LSP_FILES)])


def lsp_patterns(rng, rels, pool, n):
    ign = []
    for _ in range(n):
        k = rng.below(10)
        if k == 0:
            ign.append('')
        elif k < 5:
            r = rng.choice(rels)
            ign.append(rng.choice([r, '/' + r, r.rsplit('/', 1)[0] + '/', r.rsplit('/', 1)[-1], r.split('/')[0], r.split('/')[0] + '/']))
        elif k < 8:
            ign.append(rng.choice(LSP_GLOBS))
        else:
            ign.append(rng.choice(pool))
    return ign


def lsp_inputs(ctx):
    rng = ctx.rng
    pool = token_pool(3)

    def site(root, client, rels, ignore, style='upper', extra=()):
        return {'kind': 'site', 'root': root, 'client': client, 'uris': [uri_below(root, r, style, rng) for r in rels] + [e[0] for e in extra],
                'rels': list(rels) + [e[1] for e in extra], 'ignore': ignore}
    fixed = [
        site('file:///w', 'generic', ['a.rego', 'a/b.rego', 'a'], ['a/']),
        site('file:///w', 'generic', ['a.rego', 'a/b.rego'], ['', '/a.rego']),
        site('file:///w', 'generic', ['a.rego', 'a/b.rego'], []),
        site('file:///w/x', 'generic', ['b/a.rego'], ['/b/'], extra=[('file:///w/b/a.rego', '')]),
        site('file:///w', 'generic', ['gen files/p.rego', 'main files/p.rego', '\u00e9/p.rego', 'a#b.rego'], ['gen files/', '\u00e9', 'a#b.rego']),
        site('file:///my%20w', 'generic', ['a b.rego', 'x/a b.rego', 'a+b.rego', '50%.rego'], ['/a b.rego', 'a+b.rego', '*%*']),
        site('file:///c%3A/w', 'vscode', ['gen files/p.rego', 'a.rego', '\u65e5/\u65e5.rego'], ['gen?files/', '\u65e5*'],
             extra=[('file:///c:/w/b%20c.rego', 'b c.rego')]),
        site('file:///w', 'generic', ['a b.rego', 'x%20y.rego'], ['a%20b.rego', 'x%2520y.rego', 'x%20y.rego']),
        # spellings outside what a client produces (no root-relative name given: only compared with the model)
        site('file:///w', 'generic', ['a.rego'], ['a+b.rego', 'a b.rego', '%zz.rego'],
             extra=[('file:///w/a+b.rego', ''), ('file:///w/%zz.rego', ''), ('file:///w/100%.rego', ''), ('/w/a%20b.rego', ''),
                    ('file:///w/%2', ''), ('file://w/a.rego', '')]),
        site('file:///c%3a/w', 'vscode', ['a b.rego'], ['a b.rego'], extra=[('file:///C%3A/w/a%20b.rego', ''), ('file://c:/w/a.rego', '')]),
        {'kind': 'diag', 'root': 'file:///w', 'client': 'generic', 'ignore': ['gen files/', 'vendor/'], 'rule_ignore': [],
         'rels': ['gen files/p.rego', 'vendor/p.rego', 'main files/p.rego', 'a.rego']},
        {'kind': 'diag', 'root': 'file:///my%20w', 'client': 'generic', 'ignore': ['\u00e9/', 'a#b.rego'], 'rule_ignore': ['plain/', 'a+b/'],
         'rels': ['\u00e9/p.rego', 'a#b.rego', 'plain/p.rego', 'a+b/p.rego', 'x/\u65e5.rego', 'b.json']},
        {'kind': 'load', 'client': 'generic', 'root_dir': ['an c', 'my proj'], 'ignore': ['gen files/', '\u65e5.rego'], 'rule_ignore': ['b#c/'],
         'files': ['gen files/p.rego', 'a.rego', 'b#c/p.rego', 'x/\u65e5.rego', 'plain/b.rego']},
        {'kind': 'load', 'client': 'vscode', 'root_dir': ['50%', '\u00e9'], 'ignore': ['/a b.rego', 'a+b/'], 'rule_ignore': [],
         'files': ['a b.rego', 'x/a b.rego', 'a+b/p.rego', 'p.rego']},
    ]
    for c in fixed:
        if c['kind'] == 'diag':
            c['uris'] = [uri_below(c['root'], r) for r in c['rels']]
        if c['kind'] == 'load':
            c['rels'] = list(c['files'])
    cases = list(fixed)
    n_site, n_diag, n_load = (170, 14, 8) if ctx.quick() else (1500, 100, 60)
    for _ in range(n_site):
        root, rootp, client = rng.choice(LSP_ROOTS)
        rels = list(dict.fromkeys(lsp_rel(rng) for _ in range(4 + rng.below(8))))
        style = rng.choice(['upper', 'upper', 'upper', 'lower', 'over'])
        extra = []
        if rng.below(6) == 0:
            extra.append(('file:///elsewhere/' + uri_escape(rng.choice(LSP_FILES)), ''))
        if client == 'vscode' and root.startswith('file:///c%3A') and rng.below(2) == 0:
            r = lsp_rel(rng)     # root and file differ in the way the drive letter is spelled
            extra.append((uri_below('file:///c:' + root[len('file:///c%3A'):], r), r))
        cases.append(site(root, client, rels, lsp_patterns(rng, rels, pool, rng.below(4)), style, extra))
    for _ in range(n_diag):
        root, rootp, client = rng.choice(LSP_ROOTS)
        rels = list(dict.fromkeys(lsp_rel(rng) for _ in range(4 + rng.below(5))))
        cases.append({'kind': 'diag', 'root': root, 'client': client, 'rels': rels, 'uris': [uri_below(root, r) for r in rels],
                      'ignore': lsp_patterns(rng, rels, pool, 1 + rng.below(3)), 'rule_ignore': lsp_patterns(rng, rels, pool, rng.below(3))})
    for _ in range(n_load):
        files = list(dict.fromkeys(lsp_rel(rng) for _ in range(4 + rng.below(5))))
        files = [f for f in files if not any(f.startswith(g + '/') or g.startswith(f + '/') for g in files)]  # no file/directory clash
        cases.append({'kind': 'load', 'client': rng.choice(['generic', 'generic', 'vscode']),
                      'root_dir': [rng.choice(LSP_DIRS) for _ in range(1 + rng.below(2))], 'files': files, 'rels': list(files),
                      'ignore': lsp_patterns(rng, files, pool, 1 + rng.below(3)), 'rule_ignore': lsp_patterns(rng, files, pool, rng.below(2))})
    return cases


LSP_IN_KEYS = ('kind', 'root', 'client', 'uris', 'rels', 'ignore', 'rule_ignore', 'root_dir', 'files')


def run_lsp(ctx, cases):
    inp, outp = os.path.join(ctx.tmp, 'lsp_in.json'), os.path.join(ctx.tmp, 'lsp_out.json')
    work = os.path.join(ctx.tmp, 'lspwork')
    os.makedirs(work, exist_ok=True)
    json.dump({'work': work, 'cases': [{k: c.get(k) for k in LSP_IN_KEYS if c.get(k) is not None} for c in cases]}, open(inp, 'w'))
    rc, log = vlib.go_test_overlay(
        ctx, './internal/lsp',
        {'internal/lsp/zz_verif_c05_test.go': os.path.join(vlib.VERIF, 'harness', 'overlay', 'c05_test.go')},
        'TestVerifC05', env_extra={'VERIF_C05_IN': inp, 'VERIF_C05_OUT': outp}, timeout=1500)
    if rc != 0 or not os.path.exists(outp):
        if 'build failed' in log or ('.go:' in log and 'FAIL' in log and 'panic' not in log):
            raise vlib.HarnessBuildError(log)
        raise RuntimeError('c05 overlay test failed:\n' + log[-3000:])
    res = json.load(open(outp))
    # real trees live below the temporary work directory: spell it /W
    return [json.loads(json.dumps(c).replace(json.dumps(work + '/l%d' % i)[1:-1], '/W')) if c['kind'] == 'load' else c
            for i, c in enumerate(res)]


LSP_RULE = 'prefer-snake-case'


def lsp_root_relative_text(c, u):
    """the text of the URI behind the root URI (what a matcher that does not decode is handed)"""
    return u[len(c['root']) + 1:] if u.startswith(c['root'] + '/') else None


def lsp_predicate(c):
    """meaning of the property for the language server, evaluated on the implementation alone: the reference is the
    matcher itself asked (as on the command line, without prefix) about the plain root-relative path of every URI.
    A file whose path matches a global pattern is ignored by ignoreURI, dropped by getFilteredModules, never among the
    files to lint and never gets diagnostics; a file matching no pattern is never dropped and does get diagnostics;
    a file matching the rule's own list gets no diagnostic of that rule.  Returns [(what, uri index, known)]"""
    if c.get('panic'):
        return []
    any_bad = any(r[1] == 'bad' for r in (c['table'] or []))
    if c.get('err'):
        return [] if any_bad else [('language server failed: %s' % c['err'], None, False)]
    out = []
    if c['kind'] == 'site' and not (c['modules_ok'] and c['direct_ok']) and not any_bad:
        out.append(('getFilteredModules / FilterIgnoredPaths returned an error although every expansion compiles', None, False))
    mods, direct = set(c.get('modules') or []), set(c.get('direct') or [])
    for i, u in enumerate(c['uris']):
        rk, rel = c['rel_kept'][i], c['rels'][i]
        if rk == -2:
            continue   # no root-relative name (not below the root / not a URI a client produces): only compared with the model
        if rk == -1:
            continue   # an expansion does not compile: outside the domain
        matching = rk == 0
        exp_ignored = matching or not u.endswith('.rego')
        why = 'root-relative path %r %s global pattern of %r' % (rel, 'matches a' if matching else 'matches no', c['ignore'])
        if c['kind'] == 'site':
            if c['ignored'][i] != exp_ignored:
                out.append(('ignoreURI(%r) = %s, but the %s' % (u, c['ignored'][i], why), i, False))
            if c['modules_ok'] and (u in mods) == matching:
                out.append(('getFilteredModules %s %r, but the %s' % ('keeps' if u in mods else 'drops', u, why), i, False))
            if c['direct_ok'] and (c['paths'][i] in direct) == matching:
                out.append(('FilterIgnoredPaths on uri.ToPath(%r) = %r with prefix %r %s it, but the %s' % (
                    u, c['paths'][i], c['root_path'], 'keeps' if c['paths'][i] in direct else 'drops', why), i, False))
            continue
        in_files, diags = not c['ignored'][i], c['diags'][i]
        if exp_ignored:
            if in_files:
                out.append(('%r is among the files to lint, but the %s' % (u, why), i, False))
            if diags:
                out.append(('%r got diagnostics %r, but the %s' % (u, diags, why), i, False))
            if c['kind'] == 'diag' and u.endswith('.rego') and not c['in_ignored'][i]:
                out.append(('%r is not among the ignored files of the cache, but the %s' % (u, why), i, False))
            continue
        if not in_files:
            out.append(('%r was dropped (not among the files to lint), but the %s' % (u, why), i, False))
            continue
        rr = c['rel_rule_kept'][i]
        if rr == -1:
            continue
        has = LSP_RULE in diags
        # open finding: the linter (second global filter, per-rule lists; Go and Rego alike) relativises the URI without decoding
        # it. Only observations that this mechanism explains carry its signature: the URI's text behind the root differs from the
        # path, and the matcher asked about that ENCODED text answers the way the server behaved
        differs = lsp_root_relative_text(c, u) != rel
        ek, er = c['enc_kept'][i], c['enc_rule_kept'][i]
        if rr == 0 and has:
            out.append(('%r got a %s diagnostic, but its root-relative path %r matches the rule\'s own ignore list %r' % (
                u, LSP_RULE, rel, c['rule_ignore']), i, differs and ek == 1 and er == 1))
        if rr == 1 and not has:
            out.append(('%r got no %s diagnostic (diagnostics: %r), but its root-relative path %r matches neither a global pattern of %r '
                        'nor the rule\'s own list %r' % (u, LSP_RULE, diags, rel, c['ignore'], c['rule_ignore']), i,
                        differs and (ek == 0 or er == 0)))
    return out


def lsp_minimal(c, i):
    """the stored case: for the call sites the one URI suffices"""
    keep = {k: c.get(k) for k in LSP_IN_KEYS if c.get(k) is not None}
    if c['kind'] == 'site' and i is not None:
        keep['uris'], keep['rels'] = [c['uris'][i]], [c['rels'][i]]
    if c['kind'] == 'load':
        keep.pop('root', None)
        keep.pop('uris', None)
    keep['kind'] = 'lsp'
    keep['lsp_kind'] = c['kind']
    return keep


def codes(out, marker, expect_n):
    n = vlib.parse_nat_list(out, 'RN')
    l = vlib.parse_nat_list(out, marker)
    if l is None or n != [expect_n] or 99999999 in l:
        raise RuntimeError('Coq decoded %r cases (sent %d), %s = %r:\n%s' % (n, expect_n, marker, l, out[-2000:]))
    d = collections.defaultdict(list)
    for x in l:
        d[x // 10000].append(x % 10000)
    return d


# ---------------------------------------------------------------- predicates on the implementation (no model)

def bits(h, n):
    z = int(h, 16)
    return [(z >> i) & 1 == 1 for i in range(n)]


def pat_predicate(c, shapes):
    """the two matchers, driven through the real code, exclude the same files of every shape"""
    bad = []
    for si, s in enumerate(shapes):
        g, r = c['go'][si], c['rego'][si]
        if g == 'error':
            continue
        if g == 'notsublist':
            bad.append({'shape': s['name'], 'what': 'FilterIgnoredPaths did not return an order-preserving sublist'})
            continue
        if g != r:
            gb, rb = bits(g, len(s['files'])), bits(r, len(s['files']))
            j = next(i for i in range(len(gb)) if gb[i] != rb[i])
            bad.append({'shape': s['name'], 'prefix': s['prefix'], 'file': s['files'][j], 'go_excluded': gb[j], 'rego_excluded': rb[j],
                        'n_files_differ': sum(1 for i in range(len(gb)) if gb[i] != rb[i]),
                        'min_shape': {'name': s['name'], 'prefix': s['prefix'], 'lead': s['lead'], 'full': False,
                                      'files': [s['files'][j]], 'rel': [s['rel'][j]]}})
    # "with or without a project root prefix": the shapes of one group name the same files relative to their prefix (plain, below an
    # absolute directory, as file:// URI with the path percent-encoded) -- the pattern must exclude the same ones in each
    groups = collections.OrderedDict()
    for si, s in enumerate(shapes):
        if s.get('group'):
            groups.setdefault(s['group'], []).append(si)
    for sis in groups.values():
        ref = sis[0]
        if c['go'][ref] in ('error', 'notsublist'):
            continue
        n = len(shapes[ref]['files'])
        rb = bits(c['go'][ref], n)
        for si in sis[1:]:
            if c['go'][si] in ('error', 'notsublist') or c['go'][si] == c['go'][ref]:
                continue
            s, gb = shapes[si], bits(c['go'][si], n)
            seen = set()
            for j in range(n):
                if gb[j] == rb[j]:
                    continue
                # open finding: a matcher that only trims the prefix sees the percent-encoded text of the URI
                known = bool(s.get('enc')) and s['files'][j][len(s['lead']):] != s['rel'][j]
                if known in seen:
                    continue
                seen.add(known)
                mins = [{'name': x['name'], 'prefix': x['prefix'], 'lead': x['lead'], 'full': False, 'group': x['group'], 'enc': x.get('enc', False),
                         'files': [x['files'][j]], 'rel': [x['rel'][j]]} for x in (shapes[ref], s)]
                bad.append({'shape': s['name'], 'cross': True, 'known': known, 'prefix': s['prefix'], 'file': s['files'][j], 'rel': s['rel'][j],
                            'excluded_here': gb[j], 'excluded_without_prefix': rb[j], 'min_shapes': mins})
    return bad


def go_error_explained(rows_bad, err):
    return rows_bad


def small_predicate(c):
    """FilterIgnoredPaths keeps exactly the files Rego's global excluded_file check lets through, in order"""
    if c['files'] == ['-']:
        return None if c['go_kept'] == ['-'] else 'stdin marker not returned as is'
    any_bad = any(r[1] == 'bad' for r in (c['table'] or []))
    if c['go_err']:
        return None if any_bad else 'FilterIgnoredPaths returned an error although every expansion compiles'
    exp = [f for j, f in enumerate(c['files']) if j not in set(c['rego_excl_global'])]
    if c['go_kept'] != exp:
        if any_bad:
            return None  # Rego treats an uncompilable expansion as "no match": outside the domain
        return 'FilterIgnoredPaths kept %r, Rego excluded_file (global part) lets through %r' % (c['go_kept'], exp)
    # the rule list can only exclude more
    if not set(c['rego_excl_global']) <= set(c['rego_excl']):
        return 'excluded_file with a rule list excludes fewer files than without'
    return None


def walk_root_matched(c):
    """some single-component pattern of the case matches (as a shell glob) the name of the project root or of a directory
    above it (evidence only: how often the direction of seeded change C05-4 is exercised)"""
    import fnmatch
    names = c['root'].split('/')[2:]
    pats = (c['cli'] or []) + (c['cfg'] or []) + sum((c['rule_ignore'].get(k) or [] for k in KINDS), [])
    for p in pats:
        q = p.strip('/')
        if q and '/' not in q and any(fnmatch.fnmatchcase(n, q) for n in names):
            return True
    return False


def cli_relative_elsewhere(c):
    """CLI run whose path argument is relative to a working directory other than the project root"""
    return c['mode'] == 'cli' and not c['arg'].startswith('/') and c.get('cwd', '') != ''


def lint_true_rel(c):
    if c['mode'] == 'cli':
        return c['rel']                          # root-relative by construction, however the argument is spelled
    if c['prefix'] == '' and c['mode'] in ('paths-abs', 'modules-abs'):
        return [f[1:] for f in c['files']]       # no prefix: relative to the file system root
    return c['rel']


def lint_seen_rel(c):
    """the text a matcher that only trims the prefix is handed (differs from the root-relative path for percent-encoded URIs)"""
    if c['mode'] == 'modules-uri' and c['prefix']:
        pre = c['prefix'].rstrip('/') + '/'
        return [f[len(pre):] if f.startswith(pre) else f for f in c['files']]
    return None


def lint_uri_encoded_known(c):
    """open finding (round 3): file:// names are relativised without percent-decoding. True when the case fails against the
    root-relative paths, some name is spelled differently in its URI, and the very same predicate holds for the encoded text"""
    seen = lint_seen_rel(c)
    return seen is not None and seen != lint_true_rel(c) and lint_predicate(c, seen) is None


def lint_predicate(c, rel_override=None):
    """meaning of the property, evaluated with the engine table and Regal's own expansion of each pattern"""
    tbl = {r[0]: (None if r[1] == 'bad' else set(r[2:])) for r in (c['table'] or [])}

    def match(p, r):
        if p == '':
            return False
        return any(tbl.get(e) is not None and r in tbl[e] for e in c['compiler'][p])

    def match_any(ps, r):
        return any(match(p, r) for p in ps)
    if c.get('err'):
        if any(v is None for v in tbl.values()):
            return None
        return 'Lint failed: %s' % c['err']
    glob = c['cli'] if c['cli'] else (c['cfg'] if c['cfg_set'] else [])
    rel = rel_override if rel_override is not None else lint_true_rel(c)
    scanned = [i for i in range(len(rel)) if not match_any(glob, rel[i])]
    if c['files_scanned'] != len(scanned):
        drop = [c['files'][i] for i in range(len(rel)) if i not in scanned]
        return 'files_scanned = %d, but %d of %d files match no global ignore pattern (matching: %r)' % (
            c['files_scanned'], len(scanned), len(rel), drop)
    for k in KINDS:
        ign = c['rule_ignore'].get(k, [])
        exp = sorted(c['files'][i] for i in scanned if not match_any(ign, rel[i]))
        if k == 'agg' and (len(scanned) < 2 or match_any(glob + ign, '__aggregate_report__')):
            exp = []
        got = sorted(c['hit'][k])
        if got != exp:
            extra = sorted(set(got) - set(exp))
            missing = sorted(set(exp) - set(got))
            return '%s rule: violations in ignored files %r, none in unignored files %r' % (k, extra, missing)
    return None


WALK_SKIP = ('.git', '.idea', 'node_modules')


def walk_expected(c):
    """what the property says a directory argument yields, from the tree alone: the .rego files below the argument
    that are not below a skipped directory, in walk order, as (root-relative name, name as the walk spells it)"""
    sub = c['sub']
    own = os.path.basename(c['arg'].rstrip('/') or '/')
    if own in WALK_SKIP:
        return []
    out = []
    for e in c['entries']:
        rel = e['rel']
        if e['kind'] != 'file' or not rel.endswith('.rego') or (sub and not rel.startswith(sub + '/')):
            continue
        below = rel[len(sub) + 1:] if sub else rel
        if any(d in WALK_SKIP for d in below.split('/')[:-1]):
            continue
        out.append((below.split('/'), rel, os.path.normpath(os.path.join(c['arg'], below))))
    out.sort(key=lambda x: [k.encode() for k in x[0]])
    return [(rel, sp) for _, rel, sp in out]


def walk_predicate(c):
    """patterns apply to the path relative to the project root (the prefix) only -- never to the root's own name or to
    the directories above it; without a prefix an absolute name is relative to the file system root (documented)"""
    tbl = {r[0]: (None if r[1] == 'bad' else set(r[2:])) for r in (c['table'] or [])}

    def match(p, r):
        return p != '' and any(tbl.get(e) is not None and r in tbl[e] for e in c['compiler'][p])

    def match_any(ps, r):
        return any(match(p, r) for p in ps)
    if c.get('err'):
        if any(v is None for v in tbl.values()):
            return None
        return 'failed: %s' % c['err']
    exp = walk_expected(c)
    glob = c['cli'] if c['cli'] else (c['cfg'] if c['cfg_set'] else [])

    def true_rel(rel, spelled):
        if c['prefix'] == '' and not c['rel_arg']:
            return spelled[1:]
        return rel
    scanned = [(rel, sp) for rel, sp in exp if not match_any(glob, true_rel(rel, sp))]
    if c['mode'] == 'filter':
        if c['kept'] != [sp for _, sp in scanned]:
            missing = [sp for _, sp in scanned if sp not in c['kept']]
            extra = [k for k in c['kept'] if k not in [sp for _, sp in scanned]]
            return 'FilterIgnoredPaths([%s], %r, true, %r): dropped although matching no pattern %r, kept although matching %r%s' % (
                c['arg'], glob, c['prefix'], missing, extra, '' if missing or extra else ' (order differs)')
        return None
    if c['files_scanned'] != len(scanned):
        return 'files_scanned = %d, but %d of the %d files below the argument match no global ignore pattern (not matching: %r)' % (
            c['files_scanned'], len(scanned), len(exp), [sp for _, sp in scanned])
    for k in KINDS:
        ign = c['rule_ignore'].get(k, [])
        want = sorted(sp for rel, sp in scanned if not match_any(ign, true_rel(rel, sp)))
        if k == 'agg' and (len(scanned) < 2 or match_any(glob + ign, '__aggregate_report__')):
            want = []
        got = sorted(c['hit'][k])
        if got != want:
            return '%s rule: violations in ignored files %r, none in unignored files %r' % (
                k, sorted(set(got) - set(want)), sorted(set(want) - set(got)))
    return None


# ---------------------------------------------------------------- run

def run(ctx):
    import time
    tm = {'coq_build_and_props': round(time.time() - ctx.t0, 1)}
    t1 = time.time()
    with ThreadPoolExecutor(max_workers=2) as ex1:
        fb = ex1.submit(vlib.build_regal, ctx)
        h = vlib.build_harness(ctx, 'c05')
        regal_bin = fb.result()
    tm['harness_build'] = round(time.time() - t1, 1)
    t1 = time.time()
    out = os.path.join(ctx.tmp, 'c05.jsonl')
    work = os.path.join(ctx.tmp, 'work')
    os.makedirs(work)
    corpus = os.path.join(vlib.VERIF, 'corpus', 'C05', 'patterns.json')
    cmd = [h, out, ctx.tier, work, corpus]
    if ctx.replay:
        cmd.append(ctx.replay)
    replay_kind = None
    if ctx.replay:
        replay_kind = (json.load(open(ctx.replay)).get('case') or {}).get('kind')
    lsp_in = []
    if not ctx.replay:
        lsp_in = lsp_inputs(ctx)
    elif replay_kind == 'lsp':
        rc0 = json.load(open(ctx.replay))['case']
        lsp_in = [dict({k: rc0[k] for k in LSP_IN_KEYS if rc0.get(k) is not None}, kind=rc0.get('lsp_kind', 'site'),
                       client=rc0.get('client', 'generic'))]
        if 'rels' not in lsp_in[0]:
            lsp_in[0]['rels'] = ['' for _ in lsp_in[0]['uris']]
    with ThreadPoolExecutor(max_workers=2) as ex0:
        fut = ex0.submit(run_lsp, ctx, lsp_in) if lsp_in else None
        if replay_kind == 'lsp':
            rc, log = 0, ''
            open(out, 'w').close()
        else:
            rc, log = vlib.run(cmd, env=dict(os.environ, VERIF_SEED=str(ctx.seed), VERIF_C05_REGAL=regal_bin), timeout=1500)
        lsps = fut.result() if fut else []
    if rc != 0:
        raise RuntimeError('c05 harness failed: ' + log[-3000:])
    tm['harness_and_lsp_run'] = round(time.time() - t1, 1)
    t1 = time.time()
    rows = [json.loads(l) for l in open(out)]
    universe = next((r['cols'] for r in rows if r['kind'] == 'universe'), [])
    shapes = [r['shape'] for r in rows if r['kind'] == 'shape']
    pats = [r for r in rows if r['kind'] == 'pat']
    smalls = [r for r in rows if r['kind'] == 'small']
    lints = [r for r in rows if r['kind'] == 'lint']
    panics = [r for r in rows if r['kind'] == 'engine-panic']
    walks = [r for r in rows if r['kind'] == 'walk']

    # ---- model side: evaluate the cases inside Coq (chunks in parallel)
    chunk = 160 if ctx.quick() else 250
    jobs = []
    for lo in range(0, len(pats), chunk):
        jobs.append(('pat', lo, len(pats[lo:lo + chunk]), pat_v(universe, shapes, pats[lo:lo + chunk])))
    for lo in range(0, len(smalls), 90):
        jobs.append(('small', lo, len(smalls[lo:lo + 90]), small_v(smalls[lo:lo + 90])))
    for lo in range(0, len(lints), 100):
        jobs.append(('lint', lo, len(lints[lo:lo + 100]), lint_v(lints[lo:lo + 100])))

    lsp_panics = [c for c in lsps if c.get('panic')]
    lsp_all = lsps
    lsps = [c for c in lsps if not c.get('panic') and not c.get('err')]   # (a failed run is reported by the predicate)
    for lo in range(0, len(lsps), 100):
        jobs.append(('lsp', lo, len(lsps[lo:lo + 100]), lsp_v(lsps[lo:lo + 100])))
    for lo in range(0, len(walks), 150):
        jobs.append(('walk', lo, len(walks[lo:lo + 150]), walk_v(walks[lo:lo + 150])))

    def ev(job):
        kind, lo, n, text = job
        rc, cout = vlib.coq_eval(ctx, 'Cases_C05_%s_%d' % (kind, lo), text, timeout=1500)
        if rc != 0:
            raise RuntimeError('case evaluation failed (%s %d):\n%s' % (kind, lo, cout[-3000:]))
        return kind, lo, n, cout
    pat_fail, small_fail, lint_fail, lsp_fail, rel_fail = {}, {}, {}, {}, set()
    walk_fail = {}
    with ThreadPoolExecutor(max_workers=min(14, max(1, len(jobs)))) as ex:
        for kind, lo, n, cout in ex.map(ev, jobs):
            if kind == 'pat':
                for i, cs in codes(cout, 'RB', n).items():
                    pat_fail[lo + i] = cs
                rel_fail |= set(vlib.parse_nat_list(cout, 'RR') or [])
            elif kind == 'small':
                for i, cs in codes(cout, 'RS', n).items():
                    small_fail[lo + i] = cs
            elif kind == 'lsp':
                for i, cs in codes(cout, 'RW', n).items():
                    lsp_fail[lo + i] = cs
            elif kind == 'walk':
                for i, cs in codes(cout, 'RT', n).items():
                    walk_fail[lo + i] = cs
            else:
                for i, cs in codes(cout, 'RL', n).items():
                    lint_fail[lo + i] = cs

    tm['coq_case_evaluation'] = round(time.time() - t1, 1)

    # ---- implementation side
    explained = set()
    n_go_err = n_go_err_unexplained = n_uri_known = 0
    pat_viol = 0
    for i, c in enumerate(pats):
        rows_bad = any(not r['ok'] for r in c['rows'])
        if 'error' in c['go']:
            n_go_err += 1
            if not rows_bad:
                n_go_err_unexplained += 1
                vlib.violation(ctx, {'kind': 'go-error', 'case': {'kind': 'pat', 'p': c['p']},
                                     'what': 'FilterIgnoredPaths failed on pattern %r although all its expansions compile: %s'
                                             % (c['p'], c.get('go_err'))},
                               signature={'kind': 'go-error', 'key': c['p']})
            continue
        bad = pat_predicate(c, shapes)
        for b in [b for b in bad if b.get('cross') and b['known']]:
            n_uri_known += 1
            vlib.violation(ctx, {'kind': 'lsp-uri-encoded-name', 'case': {'kind': 'pat', 'p': c['p'], 'shapes': b['min_shapes']},
                                 'what': 'pattern %r: FilterIgnoredPaths with prefix %r excluded=%s for %r, but excluded=%s for the same relative path %r '
                                         'without prefix' % (c['p'], b['prefix'], b['excluded_here'], b['file'], b['excluded_without_prefix'], b['rel'])},
                           signature={'kind': 'lsp-uri-encoded-name', 'key': 'linter filters see the percent-encoded root-relative name of a URI'})
        bad = [b for b in bad if not (b.get('cross') and b['known'])]
        cross = [b for b in bad if b.get('cross')]
        bad = [b for b in bad if not b.get('cross')]
        if cross and not bad:
            explained.add(('pat', i))
            pat_viol += 1
            if pat_viol <= 3:
                b = cross[0]
                vlib.violation(ctx, {'kind': 'prefix-dependence', 'case': {'kind': 'pat', 'p': c['p'], 'shapes': b['min_shapes']},
                                     'observation': {k: v for k, v in b.items() if k != 'min_shapes'},
                                     'what': 'pattern %r: FilterIgnoredPaths with prefix %r excluded=%s for %r, but excluded=%s for the same relative path %r '
                                             'without prefix' % (c['p'], b['prefix'], b['excluded_here'], b['file'], b['excluded_without_prefix'], b['rel'])},
                               signature={'kind': 'prefix-dependence', 'key': json.dumps([c['p'], b['prefix'], b['file']])})
        if bad:
            explained.add(('pat', i))
            pat_viol += 1
            if pat_viol <= 3:
                b = min(bad, key=lambda b: (len(b.get('file', '')), b['shape']))
                vlib.violation(ctx, {'kind': 'matchers-disagree', 'case': {'kind': 'pat', 'p': c['p'], 'shape': b.get('min_shape')},
                                     'observation': {k: v for k, v in b.items() if k != 'min_shape'},
                                     'all_shapes': [x['shape'] for x in bad],
                                     'what': 'pattern %r, path prefix %r, file %r: Go (FilterIgnoredPaths) excluded=%s, Rego (_exclude on '
                                             '_file_name_relative_to_root) excluded=%s' % (c['p'], b.get('prefix'), b.get('file'),
                                                                                          b.get('go_excluded'), b.get('rego_excluded'))},
                               signature={'kind': 'matchers-disagree', 'key': json.dumps([c['p'], b.get('prefix'), b.get('file')])})
    small_viol = 0
    for i, c in enumerate(smalls):
        w = small_predicate(c)
        if w:
            explained.add(('small', i))
            small_viol += 1
            if small_viol <= 2:
                vlib.violation(ctx, {'kind': 'filter-vs-rego', 'case': c, 'what': w},
                               signature={'kind': 'filter-vs-rego', 'key': json.dumps([c['prefix'], c['files'], c['cli'], c['cfg'], c['rule']])})
    lint_viol = n_cli_rel = 0
    for i, c in enumerate(lints):
        w = lint_predicate(c)
        if w:
            if not cli_relative_elsewhere(c) and not lint_uri_encoded_known(c):
                explained.add(('lint', i))   # (the known finding must not hide a model mismatch on the same case)
            if lint_uri_encoded_known(c):
                n_uri_known += 1
                vlib.violation(ctx, {'kind': 'lsp-uri-encoded-name', 'case': c,
                                     'what': 'Lint(%s, prefix %r), cli %r, config %r, per rule %r: %s' % (
                                         c['mode'], c['prefix'], c['cli'], c['cfg'] if c['cfg_set'] else None, c['rule_ignore'], w)},
                               signature={'kind': 'lsp-uri-encoded-name', 'key': 'linter filters see the percent-encoded root-relative name of a URI'})
                continue
            if cli_relative_elsewhere(c):
                # one call site, one cause: the names handed to both matchers are relative to the working directory
                n_cli_rel += 1
                vlib.violation(ctx, {'kind': 'cli-relative-spelling', 'case': c,
                                     'what': 'regal lint %s (cwd = root/%s), cli %r, config %r, per rule %r: %s' % (
                                         c['arg'], c['cwd'], c['cli'], c['cfg'] if c['cfg_set'] else None, c['rule_ignore'], w)},
                               signature={'kind': 'cli-relative-spelling',
                                          'key': 'relative path argument, working directory is not the project root'})
                continue
            lint_viol += 1
            if lint_viol <= 2:
                where = 'regal lint %s (cwd = root/%s)' % (c['arg'], c['cwd']) if c['mode'] == 'cli' else 'Lint(%s, prefix %r)' % (c['mode'], c['prefix'])
                vlib.violation(ctx, {'kind': 'lint', 'case': c, 'what': '%s, cli %r, config %r, per rule %r: %s' % (
                    where, c['cli'], c['cfg'] if c['cfg_set'] else None, c['rule_ignore'], w)},
                               signature={'kind': 'lint', 'key': json.dumps([c['mode'], c['prefix'], c.get('cwd'), c.get('arg'), c['files'],
                                                                             c['cli'], c['cfg'], c['rule_ignore']], sort_keys=True)})

    walk_viol = 0
    for i, c in enumerate(walks):
        w = walk_predicate(c)
        if w:
            explained.add(('walk', i))
            walk_viol += 1
            if walk_viol <= 3:
                how = {'filter': 'config.FilterIgnoredPaths', 'lint': 'linter.Lint(WithInputPaths)', 'cli': 'regal lint'}[c['mode']]
                vlib.violation(ctx, {'kind': 'walk', 'case': {k: c[k] for k in ('kind', 'src', 'mode', 'anc', 'root', 'entries', 'sub', 'arg', 'rel_arg',
                                                                                'prefix', 'cli', 'cfg', 'cfg_set', 'rule_ignore')},
                                     'observed': {k: c.get(k) for k in ('kept', 'files_scanned', 'hit', 'err')},
                                     'what': '%s on the directory %s (project root %s%s, prefix %r), cli %r, config %r, per rule %r: %s' % (
                                         how, c['arg'], c['root'], ', working directory = root' if c['rel_arg'] else '', c['prefix'], c['cli'],
                                         c['cfg'] if c['cfg_set'] else None, c['rule_ignore'], w)},
                               signature={'kind': 'walk', 'key': json.dumps([c['mode'], c['root'], c['sub'], c['arg'], c['prefix'], c['cli'], c['cfg'],
                                                                             c['rule_ignore'], [e['rel'] for e in c['entries']]], sort_keys=True)})

    lsp_viol = n_lsp_known = 0
    for c in lsp_all:
        if c.get('err') and lsp_predicate(c):
            lsp_viol += 1
            vlib.violation(ctx, {'kind': 'lsp', 'case': lsp_minimal(c, None), 'what': lsp_predicate(c)[0][0]},
                           signature={'kind': 'lsp', 'key': json.dumps(lsp_minimal(c, None), sort_keys=True)})
    for i, c in enumerate(lsps):
        ws = lsp_predicate(c)
        if not ws:
            continue
        if any(not known for _, _, known in ws):
            explained.add(('lsp', i))      # (the open finding must not hide a model mismatch on the same case)
        for w, j, known in ws:
            if known:
                n_lsp_known += 1
                vlib.violation(ctx, {'kind': 'lsp-uri-encoded-name', 'case': lsp_minimal(c, j),
                                     'what': 'language server (%s client), root %r, ignore %r, per rule ignore %r: %s' % (c['client'], c['root'], c['ignore'], c['rule_ignore'], w)},
                               signature={'kind': 'lsp-uri-encoded-name',
                                          'key': 'linter filters see the percent-encoded root-relative name of a URI'})
        ws = [x for x in ws if not x[2]]
        if ws:
            lsp_viol += 1
            if lsp_viol <= 3:
                w, j, _ = ws[0]
                how = {'site': 'call sites', 'diag': 'documents opened, then linted', 'load': 'workspace loaded from disk, then linted'}[c['kind']]
                vlib.violation(ctx, {'kind': 'lsp', 'case': lsp_minimal(c, j), 'n_observations': len(ws),
                                     'what': 'language server (%s client; %s), root %r, ignore %r: %s' % (c['client'], how, c['root'], c['ignore'], w)},
                               signature={'kind': 'lsp', 'key': json.dumps(lsp_minimal(c, j), sort_keys=True)})

    # ---- correspondence failures that no failing input explains
    corr = []
    for i, cs in sorted(pat_fail.items()):
        if ('pat', i) not in explained:
            corr.append({'layer': 'pat', 'pattern': pats[i]['p'], 'codes': cs,
                         'shapes': [shapes[x % 1000]['name'] for x in cs if x >= 1000]})
    for i, cs in sorted(small_fail.items()):
        if ('small', i) not in explained:
            corr.append({'layer': 'small', 'codes': cs, 'case': smalls[i]})
    for i, cs in sorted(lint_fail.items()):
        if ('lint', i) not in explained:
            corr.append({'layer': 'lint', 'codes': cs, 'case': lints[i]})
    for i, cs in sorted(lsp_fail.items()):
        if ('lsp', i) not in explained:
            corr.append({'layer': 'lsp', 'codes': cs, 'case': {k: lsps[i].get(k) for k in ('kind', 'client', 'root', 'uris', 'ignore', 'root_path',
                                                                                         'paths', 'ignored', 'modules')}})
    for i, cs in sorted(walk_fail.items()):
        if ('walk', i) not in explained:
            corr.append({'layer': 'walk', 'codes': cs, 'case': {k: walks[i].get(k) for k in ('mode', 'root', 'sub', 'arg', 'prefix', 'cli', 'cfg',
                                                                                           'rule_ignore', 'entries', 'kept', 'files_scanned', 'hit', 'err')}})
    for s in sorted(rel_fail):
        corr.append({'layer': 'relativise', 'shape': shapes[s]['name'], 'prefix': shapes[s]['prefix']})
    if corr and not ctx.violations:
        vlib.violation(ctx, {'kind': 'correspondence',
                             'relation': 'Check.C05Check (codes: pat 1 = rego_expand vs _pattern_compiler, 2 = oracle table lacks a row/column, '
                                         '1000+s = go_exclude_file/go_rel vs FilterIgnoredPaths on shape s, 2000+s = rego_exclude/rego_rel vs '
                                         '_exclude; small 1 = go_filter_ignored_paths, 2 = rego_global, 3 = rego_rel, 4/5 = rego_excluded_file, '
                                         '9 = table; walk 1 = error, 7 = go_walk_filter (Discover.walk + go_filter_paths) vs FilterIgnoredPaths on a directory, '
                                         '2..5 = lint codes with the files the model walk finds, 9 = table; lsp 1 = lsp_ignore_uri vs ignoreURI, 2 = lsp_filtered_modules vs getFilteredModules; lint 1 = error, 2 = files_scanned, 3/4/5 = hits of builtin/custom/aggregate rule, 9 = table)',
                             'n_mismatches': len(corr), 'first': corr[:5]}, no_input=True)
    proof_gate(ctx)

    # ---- evidence
    nfiles = sum(len(s['files']) for s in shapes)
    full = [si for si, s in enumerate(shapes) if s.get('full')]
    nontrivial = 0
    behaviours = set()
    for c in pats:
        if 'error' in c['go'] or not full:
            continue
        g = c['go'][full[0]]
        n = len(shapes[full[0]]['files'])
        behaviours.add(g)
        if int(g, 16) not in (0, (1 << n) - 1):
            nontrivial += 1
    small_nt = sum(1 for c in smalls if not c['go_err'] and 0 < len(c['go_kept']) < len(c['files']))
    lint_nt = sum(1 for c in lints if not c.get('err') and (0 < c['files_scanned'] < len(c['files'])
                                                             or any(0 < len(c['hit'][k]) < c['files_scanned'] for k in KINDS)))
    hist_src = collections.Counter(c['src'] for c in pats)
    hist_exp = collections.Counter(len(c['compiler']) for c in pats)
    samples = []
    if pats:
        c = pats[len(pats) // 3]
        samples.append({'p': c['p'], 'compiler': c['compiler'], 'go': c['go'][:3], 'rego': c['rego'][:3]})
    if smalls:
        samples.append({k: smalls[-1][k] for k in ('prefix', 'files', 'cli', 'cfg', 'rule', 'go_kept', 'rego_excl')})
    if lints:
        samples.append({k: lints[-1].get(k) for k in ('mode', 'prefix', 'cli', 'cfg', 'rule_ignore', 'files_scanned', 'hit')})
    cov = proof_coverage(ctx, {
        'evaluations': len(pats) * nfiles * 2 + sum(len(c['files']) for c in smalls) * 3 + len(lints) + sum(len(c['uris']) for c in lsps) * 2
                       + len(walks),
        'distinct_nontrivial': nontrivial + small_nt + lint_nt + sum(1 for c in lsps if 0 < sum(c['ignored']) < len(c['uris']))
                               + sum(1 for c in walks if not c.get('err') and 0 < c['files_scanned'] < len(walk_expected(c))),
        'rule': 'pat: every token pattern (<= 3 tokens exhaustive, 4 tokens %s) over {a, b.rego, *, **, ?, /, [ab]} plus odd and malformed '
                'ones, each against %d files in %d (prefix, spelling) shapes on both matchers; non-trivial = the pattern excludes some but '
                'not all of the 340 relative paths; plus the shape group "special" (36 paths over names with space, %%, #, ?, +, non-ASCII letters, '
                'plain / below absolute directories / percent-encoded below file:// prefixes) with the patterns naming them. small: pattern lists with distinct kept sets strictly between none and all. lint: runs '
                'where some file is dropped or some rule is silenced in some but not all files'
                % ('exhaustive' if ctx.tier == 'thorough' else 'sampled', nfiles, len(shapes)),
        'patterns': len(pats), 'patterns_nontrivial': nontrivial, 'distinct_behaviours_on_340_paths': len(behaviours),
        'patterns_by_source': dict(hist_src), 'patterns_by_number_of_expansions': {str(k): v for k, v in hist_exp.items()},
        'shapes': [{'name': s['name'], 'prefix': s['prefix'], 'files': len(s['files'])} for s in shapes],
        'small_cases': len(smalls), 'small_nontrivial': small_nt, 'lint_runs': len(lints), 'lint_nontrivial': lint_nt,
        'lint_modes': dict(collections.Counter('%s|%s|%s|%s' % (c['mode'], c['prefix'], c.get('cwd', ''), c.get('arg', '')) for c in lints)),
        'known_finding_cli_relative_spelling_cases': n_cli_rel,
        'outside_domain': {'go_error_uncompilable_expansion': n_go_err, 'engine_panics': [p['p'] for p in panics][:10],
                           'note': 'patterns with an expansion gobwas/glob cannot compile: Go aborts with an error, Rego treats it as '
                                   'no match (recorded, not flagged); patterns on which the engine itself panics are skipped'},
        'mismatch_model_pat': len(pat_fail), 'mismatch_model_small': len(small_fail), 'mismatch_model_lint': len(lint_fail),
        'mismatch_model_relativise': len(rel_fail), 'mismatch_model_lsp': len(lsp_fail), 'mismatch_model_walk': len(walk_fail),
        'walk_cases': len(walks), 'walk_modes': dict(collections.Counter(c['mode'] for c in walks)),
        'walk_argument_forms': dict(collections.Counter(
            ('.' if c['arg'] in ('.', './') else 'relative-sub' if c['rel_arg'] else 'absolute/' if c['arg'].endswith('/') else 'absolute')
            + ('|sub' if c['sub'] and not c['rel_arg'] else '') + '|prefix=' + ('none' if c['prefix'] == '' else 'root/' if c['prefix'].endswith('/') else 'root')
            for c in walks)),
        'walk_root_or_ancestor_name_matches_a_pattern': sum(1 for c in walks if walk_root_matched(c)),
        'walk_nontrivial': sum(1 for c in walks if not c.get('err') and 0 < c['files_scanned'] < len(walk_expected(c))),
        'lsp_cases': len(lsps), 'lsp_uris': sum(len(c['uris']) for c in lsps),
        'lsp_kinds': dict(collections.Counter('%s|%s' % (c['kind'], c['client']) for c in lsps)),
        'lsp_nontrivial': sum(1 for c in lsps if 0 < sum(c['ignored']) < len(c['uris'])),
        'lsp_uris_spelled_differently_from_their_path': sum(1 for c in lsps for u, r in zip(c['uris'], c['rels'])
                                                            if r and lsp_root_relative_text(c, u) != r),
        'lsp_ignored_uris_spelled_differently': sum(1 for c in lsps for u, r, k in zip(c['uris'], c['rels'], c['rel_kept'])
                                                    if r and k == 0 and lsp_root_relative_text(c, u) != r),
        'lsp_engine_panics': [{'ignore': c['ignore'], 'what': c['panic']} for c in lsp_panics][:10],
        'known_finding_lsp_uri_encoded_rule_ignore_cases': n_lsp_known, 'known_finding_uri_encoded_pattern_cases': n_uri_known,
        'predicate_failures': {'pat': pat_viol, 'small': small_viol, 'lint': lint_viol, 'lsp': lsp_viol, 'walk': walk_viol,
                               'go_error_unexplained': n_go_err_unexplained},
        'samples': samples, 'timing_s': tm,
        'exhaustive': False,
    })
    return vlib.finish(ctx, 'proof', cov, [
        'gobwas/glob (compiled with separator "/") is an oracle shared by both matchers: Section variables glob_ok/glob_match; '
        'for the correspondence its answers are tabulated by the harness directly from the library',
        'patterns are byte strings; Rego counts runes in _internal_slashes (c05_internal_slashes_rune_width shows the width is irrelevant)',
        'domain: every expansion of every non-empty pattern compiles; outside it Go returns an error and Rego says "no match" '
        '(c05_exclude_agree / c05_filter_exact_partial still hold, c05_filter_error_only_uncompilable characterises the error)',
        'rule bodies are an oracle (fires); the harness uses three rules that fire once in every file',
        'file discovery is Model/Discover.v walk (property C02) with the pinned constants (.rego; .git, .idea, node_modules); the walk layer '
        'composes it with the matcher on real trees given as directory arguments; the other lint cases pass explicit files; symbolic '
        'links and unreadable directories are outside',
        'language server: ignoreURI / getFilteredModules, textDocument/didOpen + updateAllDiagnostics and loadWorkspaceContents are driven '
        'directly (overlay test in package lsp, generic and VS Code client) with percent-encoded URIs; uri.ToPath is modelled '
        '(uri_to_path: url.QueryUnescape, drive letter form) and compared with the real one on every URI; the JSON-RPC transport and the '
        'asynchronous workers are outside',
    ])
