"""C05: ignored files never produce violations; the Go and the Rego ignore matcher agree.

Three layers, each compared (a) implementation against implementation / against the meaning of the
property (python, no model) and (b) implementation against the Coq model (Check/C05Check.v):
  pat   : one pattern x every relative path of depth <= 4 x 9 (prefix, file spelling) shapes, through
          config.FilterIgnoredPaths and through OPA (_pattern_compiler, _exclude, _file_name_relative_to_root)
  small : lists of patterns (CLI / config / per rule) on a few files: filterPaths, _global_ignore_patterns,
          excluded_file
  lint  : linter.Lint with a global and per-rule ignores for a built-in, a custom and a custom aggregate rule
The glob engine is an oracle: its answers are tabulated by the harness straight from gobwas/glob."""
import collections, json, os, re
from concurrent.futures import ThreadPoolExecutor
import vlib
from vlib import cstr, clist, copt, cbool
from common import proof_gate, proof_coverage

KINDS = ('builtin', 'custom', 'agg')


# ---------------------------------------------------------------- Coq printers

def cstrs(l):
    return clist(cstr(x) for x in l)


def cmask(h):
    return str(int(h, 16))


def ctable(rows):
    out = []
    for r in rows or []:
        e, st, names = r[0], r[1], r[2:]
        out.append('(%s, %s)' % (cstr(e), 'None' if st == 'bad' else '(Some %s)' % cstrs(names)))
    return clist(out)


def pat_v(universe, shapes, cases):
    v = ['From Regal Require Import Check.C05Check.', 'Open Scope N_scope.']
    v.append('Definition universe : list str := %s.' % cstrs(universe))
    v.append('Definition shapes : list shape := %s.' % clist(
        '{| sh_prefix := %s; sh_files := %s; sh_rego_rel := %s |}' % (cstr(s['prefix']), cstrs(s['files']), cstrs(s['rego_rel']))
        for s in shapes))
    v.append('Definition pr := Eval vm_compute in prepare universe shapes.')
    cs = []
    for c in cases:
        rows = clist('(%s, %s)' % (cstr(r['e']), 'ROk %s' % cmask(r['mask']) if r['ok'] else 'RBad') for r in c['rows'])
        go = clist('None' if g in ('error', 'notsublist') else '(Some %s)' % cmask(g) for g in c['go'])
        rg = clist(cmask(g) for g in c['rego'])
        cs.append('{| pc_pat := %s; pc_compiler := %s; pc_rows := %s; pc_go := %s; pc_rego := %s |}'
                  % (cstr(c['p']), cstrs(c['compiler']), rows, go, rg))
    v.append('Definition cases : list pcase := %s.' % clist(cs))
    v.append('Definition RB := Eval vm_compute in bulk_failures pr cases 0.')
    v.append('Definition RR := Eval vm_compute in rel_failures pr.')
    v.append('Print RB. Print RR.')
    return '\n'.join(v)


def small_v(cases):
    v = ['From Regal Require Import Check.C05Check.', 'Open Scope N_scope.']
    cs = []
    for c in cases:
        cs.append('{| sc_prefix := %s; sc_files := %s; sc_cli := %s; sc_cfg := %s; sc_rule := %s; sc_cols := %s; sc_table := %s; '
                  'sc_go_kept := %s; sc_rego_global := %s; sc_rego_rel := %s; sc_rego_excl := %s; sc_rego_excl_global := %s |}' % (
                      cstr(c['prefix']), cstrs(c['files']), cstrs(c['cli']),
                      copt(cstrs(c['cfg']) if c['cfg_set'] else None), cstrs(c['rule']),
                      cstrs(c['cols'] or []), ctable(c['table']),
                      copt(None if c['go_err'] else cstrs(c['go_kept'])),
                      copt(cstrs(c['rego_global']) if c['rego_global_defined'] else None),
                      cstrs(c['rego_rel']),
                      clist('%d%%nat' % j for j in c['rego_excl']), clist('%d%%nat' % j for j in c['rego_excl_global'])))
    v.append('Definition cases : list scase := %s.' % clist(cs))
    v.append('Definition RS := Eval vm_compute in small_failures cases 0.')
    v.append('Print RS.')
    return '\n'.join(v)


def lint_v(cases):
    v = ['From Regal Require Import Check.C05Check.', 'Open Scope N_scope.']
    cs = []
    for c in cases:
        ign = c['rule_ignore']
        hit = c.get('hit') or {}
        cs.append('{| lc_prefix := %s; lc_files := %s; lc_cli := %s; lc_cfg := %s; lc_ign_builtin := %s; lc_ign_custom := %s; '
                  'lc_ign_agg := %s; lc_cols := %s; lc_table := %s; lc_err := %s; lc_scanned := %d%%nat; '
                  'lc_hit_builtin := %s; lc_hit_custom := %s; lc_hit_agg := %s |}' % (
                      cstr(c['prefix']), cstrs(c['files']), cstrs(c['cli'] or []),
                      copt(cstrs(c['cfg']) if c['cfg_set'] else None),
                      cstrs(ign.get('builtin', [])), cstrs(ign.get('custom', [])), cstrs(ign.get('agg', [])),
                      cstrs(c['cols'] or []), ctable(c['table']), cbool(bool(c.get('err'))), c['files_scanned'],
                      cstrs(hit.get('builtin', [])), cstrs(hit.get('custom', [])), cstrs(hit.get('agg', []))))
    v.append('Definition cases : list lcase := %s.' % clist(cs))
    v.append('Definition RL := Eval vm_compute in lint_failures cases 0.')
    v.append('Print RL.')
    return '\n'.join(v)


def codes(out, marker):
    l = vlib.parse_nat_list(out, marker)
    if l is None:
        raise RuntimeError('no %s in Coq output:\n%s' % (marker, out[-3000:]))
    d = collections.defaultdict(list)
    for x in l:
        d[x // 10000].append(x % 10000)
    return d


# ---------------------------------------------------------------- predicates on the implementation (no model)

def bits(h, n):
    z = int(h, 16)
    return [(z >> i) & 1 == 1 for i in range(n)]


def pat_predicate(c, shapes):
    """the two matchers, driven through the real code, exclude the same files of every shape"""
    bad = []
    for si, s in enumerate(shapes):
        g, r = c['go'][si], c['rego'][si]
        if g == 'error':
            continue
        if g == 'notsublist':
            bad.append({'shape': s['name'], 'what': 'FilterIgnoredPaths did not return an order-preserving sublist'})
            continue
        if g != r:
            gb, rb = bits(g, len(s['files'])), bits(r, len(s['files']))
            j = next(i for i in range(len(gb)) if gb[i] != rb[i])
            bad.append({'shape': s['name'], 'prefix': s['prefix'], 'file': s['files'][j], 'go_excluded': gb[j], 'rego_excluded': rb[j],
                        'n_files_differ': sum(1 for i in range(len(gb)) if gb[i] != rb[i]),
                        'min_shape': {'name': s['name'], 'prefix': s['prefix'], 'lead': s['lead'], 'full': False,
                                      'files': [s['files'][j]], 'rel': [s['rel'][j]]}})
    return bad


def go_error_explained(rows_bad, err):
    return rows_bad


def small_predicate(c):
    """FilterIgnoredPaths keeps exactly the files Rego's global excluded_file check lets through, in order"""
    if c['files'] == ['-']:
        return None if c['go_kept'] == ['-'] else 'stdin marker not returned as is'
    any_bad = any(r[1] == 'bad' for r in (c['table'] or []))
    if c['go_err']:
        return None if any_bad else 'FilterIgnoredPaths returned an error although every expansion compiles'
    exp = [f for j, f in enumerate(c['files']) if j not in set(c['rego_excl_global'])]
    if c['go_kept'] != exp:
        if any_bad:
            return None  # Rego treats an uncompilable expansion as "no match": outside the domain
        return 'FilterIgnoredPaths kept %r, Rego excluded_file (global part) lets through %r' % (c['go_kept'], exp)
    # the rule list can only exclude more
    if not set(c['rego_excl_global']) <= set(c['rego_excl']):
        return 'excluded_file with a rule list excludes fewer files than without'
    return None


def lint_true_rel(c):
    if c['prefix'] == '' and c['mode'] in ('paths-abs', 'modules-abs'):
        return [f[1:] for f in c['files']]       # no prefix: relative to the file system root
    return c['rel']


def lint_predicate(c):
    """meaning of the property, evaluated with the engine table and Regal's own expansion of each pattern"""
    tbl = {r[0]: (None if r[1] == 'bad' else set(r[2:])) for r in (c['table'] or [])}

    def match(p, r):
        if p == '':
            return False
        return any(tbl.get(e) is not None and r in tbl[e] for e in c['compiler'][p])

    def match_any(ps, r):
        return any(match(p, r) for p in ps)
    if c.get('err'):
        if any(v is None for v in tbl.values()):
            return None
        return 'Lint failed: %s' % c['err']
    glob = c['cli'] if c['cli'] else (c['cfg'] if c['cfg_set'] else [])
    rel = lint_true_rel(c)
    scanned = [i for i in range(len(rel)) if not match_any(glob, rel[i])]
    if c['files_scanned'] != len(scanned):
        drop = [c['files'][i] for i in range(len(rel)) if i not in scanned]
        return 'files_scanned = %d, but %d of %d files match no global ignore pattern (matching: %r)' % (
            c['files_scanned'], len(scanned), len(rel), drop)
    for k in KINDS:
        ign = c['rule_ignore'].get(k, [])
        exp = sorted(c['files'][i] for i in scanned if not match_any(ign, rel[i]))
        if k == 'agg' and (len(scanned) < 2 or match_any(glob + ign, '__aggregate_report__')):
            exp = []
        got = sorted(c['hit'][k])
        if got != exp:
            extra = sorted(set(got) - set(exp))
            missing = sorted(set(exp) - set(got))
            return '%s rule: violations in ignored files %r, none in unignored files %r' % (k, extra, missing)
    return None


# ---------------------------------------------------------------- run

def run(ctx):
    h = vlib.build_harness(ctx, 'c05')
    out = os.path.join(ctx.tmp, 'c05.jsonl')
    work = os.path.join(ctx.tmp, 'work')
    os.makedirs(work)
    corpus = os.path.join(vlib.VERIF, 'corpus', 'C05', 'patterns.json')
    cmd = [h, out, ctx.tier, work, corpus]
    if ctx.replay:
        cmd.append(ctx.replay)
    rc, log = vlib.run(cmd, env=dict(os.environ, VERIF_SEED=str(ctx.seed)), timeout=1500)
    if rc != 0:
        raise RuntimeError('c05 harness failed: ' + log[-3000:])
    rows = [json.loads(l) for l in open(out)]
    universe = next((r['cols'] for r in rows if r['kind'] == 'universe'), [])
    shapes = [r['shape'] for r in rows if r['kind'] == 'shape']
    pats = [r for r in rows if r['kind'] == 'pat']
    smalls = [r for r in rows if r['kind'] == 'small']
    lints = [r for r in rows if r['kind'] == 'lint']
    panics = [r for r in rows if r['kind'] == 'engine-panic']

    # ---- model side: evaluate the cases inside Coq (chunks in parallel)
    chunk = 125
    jobs = []
    for lo in range(0, len(pats), chunk):
        jobs.append(('pat', lo, pat_v(universe, shapes, pats[lo:lo + chunk])))
    for lo in range(0, len(smalls), 400):
        jobs.append(('small', lo, small_v(smalls[lo:lo + 400])))
    for lo in range(0, len(lints), 200):
        jobs.append(('lint', lo, lint_v(lints[lo:lo + 200])))

    def ev(job):
        kind, lo, text = job
        rc, cout = vlib.coq_eval(ctx, 'Cases_C05_%s_%d' % (kind, lo), text, timeout=1500)
        if rc != 0:
            raise RuntimeError('case evaluation failed (%s %d):\n%s' % (kind, lo, cout[-3000:]))
        return kind, lo, cout
    pat_fail, small_fail, lint_fail, rel_fail = {}, {}, {}, set()
    with ThreadPoolExecutor(max_workers=min(14, max(1, len(jobs)))) as ex:
        for kind, lo, cout in ex.map(ev, jobs):
            if kind == 'pat':
                for i, cs in codes(cout, 'RB').items():
                    pat_fail[lo + i] = cs
                rel_fail |= set(vlib.parse_nat_list(cout, 'RR') or [])
            elif kind == 'small':
                for i, cs in codes(cout, 'RS').items():
                    small_fail[lo + i] = cs
            else:
                for i, cs in codes(cout, 'RL').items():
                    lint_fail[lo + i] = cs

    # ---- implementation side
    explained = set()
    n_go_err = n_go_err_unexplained = 0
    pat_viol = 0
    for i, c in enumerate(pats):
        rows_bad = any(not r['ok'] for r in c['rows'])
        if 'error' in c['go']:
            n_go_err += 1
            if not rows_bad:
                n_go_err_unexplained += 1
                vlib.violation(ctx, {'kind': 'go-error', 'case': {'kind': 'pat', 'p': c['p']},
                                     'what': 'FilterIgnoredPaths failed on pattern %r although all its expansions compile: %s'
                                             % (c['p'], c.get('go_err'))},
                               signature={'kind': 'go-error', 'key': c['p']})
            continue
        bad = pat_predicate(c, shapes)
        if bad:
            explained.add(('pat', i))
            pat_viol += 1
            if pat_viol <= 3:
                b = min(bad, key=lambda b: (len(b.get('file', '')), b['shape']))
                vlib.violation(ctx, {'kind': 'matchers-disagree', 'case': {'kind': 'pat', 'p': c['p'], 'shape': b.get('min_shape')},
                                     'observation': {k: v for k, v in b.items() if k != 'min_shape'},
                                     'all_shapes': [x['shape'] for x in bad],
                                     'what': 'pattern %r, path prefix %r, file %r: Go (FilterIgnoredPaths) excluded=%s, Rego (_exclude on '
                                             '_file_name_relative_to_root) excluded=%s' % (c['p'], b.get('prefix'), b.get('file'),
                                                                                          b.get('go_excluded'), b.get('rego_excluded'))},
                               signature={'kind': 'matchers-disagree', 'key': json.dumps([c['p'], b.get('prefix'), b.get('file')])})
    small_viol = 0
    for i, c in enumerate(smalls):
        w = small_predicate(c)
        if w:
            explained.add(('small', i))
            small_viol += 1
            if small_viol <= 2:
                vlib.violation(ctx, {'kind': 'filter-vs-rego', 'case': c, 'what': w},
                               signature={'kind': 'filter-vs-rego', 'key': json.dumps([c['prefix'], c['files'], c['cli'], c['cfg'], c['rule']])})
    lint_viol = 0
    for i, c in enumerate(lints):
        w = lint_predicate(c)
        if w:
            explained.add(('lint', i))
            lint_viol += 1
            if lint_viol <= 2:
                vlib.violation(ctx, {'kind': 'lint', 'case': c, 'what': 'Lint(%s, prefix %r, cli %r, config %r, per rule %r): %s' % (
                    c['mode'], c['prefix'], c['cli'], c['cfg'] if c['cfg_set'] else None, c['rule_ignore'], w)},
                               signature={'kind': 'lint', 'key': json.dumps([c['mode'], c['prefix'], c['files'], c['cli'], c['cfg'], c['rule_ignore']], sort_keys=True)})

    # ---- correspondence failures that no failing input explains
    corr = []
    for i, cs in sorted(pat_fail.items()):
        if ('pat', i) not in explained:
            corr.append({'layer': 'pat', 'pattern': pats[i]['p'], 'codes': cs,
                         'shapes': [shapes[x % 1000]['name'] for x in cs if x >= 1000]})
    for i, cs in sorted(small_fail.items()):
        if ('small', i) not in explained:
            corr.append({'layer': 'small', 'codes': cs, 'case': smalls[i]})
    for i, cs in sorted(lint_fail.items()):
        if ('lint', i) not in explained:
            corr.append({'layer': 'lint', 'codes': cs, 'case': lints[i]})
    for s in sorted(rel_fail):
        corr.append({'layer': 'relativise', 'shape': shapes[s]['name'], 'prefix': shapes[s]['prefix']})
    if corr and not ctx.violations:
        vlib.violation(ctx, {'kind': 'correspondence',
                             'relation': 'Check.C05Check (codes: pat 1 = rego_expand vs _pattern_compiler, 2 = oracle table lacks a row/column, '
                                         '1000+s = go_exclude_file/go_rel vs FilterIgnoredPaths on shape s, 2000+s = rego_exclude/rego_rel vs '
                                         '_exclude; small 1 = go_filter_ignored_paths, 2 = rego_global, 3 = rego_rel, 4/5 = rego_excluded_file, '
                                         '9 = table; lint 1 = error, 2 = files_scanned, 3/4/5 = hits of builtin/custom/aggregate rule, 9 = table)',
                             'n_mismatches': len(corr), 'first': corr[:5]}, no_input=True)
    proof_gate(ctx)

    # ---- evidence
    nfiles = sum(len(s['files']) for s in shapes)
    full = [si for si, s in enumerate(shapes) if s.get('full')]
    nontrivial = 0
    behaviours = set()
    for c in pats:
        if 'error' in c['go'] or not full:
            continue
        g = c['go'][full[0]]
        n = len(shapes[full[0]]['files'])
        behaviours.add(g)
        if int(g, 16) not in (0, (1 << n) - 1):
            nontrivial += 1
    small_nt = sum(1 for c in smalls if not c['go_err'] and 0 < len(c['go_kept']) < len(c['files']))
    lint_nt = sum(1 for c in lints if not c.get('err') and (0 < c['files_scanned'] < len(c['files'])
                                                             or any(0 < len(c['hit'][k]) < c['files_scanned'] for k in KINDS)))
    hist_src = collections.Counter(c['src'] for c in pats)
    hist_exp = collections.Counter(len(c['compiler']) for c in pats)
    samples = []
    if pats:
        c = pats[len(pats) // 3]
        samples.append({'p': c['p'], 'compiler': c['compiler'], 'go': c['go'][:3], 'rego': c['rego'][:3]})
    if smalls:
        samples.append({k: smalls[-1][k] for k in ('prefix', 'files', 'cli', 'cfg', 'rule', 'go_kept', 'rego_excl')})
    if lints:
        samples.append({k: lints[-1].get(k) for k in ('mode', 'prefix', 'cli', 'cfg', 'rule_ignore', 'files_scanned', 'hit')})
    cov = proof_coverage(ctx, {
        'evaluations': len(pats) * nfiles * 2 + sum(len(c['files']) for c in smalls) * 3 + len(lints),
        'distinct_nontrivial': nontrivial + small_nt + lint_nt,
        'rule': 'pat: every token pattern (<= 3 tokens exhaustive, 4 tokens %s) over {a, b.rego, *, **, ?, /, [ab]} plus odd and malformed '
                'ones, each against %d files in %d (prefix, spelling) shapes on both matchers; non-trivial = the pattern excludes some but '
                'not all of the 340 relative paths. small: pattern lists with distinct kept sets strictly between none and all. lint: runs '
                'where some file is dropped or some rule is silenced in some but not all files'
                % ('exhaustive' if ctx.tier == 'thorough' else 'sampled', nfiles, len(shapes)),
        'patterns': len(pats), 'patterns_nontrivial': nontrivial, 'distinct_behaviours_on_340_paths': len(behaviours),
        'patterns_by_source': dict(hist_src), 'patterns_by_number_of_expansions': {str(k): v for k, v in hist_exp.items()},
        'shapes': [{'name': s['name'], 'prefix': s['prefix'], 'files': len(s['files'])} for s in shapes],
        'small_cases': len(smalls), 'small_nontrivial': small_nt, 'lint_runs': len(lints), 'lint_nontrivial': lint_nt,
        'lint_modes': dict(collections.Counter('%s|%s' % (c['mode'], c['prefix']) for c in lints)),
        'outside_domain': {'go_error_uncompilable_expansion': n_go_err, 'engine_panics': [p['p'] for p in panics][:10],
                           'note': 'patterns with an expansion gobwas/glob cannot compile: Go aborts with an error, Rego treats it as '
                                   'no match (recorded, not flagged); patterns on which the engine itself panics are skipped'},
        'mismatch_model_pat': len(pat_fail), 'mismatch_model_small': len(small_fail), 'mismatch_model_lint': len(lint_fail),
        'mismatch_model_relativise': len(rel_fail),
        'predicate_failures': {'pat': pat_viol, 'small': small_viol, 'lint': lint_viol, 'go_error_unexplained': n_go_err_unexplained},
        'samples': samples,
        'exhaustive': False,
    })
    return vlib.finish(ctx, 'proof', cov, [
        'gobwas/glob (compiled with separator "/") is an oracle shared by both matchers: Section variables glob_ok/glob_match; '
        'for the correspondence its answers are tabulated by the harness directly from the library',
        'patterns are byte strings; Rego counts runes in _internal_slashes (c05_internal_slashes_rune_width shows the width is irrelevant)',
        'domain: every expansion of every non-empty pattern compiles; outside it Go returns an error and Rego says "no match" '
        '(c05_exclude_agree / c05_filter_exact_partial still hold, c05_filter_error_only_uncompilable characterises the error)',
        'rule bodies are an oracle (fires); the harness uses three rules that fire once in every file',
        'file discovery (walk, .rego suffix, skipped directories) is not part of this model; lint cases pass explicit files',
        'LSP call sites (ignoreURI with the workspace path, getFilteredModules with the workspace URI) are FilterIgnoredPaths with '
        'checkFileExists=false: covered as shapes absdir and uri, not driven through the server',
    ])
