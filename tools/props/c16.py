"""C16: applying the edit list ComputeEdits(before, after) to `before` the way an LSP client does
yields `after`; edits ordered, non-overlapping, within the document.

Tie: the real ComputeEdits (overlay test in package lsp) and the Gallina model
(Model/Diff.v) are run on the same pairs and compared edit list for edit list; the real edits are
applied (a) by an independent Go implementation of the LSP rules inside the overlay test and
(b) by the Coq specification Model/LspApply.lsp_apply."""
import glob, json, os, re, subprocess, time
import vlib
from common import proof_gate, proof_coverage

NSHARDS = 16


# ------------------------------------------------------------------ case generation

def hx(b):
    return bytes(b).hex()


def exhaustive_docs():
    """all documents with <= 4 lines over the line alphabet {a, b, ""}, with / without final newline"""
    docs, seqs = [], [[]]
    layer = [[]]
    for _ in range(4):
        layer = [s + [l] for s in layer for l in (b'a', b'b', b'')]
        seqs += layer
    seen = set()
    for s in seqs:
        for fin in (b'', b'\n'):
            d = b'\n'.join(s) + fin
            if d not in seen:
                seen.add(d)
                docs.append(d)
    return docs


def nlines(d):
    return len(d.split(b'\n')) - (1 if d.endswith(b'\n') or d == b'' else 0)


UNI = ['# héllo wörld', 'x := "日本語"', 'y := "😀 emoji 𝒳"', 'z := " sep"', '# ñ', 'a\tb', ' ', '']
WORDS = ['package p', 'import rego.v1', 'allow if {', '\tinput.x == 1', '}', 'default allow := false', '',
         'deny contains msg if {', '\tmsg := "no"', '# comment', 'a', 'b']


def join_lines(rng, lines, style):
    out = b''
    for i, l in enumerate(lines):
        if style == 'lf':
            t = b'\n'
        elif style == 'crlf':
            t = b'\r\n'
        elif style == 'cr':
            t = b'\r'
        else:
            t = rng.choice([b'\n', b'\n', b'\r\n', b'\r'])
        out += l + t
    return out


def random_doc(rng, maxlines, alphabet, styles):
    n = rng.below(maxlines + 1)
    lines = [rng.choice(alphabet) for _ in range(n)]
    d = join_lines(rng, lines, rng.choice(styles))
    if d and rng.below(3) == 0:
        # drop the final terminator
        d = d[:-2] if d.endswith(b'\r\n') else d[:-1]
    return d


def split_keep(d):
    """lines with their terminators (\\n, \\r\\n, lone \\r)"""
    return [m.group(0) for m in re.finditer(rb'[^\r\n]*(?:\r\n|\n|\r)|[^\r\n]+', d)]


def mutate(rng, d, styles):
    lines = split_keep(d)
    k = 1 + rng.below(4)
    for _ in range(k):
        op = rng.below(9)
        n = len(lines)
        if op == 0 and n:
            i = rng.below(n); j = min(n, i + 1 + rng.below(3)); del lines[i:j]
        elif op == 1:
            i = rng.below(n + 1)
            new = [rng.choice(WORDS + UNI).encode() + rng.choice([b'\n', b'\n', b'\r\n'] + ([b'\r'] if 'cr' in styles or 'mixed' in styles else []))
                   for _ in range(1 + rng.below(3))]
            lines[i:i] = new
        elif op == 2 and n:
            i = rng.below(n); lines[i:i] = [lines[i]]
        elif op == 3 and n > 1:
            i = rng.below(n - 1); lines[i], lines[i + 1] = lines[i + 1], lines[i]
        elif op == 4 and n:
            i = rng.below(n); l = lines[i]; body = l.rstrip(b'\r\n'); lines[i] = body + b' x' + l[len(body):]
        elif op == 5 and n:
            i = rng.below(n); j = min(n, i + 2 + rng.below(4)); lines[i:j] = lines[i:j][::-1]
        elif op == 6 and n:
            l = lines[-1]; body = l.rstrip(b'\r\n'); lines[-1] = body if body != l else body + b'\n'
        elif op == 7 and n:
            lines = [l[:-1] + b'\r\n' if l.endswith(b'\n') and not l.endswith(b'\r\n') else l for l in lines]
        elif op == 8 and n:
            i = rng.below(n); lines[i] = b''
    return b''.join(lines)


def policy_files():
    fs = []
    for pat in ('bundle/regal/**/*.rego', 'e2e/testdata/**/*.rego', 'internal/**/*.rego', 'docs/**/*.rego'):
        fs += glob.glob(os.path.join(vlib.REPO, pat), recursive=True)
    return sorted(set(fs))


def gen_cases(ctx):
    rng = ctx.rng
    quick = ctx.quick()
    cases = []

    def add(kind, before, after, mode='pair'):
        cases.append({'id': len(cases), 'kind': kind, 'mode': mode, 'before': hx(before), 'after': hx(after)})

    # corpus first
    cdir = os.path.join(vlib.VERIF, 'corpus', 'C16')
    for f in sorted(glob.glob(os.path.join(cdir, '*.json'))):
        for c in json.load(open(f)):
            add('corpus', bytes.fromhex(c['before']), bytes.fromhex(c['after']))

    docs = exhaustive_docs()
    if quick:
        small = [d for d in docs if nlines(d) <= 2]
        for x in small:
            for y in small:
                add('exh', x, y)
        for _ in range(2200):
            add('exh', rng.choice(docs), rng.choice(docs))
    else:
        for x in docs:
            for y in docs:
                add('exh', x, y)

    # structured random documents: few distinct lines (many repeated lines), all terminator styles
    alph_small = [b'a', b'b', b'', b'c']
    alph_words = [w.encode() for w in WORDS]
    alph_uni = [w.encode() for w in UNI]
    n_rand = 1600 if quick else 24000
    for i in range(n_rand):
        alphabet = rng.choice([alph_small, alph_small, alph_words, alph_uni, alph_small[:2]])
        styles = rng.choice([['lf'], ['lf'], ['crlf'], ['mixed'], ['cr'], ['lf', 'crlf']])
        maxl = rng.choice([3, 6, 10, 14] if quick else [3, 6, 10, 14, 25, 40])
        x = random_doc(rng, maxl, alphabet, styles)
        if rng.below(3) == 0:
            y = mutate(rng, x, styles)
        else:
            y = random_doc(rng, maxl, alphabet, styles)
        add('rand', x, y)

    # real policies against their formatted / mutated / templated versions
    files = policy_files()
    files = [f for f in files if os.path.getsize(f) < (9000 if quick else 40000)]
    n_pol = 90 if quick else 420
    for i in range(n_pol):
        f = rng.choice(files)
        src = open(f, 'rb').read()
        v = rng.below(8)
        if v == 0:
            add('policy-fmt', src, b'', mode='fmt')
        elif v == 1:
            crlf = src.replace(b'\n', b'\r\n')
            add('policy-crlf', crlf, src)
        elif v == 2:
            add('policy-template', b'', src)
        elif v == 3:
            m = mutate(rng, src, ['lf'])
            add('policy-fmt-mut', m, b'', mode='fmt')
        elif v == 4:
            crlf = src.replace(b'\n', b'\r\n')
            add('policy-crlf-mut', crlf, mutate(rng, crlf, ['crlf']))
        else:
            add('policy-mut', src, mutate(rng, mutate(rng, src, ['lf']), ['lf']))

    # large edit distances (hundreds to thousands of line edits, different line counts): predicate on the
    # implementation only (really applying the edits); too big for the in-Coq comparison, so kind 'large'
    # is excluded from the correspondence
    shapes = [(1200, 500, 0), (700, 1300, 100), (1500, 0, 0)] if quick else \
        [(1200, 500, 0), (700, 1300, 100), (1500, 0, 0), (0, 1100, 0), (2500, 2400, 50), (1100, 1100, 0), (3000, 10, 5), (600, 600, 300)]
    for (m, n, common) in shapes:
        shared = [b'shared line %d' % i for i in range(common)]
        xs = [b'  old body %d' % rng.below(10 ** 6) for _ in range(m)]
        ys = [b'new body %d' % rng.below(10 ** 6) for _ in range(n)]
        for k, l in enumerate(shared):
            if xs:
                xs.insert(min(len(xs), (k * 7) % (len(xs) + 1)), l)
            if ys:
                ys.insert(min(len(ys), (k * 5) % (len(ys) + 1)), l)
        final_x = b'\n' if rng.below(2) else b''
        final_y = b'\n' if rng.below(2) else b''
        add('large', b'\n'.join(xs) + (final_x if xs else b''), b'\n'.join(ys) + (final_y if ys else b''))

    # malformed stream: arbitrary bytes (invalid UTF-8, NUL, only terminators)
    n_mal = 300 if quick else 3000
    for i in range(n_mal):
        def blob():
            n = rng.below(24)
            return bytes(rng.choice([10, 10, 13, 0, 255, 0xC3, 0x28, 97, 98, 32, 0xE2, 0x80, 0xA8, rng.below(256)]) for _ in range(n))
        add('malformed', blob(), blob())
    return cases


# ------------------------------------------------------------------ running the implementation

def run_go(ctx, cases, tag='main'):
    inp = os.path.join(ctx.tmp, 'c16_in_%s.jsonl' % tag)
    outp = os.path.join(ctx.tmp, 'c16_out_%s.jsonl' % tag)
    with open(inp, 'w') as f:
        for c in cases:
            f.write(json.dumps({'id': c['id'], 'mode': c['mode'], 'before': c['before'], 'after': c['after']}) + '\n')
    rc, log = vlib.go_test_overlay(
        ctx, './internal/lsp',
        {'internal/lsp/zz_verif_c16_test.go': os.path.join(vlib.VERIF, 'harness', 'overlay', 'c16_test.go')},
        'TestVerifC16', env_extra={'VERIF_C16_IN': inp, 'VERIF_C16_OUT': outp}, timeout=1500)
    if rc != 0:
        if 'build failed' in log or 'cannot' in log and '.go:' in log:
            raise vlib.HarnessBuildError(log)
        raise RuntimeError('c16 overlay test failed:\n' + log[-3000:])
    res = {}
    for l in open(outp):
        o = json.loads(l)
        res[o['id']] = o
    return res


def go_bad(o):
    """the property predicate on the implementation's own output; returns a reason or None"""
    if o.get('skip'):
        return None
    if o.get('panic'):
        return 'panic: ' + o['panic']
    if not o['applied']:
        return 'applying the edits does not give `after`' + (' (%s)' % o['applerr'] if o.get('applerr') else '')
    if not o['sorted']:
        return 'edits not ordered by start'
    if not o['disjoint']:
        return 'edits overlap'
    if not o['indoc']:
        return 'edit position outside the document'
    if not o['char0']:
        return 'unexpected non-zero character'
    if o.get('closed') and not o['strict']:
        return 'position past the last line although the document ends with a line terminator'
    return None


# ------------------------------------------------------------------ Coq side

class Interner:
    def __init__(self):
        self.ids, self.defs = {}, []

    def line(self, b):
        i = self.ids.get(b)
        if i is None:
            i = len(self.ids)
            self.ids[b] = i
            self.defs.append('Definition l%d : str := [%s].' % (i, ';'.join('b%d' % x for x in b)))
        return 'l%d' % i

    def text(self, d):
        if not d:
            return '[]'
        parts = [m.group(0) for m in re.finditer(rb'[^\n]*\n|[^\n]+', d)]
        return 'cat [%s]' % ';'.join(self.line(p) for p in parts)


def zlit(n):
    return 'z%d' % n if 0 <= n < 128 else '(%d)' % n


def shard_text(items):
    """items: list of (before bytes, after bytes, edits [[sl,sc,el,ec,hex]])"""
    it = Interner()
    rows = []
    for before, after, edits in items:
        es = '[%s]' % ';'.join('(%s,%s,%s,%s,%s)' % (zlit(e[0]), zlit(e[1]), zlit(e[2]), zlit(e[3]), it.text(bytes.fromhex(e[4])))
                               for e in edits)
        rows.append('Case16 (%s) (%s) %s' % (it.text(before), it.text(after), es))
    v = ['From Regal Require Import Check.C16Check.', 'Open Scope Z_scope.']
    v += it.defs
    # chunks of 500 cases keep individual terms small
    names = []
    for k in range(0, len(rows), 500):
        nm = 'cs%d' % (k // 500)
        names.append(nm)
        v.append('Definition %s : list c16_case := [\n%s].' % (nm, ';\n'.join(rows[k:k + 500])))
    v.append('Definition cases : list c16_case := %s.' % (' ++ '.join(names) if names else '[]'))
    v.append('Definition R1 := Eval vm_compute in failing16 case_agrees 0 cases.')
    v.append('Definition R2 := Eval vm_compute in failing16 case_meets_spec 0 cases.')
    v.append('Definition R3 := Eval vm_compute in failing16 model_meets_spec 0 cases.')
    v.append('Definition R4 := Eval vm_compute in map (fun c => Z.to_nat (case_rounds c + 1)) cases.')
    v.append('Print R1. Print R2. Print R3. Print R4.')
    return vlib.CASE_HEADER + '\n'.join(v) + '\n'


def coq_shards(ctx, items, tag='main', nshards=NSHARDS):
    """evaluate the comparison functions on all items (sharded over parallel coqc processes);
    returns (agree_fail, spec_fail, model_fail, rounds) as lists of indices into items"""
    n = len(items)
    if n == 0:
        return [], [], [], []
    nshards = max(1, min(nshards, (n + 49) // 50))
    # round-robin by cost so the shards finish together
    order = sorted(range(n), key=lambda i: -(len(items[i][0]) + len(items[i][1])))
    buckets = [[] for _ in range(nshards)]
    loads = [0] * nshards
    for i in order:
        k = loads.index(min(loads))
        buckets[k].append(i)
        loads[k] += len(items[i][0]) + len(items[i][1]) + 40
    procs = []
    for k, idxs in enumerate(buckets):
        idxs.sort()
        path = os.path.join(ctx.tmp, 'Cases_C16_%s_%d.v' % (tag, k))
        with open(path, 'w') as f:
            f.write(shard_text([items[i] for i in idxs]))
        cmd = 'ulimit -s unlimited 2>/dev/null; exec timeout 1700 coqc -Q %s Regal -Q %s Cases %s' % (
            os.path.join(vlib.COQ, 'theories'), ctx.tmp, path)
        procs.append((idxs, subprocess.Popen(['sh', '-c', cmd], cwd=ctx.tmp, stdout=subprocess.PIPE,
                                             stderr=subprocess.STDOUT, text=True, errors='replace')))
    r1, r2, r3, rounds = [], [], [], {}
    for idxs, p in procs:
        out, _ = p.communicate(timeout=1800)
        if p.returncode != 0:
            raise RuntimeError('case evaluation failed:\n' + out[-3000:])
        a, b, c, d = (vlib.parse_nat_list(out, m) for m in ('R1', 'R2', 'R3', 'R4'))
        if a is None or b is None or c is None or d is None or len(d) != len(idxs):
            raise RuntimeError('cannot parse case evaluation output:\n' + out[-2000:])
        r1 += [idxs[j] for j in a]
        r2 += [idxs[j] for j in b]
        r3 += [idxs[j] for j in c]
        for j, x in enumerate(d):
            rounds[idxs[j]] = x - 1
    return sorted(r1), sorted(r2), sorted(r3), [rounds[i] for i in range(n)]


# ------------------------------------------------------------------ minimisation

def minimise(ctx, before, after, is_bad, budget_s=60):
    """greedy line-wise shrinking; is_bad(list of (before, after)) -> list of bool (one batch run).
    Large documents are first shrunk by removing chunks of lines (halving the chunk size), under a time budget."""
    t_end = time.time() + budget_s
    cur = (before, after)
    for side in (0, 1):
        chunk = max(1, len(split_keep(cur[side])) // 2)
        while chunk >= 8 and time.time() < t_end:
            ls = split_keep(cur[side])
            cands = []
            for i in range(0, len(ls), chunk):
                rest = b''.join(ls[:i] + ls[i + chunk:])
                cands.append((rest, cur[1]) if side == 0 else (cur[0], rest))
            cands = [c for c in cands if c != cur][:24]
            if not cands:
                break
            bad = is_bad(cands)
            better = [c for c, x in zip(cands, bad) if x]
            if better:
                cur = min(better, key=lambda c: (len(c[0]) + len(c[1]), c))
            else:
                chunk //= 2
    if len(split_keep(cur[0])) + len(split_keep(cur[1])) > 400 or time.time() >= t_end:
        return cur
    cur = (before, after)
    for rnd in range(40):
        if time.time() >= t_end:
            break
        lb, la = split_keep(cur[0]), split_keep(cur[1])
        cands = []
        for i in range(len(lb)):
            cands.append((b''.join(lb[:i] + lb[i + 1:]), cur[1]))
        for i in range(len(la)):
            cands.append((cur[0], b''.join(la[:i] + la[i + 1:])))
        # both at once (common lines)
        for i in range(len(lb)):
            if lb[i] in la:
                j = la.index(lb[i])
                cands.append((b''.join(lb[:i] + lb[i + 1:]), b''.join(la[:j] + la[j + 1:])))
        # shorten line bodies to one letter per distinct body
        names = {}
        def short(l):
            body = l.rstrip(b'\r\n')
            if body not in names:
                names[body] = bytes([97 + len(names) % 26]) * (1 + len(names) // 26)
            return names[body] + l[len(body):]
        cands.append((b''.join(short(l) for l in lb), b''.join(short(l) for l in la)))
        cands = [c for c in cands if c != cur]
        if not cands:
            break
        bad = is_bad(cands)
        better = [c for c, x in zip(cands, bad) if x]
        if not better:
            break
        cur = min(better, key=lambda c: (len(c[0]) + len(c[1]), c))
    return cur


# ------------------------------------------------------------------ main

def run(ctx):
    if ctx.replay:
        rp = json.load(open(ctx.replay))
        c = rp.get('case')
        cases = []
        if c:
            cases = [{'id': 0, 'kind': 'replay', 'mode': c.get('mode', 'pair'), 'before': c['before'], 'after': c['after']}]
    else:
        cases = gen_cases(ctx)

    t_go = time.time()
    res = run_go(ctx, cases)
    t_go = time.time() - t_go

    # resolved pairs (mode fmt gets its `after` from the implementation's formatter)
    live = []
    skipped = 0
    for c in cases:
        o = res.get(c['id'])
        if o is None:
            raise RuntimeError('no output for case %d' % c['id'])
        if o.get('skip'):
            skipped += 1
            continue
        if c['mode'] == 'fmt':
            c['after'] = o.get('after', '')
            c['mode'] = 'pair'
        live.append(c)

    # ---- predicate on the implementation itself
    pred_bad = [(c, go_bad(res[c['id']])) for c in live]
    pred_bad = [(c, why) for c, why in pred_bad if why]

    # ---- correspondence + specification inside Coq (cases where the implementation panicked have no edit list)
    coq_cases = [c for c in live if not res[c['id']].get('panic') and c['kind'] != 'large']
    items = [(bytes.fromhex(c['before']), bytes.fromhex(c['after']), res[c['id']]['edits']) for c in coq_cases]
    t_coq = time.time()
    r1, r2, r3, rounds = coq_shards(ctx, items)
    t_coq = time.time() - t_coq

    def batch_pred(tag):
        n = [0]
        def is_bad(pairs):
            n[0] += 1
            cs = [{'id': i, 'mode': 'pair', 'before': hx(p[0]), 'after': hx(p[1])} for i, p in enumerate(pairs)]
            rr = run_go(ctx, cs, tag='%s%d' % (tag, n[0]))
            return [go_bad(rr[i]) is not None for i in range(len(pairs))]
        return is_bad

    reported = set()

    def report_input(c, why, kind):
        b0, a0 = bytes.fromhex(c['before']), bytes.fromhex(c['after'])
        b1, a1 = minimise(ctx, b0, a0, batch_pred('min'))
        key = json.dumps([hx(b1), hx(a1)])
        if key in reported:
            return
        reported.add(key)
        o = run_go(ctx, [{'id': 0, 'mode': 'pair', 'before': hx(b1), 'after': hx(a1)}], tag='rep')[0]
        vlib.violation(ctx, {
            'kind': kind, 'what': why,
            'case': {'mode': 'pair', 'before': hx(b1), 'after': hx(a1)},
            'before_text': b1.decode('utf-8', 'replace'), 'after_text': a1.decode('utf-8', 'replace'),
            'edits': o.get('edits'), 'applied_result': bytes.fromhex(o.get('result', '')).decode('utf-8', 'replace'),
            'panic': o.get('panic'), 'original_case': {'kind': c['kind'], 'before': c['before'], 'after': c['after']},
            'replay_cmd': 'tools/check C16 --replay <this file>',
        }, no_input=False, signature={'kind': kind, 'key': key})

    # 1. failures of the Go-side predicate (smallest first, a few distinct ones)
    for c, why in sorted(pred_bad, key=lambda cw: len(cw[0]['before']) + len(cw[0]['after']))[:3]:
        report_input(c, why, 'lsp-apply')
        if len(ctx.violations) >= 3:
            break

    # 2. the Coq specification rejects the real edits (should coincide with 1; if Go's applier missed it, still an input)
    go_bad_ids = {c['id'] for c, _ in pred_bad}
    for i in r2:
        c = coq_cases[i]
        if c['id'] in go_bad_ids or len(ctx.violations) >= 3:
            continue
        key = json.dumps([c['before'], c['after']])
        vlib.violation(ctx, {'kind': 'lsp-apply-spec', 'what': 'Model/LspApply.lsp_apply on the real edits does not give `after` '
                             '(or edits unordered / outside the document) although the Go-side applier accepted them',
                             'case': {'mode': 'pair', 'before': c['before'], 'after': c['after']}, 'edits': res[c['id']]['edits']},
                       no_input=False, signature={'kind': 'lsp-apply-spec', 'key': key})
        break

    # 3. correspondence broken without a failing input: look in the neighbourhood, then report the relation
    if (r1 or r3) and not ctx.violations:
        i = min(r1 or r3, key=lambda i: len(items[i][0]) + len(items[i][1]))
        c = coq_cases[i]
        # neighbourhood search: all line-deletion neighbours of the smallest few mismatching cases
        neigh = []
        for j in sorted(r1 or r3, key=lambda j: len(items[j][0]) + len(items[j][1]))[:20]:
            b0, a0 = items[j][0], items[j][1]
            lb, la = split_keep(b0), split_keep(a0)
            neigh += [(b''.join(lb[:k] + lb[k + 1:]), a0) for k in range(len(lb))]
            neigh += [(b0, b''.join(la[:k] + la[k + 1:])) for k in range(len(la))]
            neigh += [(a0, b0)]
        found = None
        if neigh:
            bad = batch_pred('nb')(neigh[:4000])
            for p, x in zip(neigh, bad):
                if x:
                    found = p
                    break
        if found:
            report_input({'before': hx(found[0]), 'after': hx(found[1]), 'kind': 'neighbourhood'},
                         'found next to a model/implementation mismatch', 'lsp-apply')
        else:
            vlib.violation(ctx, {
                'kind': 'correspondence',
                'relation': 'Check.C16Check.case_agrees (Model/Diff.compute_edits = ComputeEdits, edit list for edit list)'
                            if r1 else 'Check.C16Check.model_meets_spec (run-time instance of compute_edits_sound)',
                'theorem': 'compute_edits_sound is proved about Model/Diff.v, which no longer describes internal/lsp/diff.go + format.go',
                'case': {'mode': 'pair', 'before': c['before'], 'after': c['after']},
                'before_text': items[i][0].decode('utf-8', 'replace'), 'after_text': items[i][1].decode('utf-8', 'replace'),
                'go_edits': items[i][2], 'n_mismatches': len(r1), 'n_model_spec_failures': len(r3)}, no_input=True)

    proof_gate(ctx, 'compute_edits_sound / compute_edits_total')

    # ---- self-test of the tie: perturbed observations must be flagged by both comparison functions
    r1set = set(r1)
    st_src = [it for i, it in enumerate(items) if it[2] and i not in r1set][:200:40][:5]
    st_items = []
    for b0, a0, ed in st_src:
        e2 = [list(e) for e in ed]
        e2[0][2] = e2[0][2] + 1          # end line of the first edit moved by one
        st_items.append((b0, a0, e2))
    selftest_ok = None
    if st_items and not ctx.replay:
        s1, s2, _, _ = coq_shards(ctx, st_items, tag='selftest', nshards=1)
        selftest_ok = (s1 == list(range(len(st_items))))
        if not selftest_ok:
            vlib.violation(ctx, {'kind': 'self-test', 'what': 'perturbed edit lists were not flagged by Check.C16Check.case_agrees',
                                 'flagged': s1, 'expected': len(st_items)}, no_input=True)

    # ---- evidence
    hist_kind, hist_edits, hist_rounds, hist_lines = {}, {}, {}, {}
    distinct = set()
    for idx, c in enumerate(coq_cases):
        o = res[c['id']]
        hist_kind[c['kind']] = hist_kind.get(c['kind'], 0) + 1
        ne = len(o['edits'])
        hist_edits[min(ne, 10)] = hist_edits.get(min(ne, 10), 0) + 1
        d = rounds[idx]
        bucket = 'both-empty' if d < 0 else (d if d < 8 else ('8-15' if d < 16 else ('16-63' if d < 64 else '64+')))
        hist_rounds[bucket] = hist_rounds.get(bucket, 0) + 1
        nl = o['nlines']
        lb = nl if nl < 5 else ('5-14' if nl < 15 else ('15-99' if nl < 100 else '100+'))
        hist_lines[lb] = hist_lines.get(lb, 0) + 1
        if c['before'] != c['after'] and ne > 0:
            distinct.add((c['before'], c['after']))
    clamp_needed = sum(1 for c in coq_cases if not res[c['id']]['strict'])
    samples = []
    for c in coq_cases[len(coq_cases) // 3::max(1, len(coq_cases) // 4)][:3]:
        samples.append({'kind': c['kind'], 'before': bytes.fromhex(c['before'])[:200].decode('utf-8', 'replace'),
                        'after': bytes.fromhex(c['after'])[:200].decode('utf-8', 'replace'),
                        'edits': res[c['id']]['edits'][:4]})
    cov = proof_coverage(ctx, {
        'evaluations': len(coq_cases),
        'distinct_nontrivial': len(distinct),
        'rule': 'distinct (before, after) pairs with before != after for which the implementation returned at least one edit; '
                'every evaluation = real ComputeEdits + independent Go LSP application + vm_compute of the model (edit lists compared '
                'for equality) + Coq lsp_apply specification on the real edits',
        'exhaustive': (not ctx.quick()),
        'exhaustive_domain': 'all pairs of documents with <= 4 lines over the line alphabet {a, b, ""}, with/without final newline '
                             '(%d documents; thorough: all %d pairs, quick: all pairs of <= 2-line documents + 2200 sampled pairs)'
                             % (len(exhaustive_docs()), len(exhaustive_docs()) ** 2),
        'by_kind': hist_kind, 'by_edit_count': hist_edits, 'by_rounds_D': hist_rounds, 'by_before_lines': hist_lines,
        'skipped_unformattable': skipped,
        'positions_relying_on_end_of_document_clamp': clamp_needed,
        'mismatch_model_vs_implementation': len(r1), 'spec_rejects_real_edits': len(r2), 'spec_rejects_model_edits': len(r3),
        'predicate_failures_go_side': len(pred_bad),
        'go_seconds': round(t_go, 1), 'coq_seconds': round(t_coq, 1), 'selftest_perturbed_cases_flagged': selftest_ok,
        'samples': samples,
    })
    return vlib.finish(ctx, 'proof', cov, [
        'strings.SplitAfter / strings.Join are modelled by split_lines / concat (validated by this correspondence only)',
        'LSP 3.17 application of TextEdit[] is the specification Model/LspApply.v: EOL = \\n | \\r\\n | \\r, line past the end clamps to '
        'end of document, only character = 0 positions are given a meaning (the theorem proves every position has character 0)',
        'how a particular editor applies edits is not modelled; the Go-side applier in harness/overlay/c16_test.go is a second, '
        'independent reading of the specification',
        'the callers in server.go pass cache contents / formatter output unchanged to ComputeEdits (read, not modelled)',
    ])
