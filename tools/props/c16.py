"""C16: applying the edit list ComputeEdits(before, after) to `before` the way an LSP client does
yields `after`; edits ordered, non-overlapping, within the document.

Tie: the real ComputeEdits (overlay test in package lsp) and the Gallina model
(Model/Diff.v) are run on the same pairs and compared edit list for edit list; the real edits are
applied (a) by an independent Go implementation of the LSP rules inside the overlay test and
(b) by the Coq specification Model/LspApply.lsp_apply.

Server level (the glue around ComputeEdits): a real LanguageServer per formatter / config profile is
driven over JSON-RPC (didOpen / didChange, textDocument/formatting, workspace/executeCommand ->
workspace/applyEdit, workspace/didCreateFiles -> workspace/applyEdit); the returned edits are applied
to the text the CLIENT holds and compared with what the server intends (formatter / fix / template
oracle, and the server's own copy afterwards); Model/FormatFlow.v (which (before, after) each flow
hands to ComputeEdits) is compared with the answers, class for class and edit list for edit list."""
import glob, json, os, re, subprocess, threading, time
import vlib
from common import proof_gate, proof_coverage

NSHARDS = 16


# ------------------------------------------------------------------ case generation

def hx(b):
    return bytes(b).hex()


def exhaustive_docs():
    """all documents with <= 4 lines over the line alphabet {a, b, ""}, with / without final newline"""
    docs, seqs = [], [[]]
    layer = [[]]
    for _ in range(4):
        layer = [s + [l] for s in layer for l in (b'a', b'b', b'')]
        seqs += layer
    seen = set()
    for s in seqs:
        for fin in (b'', b'\n'):
            d = b'\n'.join(s) + fin
            if d not in seen:
                seen.add(d)
                docs.append(d)
    return docs


def nlines(d):
    return len(d.split(b'\n')) - (1 if d.endswith(b'\n') or d == b'' else 0)


UNI = ['# héllo wörld', 'x := "日本語"', 'y := "😀 emoji 𝒳"', 'z := " sep"', '# ñ', 'a\tb', ' ', '']
WORDS = ['package p', 'import rego.v1', 'allow if {', '\tinput.x == 1', '}', 'default allow := false', '',
         'deny contains msg if {', '\tmsg := "no"', '# comment', 'a', 'b']


def join_lines(rng, lines, style):
    out = b''
    for i, l in enumerate(lines):
        if style == 'lf':
            t = b'\n'
        elif style == 'crlf':
            t = b'\r\n'
        elif style == 'cr':
            t = b'\r'
        else:
            t = rng.choice([b'\n', b'\n', b'\r\n', b'\r'])
        out += l + t
    return out


def random_doc(rng, maxlines, alphabet, styles):
    n = rng.below(maxlines + 1)
    lines = [rng.choice(alphabet) for _ in range(n)]
    d = join_lines(rng, lines, rng.choice(styles))
    if d and rng.below(3) == 0:
        # drop the final terminator
        d = d[:-2] if d.endswith(b'\r\n') else d[:-1]
    return d


def split_keep(d):
    """lines with their terminators (\\n, \\r\\n, lone \\r)"""
    return [m.group(0) for m in re.finditer(rb'[^\r\n]*(?:\r\n|\n|\r)|[^\r\n]+', d)]


def mutate(rng, d, styles):
    lines = split_keep(d)
    k = 1 + rng.below(4)
    for _ in range(k):
        op = rng.below(9)
        n = len(lines)
        if op == 0 and n:
            i = rng.below(n); j = min(n, i + 1 + rng.below(3)); del lines[i:j]
        elif op == 1:
            i = rng.below(n + 1)
            new = [rng.choice(WORDS + UNI).encode() + rng.choice([b'\n', b'\n', b'\r\n'] + ([b'\r'] if 'cr' in styles or 'mixed' in styles else []))
                   for _ in range(1 + rng.below(3))]
            lines[i:i] = new
        elif op == 2 and n:
            i = rng.below(n); lines[i:i] = [lines[i]]
        elif op == 3 and n > 1:
            i = rng.below(n - 1); lines[i], lines[i + 1] = lines[i + 1], lines[i]
        elif op == 4 and n:
            i = rng.below(n); l = lines[i]; body = l.rstrip(b'\r\n'); lines[i] = body + b' x' + l[len(body):]
        elif op == 5 and n:
            i = rng.below(n); j = min(n, i + 2 + rng.below(4)); lines[i:j] = lines[i:j][::-1]
        elif op == 6 and n:
            l = lines[-1]; body = l.rstrip(b'\r\n'); lines[-1] = body if body != l else body + b'\n'
        elif op == 7 and n:
            lines = [l[:-1] + b'\r\n' if l.endswith(b'\n') and not l.endswith(b'\r\n') else l for l in lines]
        elif op == 8 and n:
            i = rng.below(n); lines[i] = b''
    return b''.join(lines)


def policy_files():
    fs = []
    for pat in ('bundle/regal/**/*.rego', 'e2e/testdata/**/*.rego', 'internal/**/*.rego', 'docs/**/*.rego'):
        fs += glob.glob(os.path.join(vlib.REPO, pat), recursive=True)
    return sorted(set(fs))


def gen_cases(ctx):
    rng = ctx.rng
    quick = ctx.quick()
    cases = []

    def add(kind, before, after, mode='pair'):
        cases.append({'id': len(cases), 'kind': kind, 'mode': mode, 'before': hx(before), 'after': hx(after)})

    # corpus first
    cdir = os.path.join(vlib.VERIF, 'corpus', 'C16')
    for f in sorted(glob.glob(os.path.join(cdir, '*.json'))):
        for c in json.load(open(f)):
            add('corpus', bytes.fromhex(c['before']), bytes.fromhex(c['after']))

    docs = exhaustive_docs()
    if quick:
        small = [d for d in docs if nlines(d) <= 2]
        for x in small:
            for y in small:
                add('exh', x, y)
        for _ in range(2200):
            add('exh', rng.choice(docs), rng.choice(docs))
    else:
        for x in docs:
            for y in docs:
                add('exh', x, y)

    # structured random documents: few distinct lines (many repeated lines), all terminator styles
    alph_small = [b'a', b'b', b'', b'c']
    alph_words = [w.encode() for w in WORDS]
    alph_uni = [w.encode() for w in UNI]
    n_rand = 1600 if quick else 24000
    for i in range(n_rand):
        alphabet = rng.choice([alph_small, alph_small, alph_words, alph_uni, alph_small[:2]])
        styles = rng.choice([['lf'], ['lf'], ['crlf'], ['mixed'], ['cr'], ['lf', 'crlf']])
        maxl = rng.choice([3, 6, 10, 14] if quick else [3, 6, 10, 14, 25, 40])
        x = random_doc(rng, maxl, alphabet, styles)
        if rng.below(3) == 0:
            y = mutate(rng, x, styles)
        else:
            y = random_doc(rng, maxl, alphabet, styles)
        add('rand', x, y)

    # real policies against their formatted / mutated / templated versions
    files = policy_files()
    files = [f for f in files if os.path.getsize(f) < (9000 if quick else 40000)]
    n_pol = 90 if quick else 420
    for i in range(n_pol):
        f = rng.choice(files)
        src = open(f, 'rb').read()
        v = rng.below(8)
        if v == 0:
            add('policy-fmt', src, b'', mode='fmt')
        elif v == 1:
            crlf = src.replace(b'\n', b'\r\n')
            add('policy-crlf', crlf, src)
        elif v == 2:
            add('policy-template', b'', src)
        elif v == 3:
            m = mutate(rng, src, ['lf'])
            add('policy-fmt-mut', m, b'', mode='fmt')
        elif v == 4:
            crlf = src.replace(b'\n', b'\r\n')
            add('policy-crlf-mut', crlf, mutate(rng, crlf, ['crlf']))
        else:
            add('policy-mut', src, mutate(rng, mutate(rng, src, ['lf']), ['lf']))

    # large edit distances (hundreds to thousands of line edits, different line counts): predicate on the
    # implementation only (really applying the edits); too big for the in-Coq comparison, so kind 'large'
    # is excluded from the correspondence
    shapes = [(1200, 500, 0), (700, 1300, 100), (1500, 0, 0)] if quick else \
        [(1200, 500, 0), (700, 1300, 100), (1500, 0, 0), (0, 1100, 0), (2500, 2400, 50), (1100, 1100, 0), (3000, 10, 5), (600, 600, 300)]
    for (m, n, common) in shapes:
        shared = [b'shared line %d' % i for i in range(common)]
        xs = [b'  old body %d' % rng.below(10 ** 6) for _ in range(m)]
        ys = [b'new body %d' % rng.below(10 ** 6) for _ in range(n)]
        for k, l in enumerate(shared):
            if xs:
                xs.insert(min(len(xs), (k * 7) % (len(xs) + 1)), l)
            if ys:
                ys.insert(min(len(ys), (k * 5) % (len(ys) + 1)), l)
        final_x = b'\n' if rng.below(2) else b''
        final_y = b'\n' if rng.below(2) else b''
        add('large', b'\n'.join(xs) + (final_x if xs else b''), b'\n'.join(ys) + (final_y if ys else b''))

    # malformed stream: arbitrary bytes (invalid UTF-8, NUL, only terminators)
    n_mal = 300 if quick else 3000
    for i in range(n_mal):
        def blob():
            n = rng.below(24)
            return bytes(rng.choice([10, 10, 13, 0, 255, 0xC3, 0x28, 97, 98, 32, 0xE2, 0x80, 0xA8, rng.below(256)]) for _ in range(n))
        add('malformed', blob(), blob())
    return cases


# ------------------------------------------------------------------ call orders (history independence)

def polluters():
    """pairs with a long common prefix and one edit at the very end (of several sizes): what such a diff leaves behind -- in a
    buffer, a pool, a cache -- is the furthest state from what a fresh diff starts with"""
    out = []
    for n in (1, 2, 4, 9, 30):
        pre = b''.join(b'common line %d\n' % i for i in range(n))
        out.append((pre + b'old\n', pre + b'new\n'))
        out.append((pre, pre + b'added\n'))
        out.append((pre + b'gone\n', pre))
    return out


def make_plan(ctx, cases):
    """the call orders every case is evaluated in, besides the forward order (one PRNG: ctx.rng).  Large cases take part in the
    reverse order only."""
    rng = ctx.rng
    ids = [c['id'] for c in cases]
    small = [c['id'] for c in cases if c['kind'] != 'large']
    pol = polluters()

    def shuffled(xs):
        xs = list(xs)
        for i in range(len(xs) - 1, 0, -1):
            j = rng.below(i + 1)
            xs[i], xs[j] = xs[j], xs[i]
        return xs
    after_pol = []
    for k, i in enumerate(small):
        after_pol += [-(1 + (k % len(pol))), i]
    twice = []
    for i in shuffled(small):
        twice += [i, i]
    runs = [{'name': 'reverse', 'goroutines': 1, 'order': ids[::-1]},
            {'name': 'after-polluter', 'goroutines': 1, 'order': after_pol},
            {'name': 'shuffled', 'goroutines': 1, 'order': shuffled(small)},
            {'name': 'twice-in-a-row', 'goroutines': 1, 'order': twice},
            {'name': 'concurrent', 'goroutines': 8, 'order': shuffled(small) + shuffled(small)}]
    return {'runs': runs, 'polluters': [{'id': -1 - k, 'mode': 'pair', 'before': hx(b), 'after': hx(a)} for k, (b, a) in enumerate(pol)]}


def entry_pair(plan, by_id, e):
    """the (before, after) of a plan entry"""
    if e < 0:
        p = plan['polluters'][-e - 1]
        return bytes.fromhex(p['before']), bytes.fromhex(p['after'])
    c = by_id[e]
    return bytes.fromhex(c['before']), bytes.fromhex(c['after'])


def rec_key(o):
    """what two evaluations of one pair must agree in"""
    return json.dumps([o.get('panic'), o.get('edits'), o.get('applied'), o.get('applerr')])


def seq_deviates(recs_seq, recs_alone):
    """the last call of a sequence against the same pair evaluated as the first call after the pools were emptied"""
    if recs_seq is None:
        return 'the process died during the sequence'
    last = recs_seq[-1]
    why = go_bad(last)
    if why:
        return why
    if recs_alone is not None and rec_key(last) != rec_key(recs_alone[-1]):
        return 'the edit list differs from the one the same pair gets as the first call of a process'
    return None


# ------------------------------------------------------------------ running the implementation

OVERLAY = {
    'internal/lsp/zz_verif_c16_test.go': os.path.join(vlib.VERIF, 'harness', 'overlay', 'c16_test.go'),
    'internal/lsp/zz_verif_c16srv_test.go': os.path.join(vlib.VERIF, 'harness', 'overlay', 'c16_server_test.go'),
}


def build_test_binary(ctx):
    """the overlay tests of package lsp compiled ONCE into a test binary (go test -c -overlay): the pair test and the server test
    then run as separate processes (a crash of one cannot hide the results of the other), and replays / minimisation re-run the
    binary without linking again"""
    path = getattr(ctx, '_c16_bin', None)
    if path:
        return path
    ov = {'Replace': {os.path.join(vlib.REPO, k): v for k, v in OVERLAY.items()}}
    ovp = os.path.join(ctx.tmp, 'overlay_c16.json')
    json.dump(ov, open(ovp, 'w'))
    path = os.path.join(ctx.tmp, 'c16.test')
    rc, log = vlib.run([vlib.GO, 'test', '-c', '-overlay', ovp, '-vet=off', '-o', path, './internal/lsp'],
                       cwd=vlib.REPO, env=vlib.goenv(), timeout=900)
    if rc != 0 or not os.path.exists(path):
        raise vlib.HarnessBuildError(log)
    ctx._c16_bin = path
    return path


def run_bin(ctx, pattern, env_extra, timeout=1500):
    env = vlib.goenv()
    env.update(env_extra)
    return vlib.run([build_test_binary(ctx), '-test.run', pattern, '-test.count=1', '-test.timeout', '%ds' % timeout],
                    cwd=os.path.join(vlib.REPO, 'internal', 'lsp'), env=env, timeout=timeout + 120)


def last_line(path):
    try:
        ls = open(path).read().splitlines()
    except OSError:
        return None
    return ls[-1] if ls else None


def run_pairs(ctx, cases, tag, plan=None):
    """the pair test in its own process.  A panic inside ComputeEdits is recovered per evaluation by the harness; should the process
    die all the same (fatal error, time-out), the evaluation in flight is read from the journal, that case is recorded as a crash
    and the others are run again without it.  Returns results by id."""
    res, crashed = {}, {}
    todo = list(cases)
    for attempt in range(4):
        inp = os.path.join(ctx.tmp, 'c16_in_%s_%d.jsonl' % (tag, attempt))
        outp = os.path.join(ctx.tmp, 'c16_out_%s_%d.jsonl' % (tag, attempt))
        jp = os.path.join(ctx.tmp, 'c16_journal_%s_%d.txt' % (tag, attempt))
        with open(inp, 'w') as f:
            for c in todo:
                f.write(json.dumps({'id': c['id'], 'mode': c['mode'], 'before': c['before'], 'after': c['after']}) + '\n')
        env = {'VERIF_C16_IN': inp, 'VERIF_C16_OUT': outp, 'VERIF_C16_JOURNAL': jp}
        if plan is not None:
            # plan entries index the position in `todo`
            pos = {c['id']: k for k, c in enumerate(todo)}
            pl = {'polluters': plan['polluters'],
                  'runs': [{'name': r['name'], 'goroutines': r['goroutines'],
                            'order': [(e if e < 0 else pos[e]) for e in r['order'] if e < 0 or e in pos]} for r in plan['runs']]}
            pp = os.path.join(ctx.tmp, 'c16_plan_%s_%d.json' % (tag, attempt))
            json.dump(pl, open(pp, 'w'))
            env['VERIF_C16_PLAN'] = pp
        rc, log = run_bin(ctx, '^TestVerifC16$', env)
        if rc == 0:
            for l in open(outp):
                o = json.loads(l)
                res[o['id']] = o
            break
        # the process died: which evaluation was in flight?
        jl = last_line(jp)
        culprit = None
        if jl:
            parts = jl.split()
            if parts[0] == 'forward':
                culprit = int(parts[2])
            elif len(parts) == 3 and int(parts[2]) >= 0:
                culprit = todo[int(parts[2])]['id']
        if culprit is None or attempt == 3:
            raise RuntimeError('c16 pair test died and the evaluation in flight cannot be told (journal: %r):\n%s' % (jl, log[-3000:]))
        crashed[culprit] = {'id': culprit, 'crash': 'the test process died during this evaluation (%s): %s' % (jl, log[-1500:]),
                            'edits': [], 'applied': False, 'sorted': True, 'disjoint': True, 'indoc': True, 'strict': True, 'char0': True,
                            'nlines': 0, 'journal': jl}
        todo = [c for c in todo if c['id'] != culprit]
    res.update(crashed)
    return res


def run_seqs(ctx, seqs, tag):
    """replay mode of the pair test: every element of seqs is a SEQUENCE of (before, after) pairs, evaluated in order in one
    process (on one OS thread, no garbage collection inside a sequence, pools emptied between sequences).  Returns, per sequence,
    the list of records (None when the process died during it)."""
    inp = os.path.join(ctx.tmp, 'c16_seq_in_%s.jsonl' % tag)
    outp = os.path.join(ctx.tmp, 'c16_seq_out_%s.jsonl' % tag)
    with open(inp, 'w') as f:
        for k, sq in enumerate(seqs):
            f.write(json.dumps({'id': k, 'seq': [{'id': n, 'mode': 'pair', 'before': hx(b), 'after': hx(a)} for n, (b, a) in enumerate(sq)]}) + '\n')
    rc, log = run_bin(ctx, '^TestVerifC16$', {'VERIF_C16_IN': inp, 'VERIF_C16_OUT': outp, 'VERIF_C16_SEQ': '1',
                                               'VERIF_C16_JOURNAL': os.path.join(ctx.tmp, 'c16_seq_journal_%s.txt' % tag)})
    out = [None] * len(seqs)
    try:
        for l in open(outp):
            o = json.loads(l)
            out[o['id']] = o['recs']
    except (OSError, ValueError):
        pass
    if rc != 0 and all(x is not None for x in out):
        raise RuntimeError('c16 sequence test failed:\n' + log[-3000:])
    return out


def run_servers(ctx, srv_cases, tag):
    """the server test in its own process; results by id plus the list of cases that were in flight when a process died"""
    sres, died = {}, []
    todo = list(srv_cases)
    for attempt in range(3):
        if not todo:
            break
        sinp = os.path.join(ctx.tmp, 'c16_srv_in_%s_%d.jsonl' % (tag, attempt))
        soutp = os.path.join(ctx.tmp, 'c16_srv_out_%s_%d.jsonl' % (tag, attempt))
        jp = os.path.join(ctx.tmp, 'c16_srv_journal_%s_%d.txt' % (tag, attempt))
        with open(sinp, 'w') as f:
            for c in todo:
                f.write(json.dumps(c) + '\n')
        rc, log = run_bin(ctx, '^TestVerifC16Server$', {'VERIF_C16_SRV_IN': sinp, 'VERIF_C16_SRV_OUT': soutp, 'VERIF_C16_SRV_JOURNAL': jp,
                                                         'VERIF_C16_SRV_WS': os.path.join(ctx.tmp, 'c16_ws_%s_%d' % (tag, attempt))})
        got = {}
        try:
            for l in open(soutp):
                try:
                    o = json.loads(l)
                except ValueError:
                    continue
                got[o['id']] = o
        except OSError:
            pass
        sres.update(got)
        if rc == 0:
            break
        started = set()
        try:
            started = {int(x) for x in open(jp).read().split()}
        except (OSError, ValueError):
            pass
        inflight = [c for c in todo if c['id'] in started and c['id'] not in got]
        if not inflight:
            raise RuntimeError('c16 server test failed:\n' + log[-3000:])
        for c in inflight:
            prefix = [x for x in todo if x['profile'] == c['profile'] and (x['id'] in got or x['id'] == c['id'])]
            died.append({'case': c, 'sequence': prefix, 'log': log[-2500:]})
        gone = {c['id'] for c in inflight}
        todo = [c for c in todo if c['id'] not in got and c['id'] not in gone]
    return sres, died


def run_go(ctx, cases, tag='main', srv_cases=None, plan=None, want_died=False):
    """runs the overlay tests: the pairs through ComputeEdits (TestVerifC16) and, when given, the server-level cases through real
    language servers (TestVerifC16Server) -- two processes of one test binary, side by side.
    Returns the pair results by id; with srv_cases: (pair results, server results by id[, died])"""
    build_test_binary(ctx)
    if srv_cases is None:
        return run_pairs(ctx, cases, tag, plan)
    box = {}

    def srv():
        try:
            box['srv'] = run_servers(ctx, srv_cases, tag)
        except BaseException as e:      # re-raised in the caller's thread
            box['err'] = e
    th = threading.Thread(target=srv)
    th.start()
    try:
        res = run_pairs(ctx, cases, tag, plan) if cases else {}
    finally:
        th.join()
    if 'err' in box:
        raise box['err']
    sres, died = box['srv']
    missing = [c['id'] for c in srv_cases if c['id'] not in sres and not any(d['case']['id'] == c['id'] for d in died)]
    if missing and not died:
        raise RuntimeError('no output for server case %d' % missing[0])
    if want_died:
        return res, sres, died
    return res, sres


def go_bad(o):
    """the property predicate on the implementation's own output; returns a reason or None"""
    if o.get('skip'):
        return None
    if o.get('crash'):
        return o['crash'][:400]
    if o.get('panic'):
        return 'panic: ' + o['panic']
    if not o['applied']:
        return 'applying the edits does not give `after`' + (' (%s)' % o['applerr'] if o.get('applerr') else '')
    if not o['sorted']:
        return 'edits not ordered by start'
    if not o['disjoint']:
        return 'edits overlap'
    if not o['indoc']:
        return 'edit position outside the document'
    if not o['char0']:
        return 'unexpected non-zero character'
    if o.get('closed') and not o['strict']:
        return 'position past the last line although the document ends with a line terminator'
    return None


# ------------------------------------------------------------------ Coq side

class Interner:
    def __init__(self):
        self.ids, self.defs = {}, []

    def line(self, b):
        i = self.ids.get(b)
        if i is None:
            i = len(self.ids)
            self.ids[b] = i
            self.defs.append('Definition l%d : str := [%s].' % (i, ';'.join('b%d' % x for x in b)))
        return 'l%d' % i

    def text(self, d):
        if not d:
            return '[]'
        parts = [m.group(0) for m in re.finditer(rb'[^\n]*\n|[^\n]+', d)]
        return 'cat [%s]' % ';'.join(self.line(p) for p in parts)


def zlit(n):
    return 'z%d' % n if 0 <= n < 128 else '(%d)' % n


def shard_text(items):
    """items: list of (before bytes, after bytes, edits [[sl,sc,el,ec,hex]])"""
    it = Interner()
    rows = []
    for before, after, edits in items:
        es = '[%s]' % ';'.join('(%s,%s,%s,%s,%s)' % (zlit(e[0]), zlit(e[1]), zlit(e[2]), zlit(e[3]), it.text(bytes.fromhex(e[4])))
                               for e in edits)
        rows.append('Case16 (%s) (%s) %s' % (it.text(before), it.text(after), es))
    v = ['From Regal Require Import Check.C16Check.', 'Open Scope Z_scope.']
    v += it.defs
    # chunks of 500 cases keep individual terms small
    names = []
    for k in range(0, len(rows), 500):
        nm = 'cs%d' % (k // 500)
        names.append(nm)
        v.append('Definition %s : list c16_case := [\n%s].' % (nm, ';\n'.join(rows[k:k + 500])))
    v.append('Definition cases : list c16_case := %s.' % (' ++ '.join(names) if names else '[]'))
    v.append('Definition R1 := Eval vm_compute in failing16 case_agrees 0 cases.')
    v.append('Definition R2 := Eval vm_compute in failing16 case_meets_spec 0 cases.')
    v.append('Definition R3 := Eval vm_compute in failing16 model_meets_spec 0 cases.')
    v.append('Definition R4 := Eval vm_compute in map (fun c => Z.to_nat (case_rounds c + 1)) cases.')
    v.append('Print R1. Print R2. Print R3. Print R4.')
    return vlib.CASE_HEADER + '\n'.join(v) + '\n'


def coq_seq_disagreements(ctx, sq, recs, tag):
    """Check.C16Check.seq_disagreements on one observed sequence of calls: the positions whose observed edit list is not the
    model's (a call that panicked has no edit list: it is listed without asking Coq)"""
    it = Interner()
    rows, pan = [], []
    for k, ((b, a), r) in enumerate(zip(sq, recs)):
        if r.get('panic') or r.get('crash'):
            pan.append(k)
            r = dict(r, edits=[])
        es = '[%s]' % ';'.join('(%s,%s,%s,%s,%s)' % (zlit(e[0]), zlit(e[1]), zlit(e[2]), zlit(e[3]), it.text(bytes.fromhex(e[4]))) for e in r['edits'])
        rows.append('Case16 (%s) (%s) %s' % (it.text(b), it.text(a), es))
    v = ['From Regal Require Import Check.C16Check.', 'Open Scope Z_scope.'] + it.defs
    v.append('Definition calls : list c16_case := [\n%s].' % ';\n'.join(rows))
    v.append('Definition Q1 := Eval vm_compute in seq_disagreements 0 calls.')
    v.append('Print Q1.')
    rc, out = vlib.coq_eval(ctx, 'Cases_C16_seq_%s' % tag, '\n'.join(v))
    if rc != 0:
        raise RuntimeError('sequence evaluation failed:\n' + out[-2000:])
    q = vlib.parse_nat_list(out, 'Q1')
    return sorted(set((q or []) + pan))


def coq_shards(ctx, items, tag='main', nshards=NSHARDS):
    """evaluate the comparison functions on all items (sharded over parallel coqc processes);
    returns (agree_fail, spec_fail, model_fail, rounds) as lists of indices into items"""
    n = len(items)
    if n == 0:
        return [], [], [], []
    nshards = max(1, min(nshards, (n + 49) // 50))
    # round-robin by cost so the shards finish together
    order = sorted(range(n), key=lambda i: -(len(items[i][0]) + len(items[i][1])))
    buckets = [[] for _ in range(nshards)]
    loads = [0] * nshards
    for i in order:
        k = loads.index(min(loads))
        buckets[k].append(i)
        loads[k] += len(items[i][0]) + len(items[i][1]) + 40
    procs = []
    for k, idxs in enumerate(buckets):
        idxs.sort()
        path = os.path.join(ctx.tmp, 'Cases_C16_%s_%d.v' % (tag, k))
        with open(path, 'w') as f:
            f.write(shard_text([items[i] for i in idxs]))
        cmd = 'ulimit -s unlimited 2>/dev/null; exec timeout 1700 coqc -Q %s Regal -Q %s Cases %s' % (
            os.path.join(vlib.COQ, 'theories'), ctx.tmp, path)
        procs.append((idxs, subprocess.Popen(['sh', '-c', cmd], cwd=ctx.tmp, stdout=subprocess.PIPE,
                                             stderr=subprocess.STDOUT, text=True, errors='replace')))
    r1, r2, r3, rounds = [], [], [], {}
    for idxs, p in procs:
        out, _ = p.communicate(timeout=1800)
        if p.returncode != 0:
            raise RuntimeError('case evaluation failed:\n' + out[-3000:])
        a, b, c, d = (vlib.parse_nat_list(out, m) for m in ('R1', 'R2', 'R3', 'R4'))
        if a is None or b is None or c is None or d is None or len(d) != len(idxs):
            raise RuntimeError('cannot parse case evaluation output:\n' + out[-2000:])
        r1 += [idxs[j] for j in a]
        r2 += [idxs[j] for j in b]
        r3 += [idxs[j] for j in c]
        for j, x in enumerate(d):
            rounds[idxs[j]] = x - 1
    return sorted(r1), sorted(r2), sorted(r3), [rounds[i] for i in range(n)]


# ------------------------------------------------------------------ minimisation

def minimise(ctx, before, after, is_bad, budget_s=60):
    """greedy line-wise shrinking; is_bad(list of (before, after)) -> list of bool (one batch run).
    Large documents are first shrunk by removing chunks of lines (halving the chunk size), under a time budget."""
    t_end = time.time() + budget_s
    cur = (before, after)
    for side in (0, 1):
        chunk = max(1, len(split_keep(cur[side])) // 2)
        while chunk >= 8 and time.time() < t_end:
            ls = split_keep(cur[side])
            cands = []
            for i in range(0, len(ls), chunk):
                rest = b''.join(ls[:i] + ls[i + chunk:])
                cands.append((rest, cur[1]) if side == 0 else (cur[0], rest))
            cands = [c for c in cands if c != cur][:24]
            if not cands:
                break
            bad = is_bad(cands)
            better = [c for c, x in zip(cands, bad) if x]
            if better:
                cur = min(better, key=lambda c: (len(c[0]) + len(c[1]), c))
            else:
                chunk //= 2
    if len(split_keep(cur[0])) + len(split_keep(cur[1])) > 400 or time.time() >= t_end:
        return cur
    cur = (before, after)
    for rnd in range(40):
        if time.time() >= t_end:
            break
        lb, la = split_keep(cur[0]), split_keep(cur[1])
        cands = []
        for i in range(len(lb)):
            cands.append((b''.join(lb[:i] + lb[i + 1:]), cur[1]))
        for i in range(len(la)):
            cands.append((cur[0], b''.join(la[:i] + la[i + 1:])))
        # both at once (common lines)
        for i in range(len(lb)):
            if lb[i] in la:
                j = la.index(lb[i])
                cands.append((b''.join(lb[:i] + lb[i + 1:]), b''.join(la[:j] + la[j + 1:])))
        # shorten line bodies to one letter per distinct body
        names = {}
        def short(l):
            body = l.rstrip(b'\r\n')
            if body not in names:
                names[body] = bytes([97 + len(names) % 26]) * (1 + len(names) // 26)
            return names[body] + l[len(body):]
        cands.append((b''.join(short(l) for l in lb), b''.join(short(l) for l in la)))
        cands = [c for c in cands if c != cur]
        if not cands:
            break
        bad = is_bad(cands)
        better = [c for c, x in zip(cands, bad) if x]
        if not better:
            break
        cur = min(better, key=lambda c: (len(c[0]) + len(c[1]), c))
    return cur


# ------------------------------------------------------------------ server level

def shx(t):
    return t.encode('utf-8').hex()


def unhx(h):
    return bytes.fromhex(h or '')


BLANK_TOKENS = [' ', '\t', '\n', '\r\n', '\r']
BLANKS = ['\n', '\n\n', '\r\n\r\n', '  \t', '  \n\t\n', '\n \n', '\n\n\n', ' ', '﻿', ' \r\n']
HEADERS = ['package main', 'package  main', 'package pol.sub', 'package p', 'package main\n\nimport rego.v1']
RULES = ['x := 1', 'x   :=   1', 'x = 1', 'allow if {\n\tinput.x == 1\n}', 'allow if {\n  input.x == 1\n}',
         'allow if { input.x == 1 }', '#comment', '# comment', 'r := regex.match("a+", input.s)', 'default allow := false',
         'deny contains msg if {\n\tmsg := "no"\n}', 'y := "日本語 😀"', 'z = "a=b"  #c', 'allow  if  input.y', '# one\rtwo']
UNPARSABLE = ['package', 'package p\n\nallow := {\n', 'x := 1\n', '# only a comment\n', 'package p\n\nx := := 1\n', '}{',
              'package p\n\nimport\n', 'package p\r\n\r\nallow {', '﻿package p\n']
SRV_DIRS = ['', 'main', 'pol/sub', 'my-pkg/sub', 'a.b', 'x']
FIX_COMMANDS = [('regal.fix.opa-fmt', ''), ('regal.fix.use-rego-v1', ''), ('regal.fix.use-assignment-operator', '='),
                ('regal.fix.no-whitespace-comment', '#'), ('regal.fix.non-raw-regex-pattern', '"')]


def random_blank(rng):
    return ''.join(rng.choice(BLANK_TOKENS + ['\n']) for _ in range(1 + rng.below(6)))


def random_policy(rng):
    parts = [rng.choice(HEADERS)]
    for _ in range(rng.below(5)):
        parts.append(rng.choice(RULES))
    sep = rng.choice(['\n\n', '\n\n', '\n', '\n\n\n'])
    t = sep.join(parts)
    v = rng.below(10)
    if v < 6:
        t += '\n'
    elif v == 6:
        t += '\n\n\n'
    elif v == 7:
        t += '  \n'
    if rng.below(8) == 0:
        t = rng.choice(['\n', '\n\n', ' \n']) + t
    if rng.below(6) == 0:
        t = t.replace('\n', ' \n', 1)
    style = rng.below(6)
    if style == 0:
        t = t.replace('\n', '\r\n')
    elif style == 1:
        t = ''.join(('\r\n' if ch == '\n' and rng.below(2) else ch) for ch in t)
    return t


def random_doc_srv(rng, files):
    v = rng.below(20)
    if v < 11:
        return random_policy(rng)
    if v < 13:
        return rng.choice(UNPARSABLE)
    if v < 15:
        return rng.choice(BLANKS) if rng.below(2) else random_blank(rng)
    if v == 15:
        return ''
    if v < 18 and files:
        try:
            t = open(rng.choice(files), 'rb').read().decode('utf-8')
        except UnicodeDecodeError:
            return random_policy(rng)
        if rng.below(2):
            t = mutate(rng, t.encode(), ['lf']).decode('utf-8', 'replace')
        return t
    return random_policy(rng) + rng.choice(RULES)


def gen_srv_cases(ctx):
    rng = ctx.rng
    quick = ctx.quick()
    cases = []
    files = [f for f in policy_files() if os.path.getsize(f) < 2500]

    def add(profile, d, text, op='format', test=False, disk=None, open_first=None, never_open=False, command='', char='', nth=0, then=None):
        i = len(cases)
        c = {'id': i, 'profile': profile, 'dir': d, 'file': 'p%d%s.rego' % (i, '_test' if test else ''),
             'disk': 'missing' if disk is None else 'content', 'disk_hex': '' if disk is None else shx(disk),
             'open': None, 'change': None, 'op': op, 'command': command, 'char': char, 'nth': nth, 'then': then or []}
        if op != 'create' and not never_open:
            if open_first is not None:
                c['open'], c['change'] = shx(open_first), shx(text)
            else:
                c['open'] = shx(text)
        cases.append(c)

    def disk_for(text):
        v = rng.below(12)
        if v < 6:
            return None
        if v < 8:
            return ''
        if v == 8:
            return rng.choice(BLANKS)
        if v == 9:
            return text
        return 'package on_disk\n'

    # the boundary "empty" / "blank": every document of <= 2 white space tokens, in the workspace root and below it
    blanks2 = [''] + BLANK_TOKENS + [a + b for a in BLANK_TOKENS for b in BLANK_TOKENS]
    blanks2 = sorted(set(blanks2), key=lambda t: (len(t), t))
    for t in blanks2:
        for d in ('', 'main'):
            add('default', d, t)
    # every directory kind x {empty, blank, formatted, unformatted, unparsable} x disk state, opa-fmt
    for d in SRV_DIRS:
        for t in ('', '\n\n', 'package main\n\nx := 1\n', 'package  main\n\n\nx   :=   1\n', 'package main\r\n\r\nx = 1', 'package'):
            add('default', d, t, disk=rng.choice([None, None, '', '\n', 'package q\n']), test=(rng.below(4) == 0))
    n = 70 if quick else 900
    for _ in range(n):
        t = random_doc_srv(rng, files)
        add('default', rng.choice(SRV_DIRS), t, disk=disk_for(t), test=(rng.below(5) == 0),
            open_first=(random_doc_srv(rng, files) if rng.below(4) == 0 else None), never_open=(rng.below(25) == 0))
    for _ in range(24 if quick else 300):
        t = random_doc_srv(rng, files)
        add('regov1', rng.choice(SRV_DIRS), t, disk=disk_for(t), test=(rng.below(5) == 0))
    for _ in range(40 if quick else 400):
        t = random_doc_srv(rng, files)
        add('config', rng.choice(SRV_DIRS + ['ignored/pol', 'ignored/pol', 'v0/pol', 'v0/pol']), t, disk=disk_for(t),
            test=(rng.below(5) == 0), open_first=(random_doc_srv(rng, files) if rng.below(5) == 0 else None))
    for t in ['', '\n', 'package  main\n\nx = 1\n', 'package'] + [random_doc_srv(rng, files) for _ in range(2 if quick else 30)]:
        add('unknown', rng.choice(['main', 'pol/sub', '']), t)
    for t in ['', ' \n', 'package main\n\nx = 1\n', 'package main\n\nx := 1\n', 'package'] + \
             [random_doc_srv(rng, files) for _ in range(3 if quick else 60)]:
        add('regalfix', rng.choice(['main', 'pol/sub']), t)
    # fix commands (command worker -> workspace/applyEdit)
    bait = {'=': ['x = 1', 'allow = true', 'y = "a=b"'], '#': ['#comment', 'x := 1  #c', '#é x'],
            '"': ['r := regex.match("a+", input.s)', 'r := regex.match("\\\\d", "1")', 's := "日本"']}
    for _ in range(40 if quick else 500):
        t = random_doc_srv(rng, files)
        cmd, ch = rng.choice(FIX_COMMANDS)
        if ch and rng.below(4) != 0:
            # a document in which the diagnostic has something to point at (any line terminator style)
            t = random_policy(rng)
            nl = '\r\n' if '\r\n' in t else '\n'
            t = t + ('' if t.endswith('\n') else nl) + nl + rng.choice(bait[ch]) + (nl if rng.below(3) else '')
        add('default', rng.choice(['main', 'pol/sub', '']), t, op='cmd', command=cmd, char=ch, nth=rng.below(3),
            open_first=(random_doc_srv(rng, files) if rng.below(5) == 0 else None), never_open=(rng.below(20) == 0))
    # consecutive requests on ONE document of one server (seed round 3): the editor applies the edits of the first answer, tells the
    # server (didChange) and asks again; the second edit lies ABOVE the first one (and, in other cases, below it / at the same
    # line), so that nothing one diff leaves behind may show in the next
    def step(op, command='', char='', nth=0):
        return {'op': op, 'command': command, 'char': char, 'nth': nth}
    UAO, NWC = 'regal.fix.use-assignment-operator', 'regal.fix.no-whitespace-comment'
    for k in range(10 if quick else 80):
        nl = rng.choice(['\n', '\n', '\r\n'])
        n_b = 2 + rng.below(5)
        pad = lambda: [rng.choice(['', '# c', 'import rego.v1', 'z := 0'])] * rng.below(3)
        ch, cmd, mk = rng.choice([('=', UAO, lambda i: 'x%d = %d' % (i, i)), ('#', NWC, lambda i: '#note %d' % i)])
        lines = ['package main', '']
        for i in range(n_b):
            lines += pad() + [mk(i)]
        text = nl.join(lines) + (nl if rng.below(4) else '')
        order = list(range(n_b))
        v = rng.below(4)
        if v == 0:
            seq = [n_b - 1, 0]                    # bottom first, then the top one (still the first occurrence)
        elif v == 1:
            seq = [n_b - 1, n_b - 2, 0][:n_b]
        elif v == 2:
            seq = [0, 0]                          # top first; the next occurrence is then the first one left ...
        else:
            seq = [rng.below(n_b), 0]
        if ch == '=':
            # a fixed `=` becomes `:=`, which still contains the byte: occurrences keep their index
            pass
        add('default', rng.choice(['main', 'pol/sub', '']), text, op='cmd', command=cmd, char=ch, nth=seq[0],
            then=[step('cmd', cmd, ch, n) for n in seq[1:]] + ([step('format')] if rng.below(3) == 0 else []))
    for k in range(8 if quick else 60):
        # a quick fix near the end, then formatting (its edits lie above), and the other way round
        body = ['x   :=   1', '', '', 'allow  if  input.y', '# c'] + ['r%d := %d' % (i, i) for i in range(rng.below(6))]
        bait = rng.choice([('=', UAO, 'y = 2'), ('#', NWC, '#last')])
        text = '\n'.join([rng.choice(['package  main', 'package main']), ''] + body + ['', bait[2]]) + '\n'
        if rng.below(2):
            add('default', rng.choice(['main', 'pol/sub']), text, op='cmd', command=bait[1], char=bait[0], nth=0, then=[step('format'), step('format')])
        else:
            text = '\n'.join(['package main', '', bait[2], '', ''] + body) + '\n'
            add(rng.choice(['default', 'regov1']), rng.choice(['main', 'pol/sub']), text, op='format', then=[step('cmd', bait[1], bait[0], 0), step('format')])
    # new files (template worker -> workspace/applyEdit)
    for _ in range(24 if quick else 200):
        d = rng.choice(SRV_DIRS + ['main', 'pol/sub'])
        disk = rng.choice(['', '', '', '\n', ' ', 'package q\n', random_blank(rng)])
        add(rng.choice(['default', 'default', 'config']), d, '', op='create', disk=disk, test=(rng.below(4) == 0))
    return cases


def srv_intended(c, o):
    """the text the server is to intend, from the oracles alone (same definition as Check.C16Check.intended_text)"""
    client = unhx(o['client'])
    has = o['has_client']
    template = unhx(o['template']) if o['template_ok'] else None
    disk = None if c['disk'] == 'missing' else unhx(c['disk_hex'])

    def guard(in_cache):
        if not in_cache or (disk is not None and len(disk) > 0):
            return None
        return template
    if c['op'] == 'format':
        if client == b'':
            if o['in_root']:
                return client
            t = guard((not o['ignored']) and has)
            return client if t is None else t
        if o['kind'] != 'unknown' and o['ora_class'] == 'new':
            return unhx(o['ora_out'])
        return client
    if c['op'] == 'cmd':
        return unhx(o['ora_out']) if has and o['ora_class'] == 'new' else client
    if o['in_root'] or not has or client != b'':
        return client
    t = guard(True)
    return client if t is None else t


def srv_steps(c, o):
    """a case and the requests that follow it on the same document, as (case-like dict, output) pairs"""
    out = [(c, o)]
    for st, o2 in zip(c.get('then') or [], o.get('then') or []):
        out.append((dict(c, op=st['op'], command=st['command'], char=st['char'], nth=st['nth'], then=[]), o2))
    return out


def srv_bad_all(c, o):
    """srv_bad on the request and on every following request of the case"""
    for k, (c2, o2) in enumerate(srv_steps(c, o)):
        why = srv_bad(c2, o2)
        if why:
            return why if k == 0 else 'request %d on the same document (%s%s): %s' % (k + 1, c2['op'], ' ' + c2['command'] if c2['command'] else '', why)
    if len(o.get('then') or []) != len(c.get('then') or []):
        return 'only %d of the %d following requests were answered' % (len(o.get('then') or []), len(c.get('then') or []))
    return None


def srv_bad(c, o):
    """the property on the server's own answers; returns a reason or None"""
    if o.get('panic'):
        return 'the server panicked while handling the request (a real server ends here): ' + o['panic'][:300]
    client = unhx(o['client'])
    before, after = unhx(o['before']), unhx(o['after'])
    if o['has_client'] and c['op'] != 'create' and (not o['before_has'] or before != client):
        return 'the server does not hold the text the client sent (%r)' % before.decode('utf-8', 'replace')[:80]
    if o['class'] != 'edits':
        if o['after_has'] != o['before_has'] or (after != before and c['op'] != 'create'):
            return 'no edits were sent but the server changed its copy of the document'
        if c['op'] == 'create' and o['after_has'] and after != client:
            return 'no edits were sent for the new file but the server holds another text than the editor'
        return None
    if not o['appl_ok']:
        return 'the edits cannot be applied to the client\'s text (%s)' % o.get('applerr')
    applied = unhx(o['applied'])
    if o['after_has'] and after != client and applied != after:
        return 'after applying the edits the editor holds %r, the server holds %r' % (
            applied.decode('utf-8', 'replace')[:120], after.decode('utf-8', 'replace')[:120])
    want = srv_intended(c, o)
    if applied != want:
        return 'after applying the edits the editor holds %r, the intended text is %r' % (
            applied.decode('utf-8', 'replace')[:120], want.decode('utf-8', 'replace')[:120])
    if not o['sorted']:
        return 'edits not ordered by start'
    if not o['disjoint']:
        return 'edits overlap'
    if not o['indoc']:
        return 'edit position outside the client\'s document'
    if not o['char0']:
        return 'unexpected non-zero character'
    return None


def srv_flat(srv_cases, sres):
    """every request of every case (panicked requests have no answer to compare: left to the predicate)"""
    return [(c2, o2) for c in srv_cases for c2, o2 in srv_steps(c, sres[c['id']]) if not o2.get('panic')]


def srv_flat_parents(srv_cases, sres):
    return [c for c in srv_cases for c2, o2 in srv_steps(c, sres[c['id']]) if not o2.get('panic')]


def flow_text(srv_cases, sres):
    it = Interner()

    def opt(b):
        return 'None' if b is None else '(Some (%s))' % it.text(b)

    def cb(x):
        return 'true' if x else 'false'
    rows = []
    for c, o in srv_flat(srv_cases, sres):
        disk = None if c['disk'] == 'missing' else unhx(c['disk_hex'])
        template = unhx(o['template']) if o['template_ok'] else None
        ora = {'new': '(ONew (%s))' % it.text(unhx(o['ora_out'])), 'none': 'ONone', 'err': 'OErr'}[o['ora_class']]
        if c['op'] == 'format':
            kind = {'opa-fmt': 'KOpaFmt', 'regal-fix': 'KRegalFix', 'unknown': 'KUnknown'}[o['kind']]
            q = '(QFormat %s %s %s %s %s %s)' % (kind, cb(o['in_root']), cb(o['ignored']), opt(disk), opt(template), ora)
        elif c['op'] == 'cmd':
            q = '(QFix %s)' % ora
        else:
            q = '(QTemplate %s %s %s)' % (cb(o['in_root']), opt(disk), opt(template))
        cache = opt(unhx(o['client']) if o['has_client'] else None)
        if o['class'] == 'edits':
            obs = '(OEdits [%s])' % ';'.join('(%s,%s,%s,%s,%s)' % (zlit(e[0]), zlit(e[1]), zlit(e[2]), zlit(e[3]), it.text(bytes.fromhex(e[4])))
                                             for e in o['edits'])
        else:
            obs = {'null': 'ONullR', 'error': 'OErrorR', 'silent': 'OSilent'}[o['class']]
        after = opt(unhx(o['after']) if o['after_has'] else None)
        rows.append('FlowCase %s %s %s %s' % (q, cache, obs, after))
    v = ['From Regal Require Import Check.C16Check.', 'Open Scope Z_scope.'] + it.defs
    v.append('Definition fcases : list flow_case := [\n%s].' % ';\n'.join(rows))
    v.append('Definition F1 := Eval vm_compute in failing16 flow_agrees 0 fcases.')
    v.append('Definition F2 := Eval vm_compute in failing16 flow_meets_spec 0 fcases.')
    v.append('Definition F3 := Eval vm_compute in failing16 flow_model_meets_spec 0 fcases.')
    v.append('Print F1. Print F2. Print F3.')
    return vlib.CASE_HEADER + '\n'.join(v) + '\n'


def coq_flow_start(ctx, srv_cases, sres, tag='main'):
    if not srv_cases:
        return None
    path = os.path.join(ctx.tmp, 'Cases_C16_flow_%s.v' % tag)
    with open(path, 'w') as f:
        f.write(flow_text(srv_cases, sres))
    cmd = 'ulimit -s unlimited 2>/dev/null; exec timeout 1700 coqc -Q %s Regal -Q %s Cases %s' % (
        os.path.join(vlib.COQ, 'theories'), ctx.tmp, path)
    return subprocess.Popen(['sh', '-c', cmd], cwd=ctx.tmp, stdout=subprocess.PIPE, stderr=subprocess.STDOUT, text=True, errors='replace')


def coq_flow_finish(proc):
    """(flow_agrees failures, flow_meets_spec failures, flow_model_meets_spec failures) as indices"""
    if proc is None:
        return [], [], []
    out, _ = proc.communicate(timeout=1800)
    if proc.returncode != 0:
        raise RuntimeError('flow case evaluation failed:\n' + out[-3000:])
    r = [vlib.parse_nat_list(out, m) for m in ('F1', 'F2', 'F3')]
    if any(x is None for x in r):
        raise RuntimeError('cannot parse flow case evaluation output:\n' + out[-2000:])
    return r


def srv_shrink_candidates(c):
    """smaller variants of a server-level case (same operation, same profile)"""
    out = []
    th = c.get('then') or []
    for i in range(len(th)):
        out.append(dict(c, then=th[:i] + th[i + 1:]))
    key = 'change' if c.get('change') is not None else 'open'
    if c['op'] != 'create' and c.get(key) is not None:
        lines = split_keep(bytes.fromhex(c[key]))
        for i in range(len(lines)):
            out.append(dict(c, **{key: b''.join(lines[:i] + lines[i + 1:]).hex()}))
        if c.get('change') is not None:
            out.append(dict(c, open=c['change'], change=None))
    if c['disk'] != 'missing' and c['op'] != 'create':
        out.append(dict(c, disk='missing', disk_hex=''))
    if c['file'].endswith('_test.rego'):
        out.append(dict(c, file=c['file'].replace('_test.rego', '.rego')))
    if c['op'] == 'create' and len(c['disk_hex']) > 2:
        b = bytes.fromhex(c['disk_hex'])
        out += [dict(c, disk_hex=(b[:i] + b[i + 1:]).hex()) for i in range(len(b))]
    return out


def srv_size(c):
    return len(c.get('open') or '') + len(c.get('change') or '') + len(c.get('disk_hex') or '') + len(c['file']) + 40 * len(c.get('then') or [])


def srv_minimise(ctx, c, budget_s=90):
    t_end = time.time() + budget_s
    cur = c
    for rnd in range(8):
        if time.time() >= t_end:
            break
        cands = [dict(x, id=i) for i, x in enumerate(srv_shrink_candidates(cur))][:60]
        if not cands:
            break
        _, rr = run_go(ctx, [], tag='smin%d' % rnd, srv_cases=cands)
        better = [x for x in cands if x['id'] in rr and not rr[x['id']].get('fatal') and srv_bad_all(x, rr[x['id']])]
        if not better:
            break
        cur = min(better, key=lambda x: (srv_size(x), json.dumps(x, sort_keys=True)))
    return cur


def srv_readable(c, o):
    def txt(h):
        return None if h is None else bytes.fromhex(h).decode('utf-8', 'replace')
    steps = srv_steps(c, o)
    if len(steps) > 1:
        first = srv_readable(dict(c, then=[]), dict(o, then=[]))
        first['following_requests_on_the_same_document'] = [srv_readable(c2, o2) for c2, o2 in steps[1:]]
        return first
    return {'operation': c['op'] + (' ' + c['command'] if c['command'] else ''), 'profile': c['profile'],
            'document': '<workspace>/%s' % os.path.join(c['dir'], c['file']),
            'file_on_disk': None if c['disk'] == 'missing' else txt(c['disk_hex']),
            'didOpen_text': txt(c.get('open')), 'didChange_text': txt(c.get('change')),
            'client_text': txt(o['client']), 'answer': o['class'], 'error': o.get('err'), 'server_panic': o.get('panic'), 'edits': o['edits'],
            'client_text_after_applying': txt(o['applied']), 'server_copy_after': txt(o['after']) if o['after_has'] else None,
            'intended_text': srv_intended(c, o).decode('utf-8', 'replace'),
            'oracle': {'formatter_or_fix': o['ora_class'], 'output': txt(o['ora_out']), 'template': txt(o['template']) if o['template_ok'] else None,
                       'template_error': o.get('template_err'), 'in_workspace_root': o['in_root'], 'ignored_file': o['ignored']}}


def second_above(srv_cases, sres):
    n = 0
    for c in srv_cases:
        st = srv_steps(c, sres[c['id']])
        for (_, a), (_, b) in zip(st, st[1:]):
            if a['class'] == 'edits' and a['edits'] and b['class'] == 'edits' and b['edits'] and b['edits'][0][0] < a['edits'][0][0]:
                n += 1
    return n


def srv_evidence(srv_cases, sres, srv_pred_bad, f1, f2, f3):
    by_op, by_class, by_profile = {}, {}, {}
    with_edits = set()
    blank = templated = 0
    for c in srv_cases:
        o = sres[c['id']]
        k = c['op'] + (':' + c['command'].replace('regal.fix.', '') if c['command'] else '')
        by_op[k] = by_op.get(k, 0) + 1
        kk = '%s/%s' % (c['op'], o['class'] if o['class'] != 'edits' else ('edits' if o['edits'] else 'edits-empty'))
        by_class[kk] = by_class.get(kk, 0) + 1
        by_profile[c['profile']] = by_profile.get(c['profile'], 0) + 1
        if o['class'] == 'edits' and o['edits']:
            with_edits.add((c['op'], c['command'], c['profile'], o['client'], json.dumps(o['edits'])))
        cl = unhx(o['client'])
        if cl and not cl.strip():
            blank += 1
        if o['class'] == 'edits' and o['edits'] and o['after_has'] and o['after'] != o['client']:
            templated += 1
    sample = None
    for c in srv_cases:
        o = sres[c['id']]
        if o['class'] == 'edits' and o['edits']:
            sample = {'op': c['op'], 'profile': c['profile'], 'client_text': unhx(o['client']).decode('utf-8', 'replace')[:120],
                      'edits': o['edits'][:3]}
            break
    follow = [(c2, o2) for c in srv_cases for c2, o2 in srv_steps(c, sres[c['id']])[1:]]
    return {'cases': len(srv_cases), 'following_requests_on_the_same_document': len(follow),
            'following_requests_answered_with_edits': sum(1 for _, o2 in follow if o2['class'] == 'edits' and o2['edits']),
            'following_requests_whose_first_edit_lies_above_the_previous_one': second_above(srv_cases, sres),
            'distinct_answers_with_edits': len(with_edits), 'by_operation': by_op,
            'by_operation_and_answer': by_class, 'by_profile': by_profile, 'blank_non_empty_documents': blank,
            'answers_where_the_server_stored_a_new_text': templated, 'predicate_failures': len(srv_pred_bad),
            'mismatch_flow_model_vs_server': len(f1), 'spec_rejects_server_edits': len(f2), 'spec_rejects_flow_model': len(f3),
            'sample': sample}


# ------------------------------------------------------------------ main

def run(ctx):
    if ctx.replay:
        rp = json.load(open(ctx.replay))
        c = rp.get('case')
        cases, srv_cases = [], []
        replay_seq = replay_srv_seq = None
        if c and 'srv_case' in c:
            srv_cases = [dict(c['srv_case'], id=0)]
        elif c and 'srv_seq' in c:
            replay_srv_seq = [dict(x, id=k) for k, x in enumerate(c['srv_seq'])]
            srv_cases = replay_srv_seq
        elif c and 'seq' in c:
            replay_seq = [(bytes.fromhex(x['before']), bytes.fromhex(x['after'])) for x in c['seq']]
        elif c:
            cases = [{'id': 0, 'kind': 'replay', 'mode': c.get('mode', 'pair'), 'before': c['before'], 'after': c['after']}]
        plan = None
    else:
        cases = gen_cases(ctx)
        srv_cases = gen_srv_cases(ctx)
        plan = make_plan(ctx, cases)
        replay_seq = None

    t_go = time.time()
    res, sres, died = run_go(ctx, cases, srv_cases=srv_cases, plan=plan, want_died=True)
    t_go = time.time() - t_go
    # cases whose server process died have no answer: they are reported below and leave the evaluation; so do cases at which the
    # harness lost its server (time-out, transport): the check stops for them unless a concrete violation explains it
    srv_fatal = [c for c in srv_cases if c['id'] in sres and sres[c['id']].get('fatal')]
    srv_cases = [c for c in srv_cases if c['id'] in sres and not sres[c['id']].get('fatal')]

    # resolved pairs (mode fmt gets its `after` from the implementation's formatter)
    live = []
    skipped = 0
    for c in cases:
        o = res.get(c['id'])
        if o is None:
            raise RuntimeError('no output for case %d' % c['id'])
        if o.get('skip'):
            skipped += 1
            continue
        if c['mode'] == 'fmt':
            c['after'] = o.get('after', '')
            c['mode'] = 'pair'
        live.append(c)

    # ---- predicate on the implementation itself
    pred_bad = [(c, go_bad(res[c['id']])) for c in live]
    pred_bad = [(c, why) for c, why in pred_bad if why]

    # ---- correspondence + specification inside Coq (cases where the implementation panicked have no edit list)
    coq_cases = [c for c in live if not res[c['id']].get('panic') and not res[c['id']].get('crash') and c['kind'] != 'large']
    items = [(bytes.fromhex(c['before']), bytes.fromhex(c['after']), res[c['id']]['edits']) for c in coq_cases]
    t_coq = time.time()
    flow_proc = coq_flow_start(ctx, srv_cases, sres)
    r1, r2, r3, rounds = coq_shards(ctx, items)
    f1, f2, f3 = coq_flow_finish(flow_proc)
    t_coq = time.time() - t_coq

    # ---- server level: predicate on the answers of the real server (every request of every case)
    srv_pred_bad = [(c, srv_bad_all(c, sres[c['id']])) for c in srv_cases]
    srv_pred_bad = [(c, why) for c, why in srv_pred_bad if why]
    flat_parents = srv_flat_parents(srv_cases, sres)
    f1, f2, f3 = ([flat_parents[i] for i in f] for f in (f1, f2, f3))      # indices of requests -> their cases

    def batch_pred(tag):
        n = [0]
        def is_bad(pairs):
            n[0] += 1
            cs = [{'id': i, 'mode': 'pair', 'before': hx(p[0]), 'after': hx(p[1])} for i, p in enumerate(pairs)]
            rr = run_go(ctx, cs, tag='%s%d' % (tag, n[0]))
            return [go_bad(rr[i]) is not None for i in range(len(pairs))]
        return is_bad

    reported = set()

    def report_input(c, why, kind):
        b0, a0 = bytes.fromhex(c['before']), bytes.fromhex(c['after'])
        b1, a1 = minimise(ctx, b0, a0, batch_pred('min'))
        key = json.dumps([hx(b1), hx(a1)])
        if key in reported:
            return
        reported.add(key)
        o = run_go(ctx, [{'id': 0, 'mode': 'pair', 'before': hx(b1), 'after': hx(a1)}], tag='rep')[0]
        vlib.violation(ctx, {
            'kind': kind, 'what': why,
            'case': {'mode': 'pair', 'before': hx(b1), 'after': hx(a1)},
            'before_text': b1.decode('utf-8', 'replace'), 'after_text': a1.decode('utf-8', 'replace'),
            'edits': o.get('edits'), 'applied_result': bytes.fromhex(o.get('result', '')).decode('utf-8', 'replace'),
            'panic': o.get('panic'), 'original_case': {'kind': c['kind'], 'before': c['before'], 'after': c['after']},
            'replay_cmd': 'tools/check C16 --replay <this file>',
        }, no_input=False, signature={'kind': kind, 'key': key})

    # 1. failures of the Go-side predicate (smallest first, a few distinct ones)
    # (a pair that fails somewhere in the forward order but is right as the first call of a fresh process is not a failing PAIR: it
    # goes to the history report below, with the calls that preceded it)
    forward_history = []
    n_alone = 0
    for c, why in sorted(pred_bad, key=lambda cw: len(cw[0]['before']) + len(cw[0]['after'])):
        if len(ctx.violations) >= 3 or n_alone >= 6:
            break
        if not ctx.replay and not res[c['id']].get('crash'):
            n_alone += 1
            alone = run_seqs(ctx, [[(bytes.fromhex(c['before']), bytes.fromhex(c['after']))]], 'alone%d' % n_alone)[0]
            if alone is not None and go_bad(alone[-1]) is None:
                forward_history.append((c, {'run': 'forward', 'pos': c['id'], 'prev': [k for k in (c['id'] - 1, c['id'] - 2, c['id'] - 3) if k >= 0],
                                            'rec': res[c['id']]}))
                continue
        report_input(c, why, 'lsp-apply')

    # 1a. HISTORY DEPENDENCE: an evaluation of a pair, somewhere in one of the call orders, gave another result than the first
    # evaluation of the same pair (which is the one compared with the model).  The replay is the shortest sequence of calls, ending
    # in that pair, whose last result is wrong / differs from what the pair gets as the first call of a process.
    by_id = {c['id']: c for c in cases}
    devs = list(forward_history)
    for c in live:
        for d in res[c['id']].get('dev') or []:
            devs.append((c, d))
    n_dev_total = sum(res[c['id']].get('ndev', 0) for c in live)
    n_evals_total = sum(res[c['id']].get('evals', 1) for c in live)

    def seq_size(sq):
        return sum(len(b) + len(a) for b, a in sq)

    def report_history(c, d):
        target = (bytes.fromhex(c['before']), bytes.fromhex(c['after']))
        # the calls before it in the same goroutine, nearest first: from the plan when the order was sequential (what a call finds may
        # have been left by any earlier call, not just the last one), else the three the harness recorded
        hist = list(d['prev'])
        if d['run'] == 'forward':
            hist = list(range(d['pos'] - 1, max(-1, d['pos'] - 201), -1))
        else:
            for r in plan['runs']:
                if r['name'] == d['run'] and r['goroutines'] == 1 and d['pos'] < len(r['order']) and r['order'][d['pos']] == c['id']:
                    hist = r['order'][max(0, d['pos'] - 200):d['pos']][::-1]
        prev = [entry_pair(plan, by_id, e) for e in hist if e < 0 or e in by_id]
        depths = sorted({k for k in (1, 2, 3, 5, 8, 16, 32, 64, 128, 200) if k <= len(prev)} | {len(prev)})
        cand = [[target]] + [list(reversed(prev[:k])) + [target] for k in depths if k > 0]
        rr = run_seqs(ctx, cand, 'hist%d' % len(ctx.violations))
        alone = rr[0]
        chosen = None
        for sq, recs in zip(cand[1:], rr[1:]):
            why = seq_deviates(recs, alone)
            if why:
                chosen = (sq, why)
                break
        if chosen is None:
            # not reproduced by the calls of its own goroutine alone (e.g. the concurrent run): report what was observed
            vlib.violation(ctx, {'kind': 'history-dependence', 'reproduced_in_isolation': False,
                                 'what': 'in call order %r (position %d) ComputeEdits gave another result for this pair than in the forward order: %s'
                                         % (d['run'], d['pos'], go_bad(d['rec']) or 'other edit list'),
                                 'case': {'seq': [{'before': hx(b), 'after': hx(a)} for b, a in cand[-1]]},
                                 'observed': d['rec'], 'first_evaluation': {k: res[c['id']].get(k) for k in ('edits', 'panic', 'applied')}},
                           no_input=False, signature={'kind': 'history-dependence', 'key': json.dumps([c['before'], c['after']])})
            return
        sq, why = chosen
        # fewer calls first: drop chunks / single calls of the prefix as long as the last call still deviates
        t_end = time.time() + 25
        chunk = max(1, (len(sq) - 1) // 2)
        while len(sq) > 2 and time.time() < t_end:
            cands = [sq[:k] + sq[k + chunk:-1] + [sq[-1]] for k in range(0, len(sq) - 1, chunk)]
            cands = [x for x in cands if len(x) < len(sq)][:64]
            rr2 = run_seqs(ctx, [[sq[-1]]] + cands, 'hdrop')
            better = [x for x, rs in zip(cands, rr2[1:]) if seq_deviates(rs, rr2[0])]
            if better:
                sq = min(better, key=lambda x: (len(x), seq_size(x)))
                chunk = min(chunk, max(1, (len(sq) - 1) // 2))
            elif chunk > 1:
                chunk //= 2
            else:
                break
        # shrink the pairs of the sequence line-wise (candidates of one round share a process, pools emptied between sequences)
        t_end = time.time() + 20
        for rnd in range(12):
            if time.time() > t_end:
                break
            cands = []
            for k, (b, a) in enumerate(sq):
                lb, la = split_keep(b), split_keep(a)
                for i in range(len(lb)):
                    cands.append(sq[:k] + [(b''.join(lb[:i] + lb[i + 1:]), a)] + sq[k + 1:])
                for i in range(len(la)):
                    cands.append(sq[:k] + [(b, b''.join(la[:i] + la[i + 1:]))] + sq[k + 1:])
                for i in range(len(lb)):
                    if lb[i] in la:
                        j = la.index(lb[i])
                        cands.append(sq[:k] + [(b''.join(lb[:i] + lb[i + 1:]), b''.join(la[:j] + la[j + 1:]))] + sq[k + 1:])
            if len(sq) > 2:
                cands += [sq[:k] + sq[k + 1:] for k in range(len(sq) - 1)]
            cands = cands[:300]
            if not cands:
                break
            alone_c = run_seqs(ctx, [[x[-1]] for x in cands] + cands, 'hmin%d' % rnd)
            n = len(cands)
            better = [x for x, ra, rs in zip(cands, alone_c[:n], alone_c[n:]) if go_bad((ra or [{}])[-1]) is None and seq_deviates(rs, ra)]
            if not better:
                break
            sq = min(better, key=lambda x: (seq_size(x), repr(x)))
        # confirmation, each in a process of its own
        alone = run_seqs(ctx, [[sq[-1]]], 'hconf_a')[0]
        recs = run_seqs(ctx, [sq], 'hconf_s')[0]
        why = seq_deviates(recs, alone) or why
        key = json.dumps([[hx(b), hx(a)] for b, a in sq])
        if key in reported:
            return
        reported.add(key)
        vlib.violation(ctx, {
            'kind': 'history-dependence',
            'what': 'ComputeEdits is not a function of (before, after): as call number %d of this sequence the last pair gets: %s' % (len(sq), why),
            'case': {'seq': [{'before': hx(b), 'after': hx(a)} for b, a in sq]},
            'sequence_text': [{'before': b.decode('utf-8', 'replace'), 'after': a.decode('utf-8', 'replace')} for b, a in sq],
            'last_pair_in_the_sequence': None if recs is None else {k: recs[-1].get(k) for k in ('edits', 'panic', 'applied', 'result')},
            'last_pair_as_first_call_of_a_process': None if alone is None else {k: alone[-1].get(k) for k in ('edits', 'panic', 'applied')},
            'calls_of_the_sequence_whose_result_is_not_the_model_s (Check.C16Check.seq_disagreements)':
                None if recs is None or seq_size(sq) > 20000 else coq_seq_disagreements(ctx, sq, recs, 'h%d' % len(ctx.violations)),
            'found_in_call_order': d['run'], 'original_pair': {'before': c['before'], 'after': c['after']},
            'replay_cmd': 'tools/check C16 --replay <this file>',
        }, no_input=False, signature={'kind': 'history-dependence', 'key': key})

    if replay_seq is not None:
        alone = run_seqs(ctx, [[replay_seq[-1]]], 'rp_a')[0]
        why = None
        for attempt in range(3):
            recs = run_seqs(ctx, [replay_seq], 'rp_s%d' % attempt)[0]
            why = seq_deviates(recs, alone)
            if why:
                break
        if why:
            vlib.violation(ctx, {'kind': 'history-dependence', 'what': why, 'case': {'seq': [{'before': hx(b), 'after': hx(a)} for b, a in replay_seq]},
                                 'last_pair_in_the_sequence': None if recs is None else {k: recs[-1].get(k) for k in ('edits', 'panic', 'applied', 'result')},
                                 'last_pair_as_first_call_of_a_process': None if alone is None else {k: alone[-1].get(k) for k in ('edits', 'panic', 'applied')}},
                           no_input=False, signature={'kind': 'history-dependence', 'key': json.dumps([[hx(b), hx(a)] for b, a in replay_seq])})
    for c, d in sorted(devs, key=lambda cd: (len(cd[0]['before']) + len(cd[0]['after']), cd[0]['id']))[:2]:
        if len(ctx.violations) >= 3:
            break
        report_history(c, d)

    # 1a'. a server process died (a fatal error that no recover can stop, or a time-out): the replay is the sequence of cases that
    # server had handled, ending in the one in flight
    for dd in died[:2]:
        sq = [{k: v for k, v in x.items() if k != 'id'} for x in dd['sequence']]
        vlib.violation(ctx, {'kind': 'server-died', 'what': 'the language server process ended while handling the last case of this sequence',
                             'case': {'srv_seq': sq[-12:]}, 'cases_before_it_on_this_server': len(sq) - 1, 'log_tail': dd['log']},
                       no_input=False, signature={'kind': 'server-died', 'key': json.dumps(sq[-1], sort_keys=True)})

    # 1b. server level: the edits the server sent do not turn the client's text into the intended text
    def report_srv(c, why, kind):
        small = srv_minimise(ctx, c) if not ctx.replay else c
        _, rr = run_go(ctx, [], tag='srep', srv_cases=[dict(small, id=0)])
        o = rr[0]
        if o.get('fatal'):          # the re-run lost its server: keep the observation of the main run
            small, o = c, sres[c['id']]
        why2 = srv_bad_all(small, o) or why
        sc = {k: v for k, v in small.items() if k != 'id'}
        key = json.dumps([sc['op'], sc['command'], sc['profile'], sc['dir'] != '', sc.get('change') or sc.get('open') or sc['disk_hex']] +
                         ([[st['op'], st['command'], st['nth']] for st in sc['then']] if sc.get('then') else []))
        if key in reported:
            return
        reported.add(key)
        vlib.violation(ctx, dict(srv_readable(small, o), kind=kind, what=why2, case={'srv_case': sc},
                                 replay_cmd='tools/check C16 --replay <this file>'),
                       no_input=False, signature={'kind': kind, 'key': key})

    for c, why in sorted(srv_pred_bad, key=lambda cw: srv_size(cw[0]))[:2]:
        if len(ctx.violations) >= 3:
            break
        report_srv(c, why, 'server-edits')

    # 1c. the Coq specification (lsp_apply on the real edits vs the oracles) rejects an answer the Go side accepted
    srv_bad_ids = {c['id'] for c, _ in srv_pred_bad}
    for c in f2:
        if c['id'] in srv_bad_ids or len(ctx.violations) >= 3:
            continue
        report_srv(c, 'Check.C16Check.flow_meets_spec: lsp_apply of the edits the server sent, on the client\'s text, does not give the '
                      'intended text (or the server\'s copy afterwards), although the Go-side applier accepted them', 'server-edits-spec')
        break

    # 2. the Coq specification rejects the real edits (should coincide with 1; if Go's applier missed it, still an input)
    go_bad_ids = {c['id'] for c, _ in pred_bad}
    for i in r2:
        c = coq_cases[i]
        if c['id'] in go_bad_ids or len(ctx.violations) >= 3:
            continue
        key = json.dumps([c['before'], c['after']])
        vlib.violation(ctx, {'kind': 'lsp-apply-spec', 'what': 'Model/LspApply.lsp_apply on the real edits does not give `after` '
                             '(or edits unordered / outside the document) although the Go-side applier accepted them',
                             'case': {'mode': 'pair', 'before': c['before'], 'after': c['after']}, 'edits': res[c['id']]['edits']},
                       no_input=False, signature={'kind': 'lsp-apply-spec', 'key': key})
        break

    # 3. correspondence broken without a failing input: look in the neighbourhood, then report the relation
    if (r1 or r3) and not ctx.violations:
        i = min(r1 or r3, key=lambda i: len(items[i][0]) + len(items[i][1]))
        c = coq_cases[i]
        # neighbourhood search: all line-deletion neighbours of the smallest few mismatching cases
        neigh = []
        for j in sorted(r1 or r3, key=lambda j: len(items[j][0]) + len(items[j][1]))[:20]:
            b0, a0 = items[j][0], items[j][1]
            lb, la = split_keep(b0), split_keep(a0)
            neigh += [(b''.join(lb[:k] + lb[k + 1:]), a0) for k in range(len(lb))]
            neigh += [(b0, b''.join(la[:k] + la[k + 1:])) for k in range(len(la))]
            neigh += [(a0, b0)]
        found = None
        if neigh:
            bad = batch_pred('nb')(neigh[:4000])
            for p, x in zip(neigh, bad):
                if x:
                    found = p
                    break
        if found:
            report_input({'before': hx(found[0]), 'after': hx(found[1]), 'kind': 'neighbourhood'},
                         'found next to a model/implementation mismatch', 'lsp-apply')
        else:
            vlib.violation(ctx, {
                'kind': 'correspondence',
                'relation': 'Check.C16Check.case_agrees (Model/Diff.compute_edits = ComputeEdits, edit list for edit list)'
                            if r1 else 'Check.C16Check.model_meets_spec (run-time instance of compute_edits_sound)',
                'theorem': 'compute_edits_sound is proved about Model/Diff.v, which no longer describes internal/lsp/diff.go + format.go',
                'case': {'mode': 'pair', 'before': c['before'], 'after': c['after']},
                'before_text': items[i][0].decode('utf-8', 'replace'), 'after_text': items[i][1].decode('utf-8', 'replace'),
                'go_edits': items[i][2], 'n_mismatches': len(r1), 'n_model_spec_failures': len(r3)}, no_input=True)

    # 3b. the flow model no longer describes server.go (answer class / edit list / stored text differ) and no input
    # violating the property was found: look at the neighbours (line deletions, other directory) first
    if (f1 or f3) and not ctx.violations:
        fcs = sorted(f1 or f3, key=srv_size)
        c = fcs[0]
        neigh = []
        for fc in fcs[:8]:
            neigh += srv_shrink_candidates(fc)
            neigh += [dict(fc, dir=d) for d in ('', 'main') if d != fc['dir']]
        neigh = [dict(x, id=k) for k, x in enumerate(neigh[:150])]
        found = None
        if neigh and not ctx.replay:
            _, rr = run_go(ctx, [], tag='snb', srv_cases=neigh)
            for x in neigh:
                why = srv_bad_all(x, rr[x['id']]) if x['id'] in rr and not rr[x['id']].get('fatal') else None
                if why:
                    found = (x, why)
                    break
        if found:
            report_srv(found[0], found[1], 'server-edits')
        else:
            o = sres[c['id']]
            vlib.violation(ctx, dict(srv_readable(c, o), kind='correspondence',
                                     relation='Check.C16Check.flow_agrees (Model/FormatFlow.v = the answer of the real server: kind of answer, '
                                              'edit list, stored text)' if f1 else
                                              'Check.C16Check.flow_model_meets_spec (run-time instance of formatting_reproduces_intended)',
                                     theorem='formatting_reproduces_intended / fix_reproduces_intended / template_worker_reproduces_intended are '
                                             'proved about Model/FormatFlow.v, which no longer describes internal/lsp/server.go',
                                     case={'srv_case': {k: v for k, v in c.items() if k != 'id'}},
                                     n_mismatches=len(f1), n_model_spec_failures=len(f3)), no_input=True)

    if srv_fatal and not ctx.violations:
        c = srv_fatal[0]
        raise RuntimeError('c16 server harness stopped at case %d (%s): %s' % (c['id'], json.dumps(c), sres[c['id']]['fatal']))

    proof_gate(ctx, 'compute_edits_sound / compute_edits_total / formatting_reproduces_intended')

    # ---- self-test of the tie: perturbed observations must be flagged by both comparison functions
    r1set = set(r1)
    st_src = [it for i, it in enumerate(items) if it[2] and i not in r1set][:200:40][:5]
    st_items = []
    for b0, a0, ed in st_src:
        e2 = [list(e) for e in ed]
        e2[0][2] = e2[0][2] + 1          # end line of the first edit moved by one
        st_items.append((b0, a0, e2))
    selftest_ok = None
    if st_items and not ctx.replay:
        s1, s2, _, _ = coq_shards(ctx, st_items, tag='selftest', nshards=1)
        selftest_ok = (s1 == list(range(len(st_items))))
        if not selftest_ok:
            vlib.violation(ctx, {'kind': 'self-test', 'what': 'perturbed edit lists were not flagged by Check.C16Check.case_agrees',
                                 'flagged': s1, 'expected': len(st_items)}, no_input=True)

    # ---- evidence
    hist_kind, hist_edits, hist_rounds, hist_lines = {}, {}, {}, {}
    distinct = set()
    for idx, c in enumerate(coq_cases):
        o = res[c['id']]
        hist_kind[c['kind']] = hist_kind.get(c['kind'], 0) + 1
        ne = len(o['edits'])
        hist_edits[min(ne, 10)] = hist_edits.get(min(ne, 10), 0) + 1
        d = rounds[idx]
        bucket = 'both-empty' if d < 0 else (d if d < 8 else ('8-15' if d < 16 else ('16-63' if d < 64 else '64+')))
        hist_rounds[bucket] = hist_rounds.get(bucket, 0) + 1
        nl = o['nlines']
        lb = nl if nl < 5 else ('5-14' if nl < 15 else ('15-99' if nl < 100 else '100+'))
        hist_lines[lb] = hist_lines.get(lb, 0) + 1
        if c['before'] != c['after'] and ne > 0:
            distinct.add((c['before'], c['after']))
    clamp_needed = sum(1 for c in coq_cases if not res[c['id']]['strict'])
    samples = []
    for c in coq_cases[len(coq_cases) // 3::max(1, len(coq_cases) // 4)][:3]:
        samples.append({'kind': c['kind'], 'before': bytes.fromhex(c['before'])[:200].decode('utf-8', 'replace'),
                        'after': bytes.fromhex(c['after'])[:200].decode('utf-8', 'replace'),
                        'edits': res[c['id']]['edits'][:4]})
    cov = proof_coverage(ctx, {
        'evaluations': len(coq_cases),
        'distinct_nontrivial': len(distinct),
        'rule': 'distinct (before, after) pairs with before != after for which the implementation returned at least one edit; '
                'every evaluation = real ComputeEdits + independent Go LSP application + vm_compute of the model (edit lists compared '
                'for equality) + Coq lsp_apply specification on the real edits',
        'exhaustive': (not ctx.quick()),
        'exhaustive_domain': 'all pairs of documents with <= 4 lines over the line alphabet {a, b, ""}, with/without final newline '
                             '(%d documents; thorough: all %d pairs, quick: all pairs of <= 2-line documents + 2200 sampled pairs)'
                             % (len(exhaustive_docs()), len(exhaustive_docs()) ** 2),
        'by_kind': hist_kind, 'by_edit_count': hist_edits, 'by_rounds_D': hist_rounds, 'by_before_lines': hist_lines,
        'skipped_unformattable': skipped,
        'positions_relying_on_end_of_document_clamp': clamp_needed,
        'mismatch_model_vs_implementation': len(r1), 'spec_rejects_real_edits': len(r2), 'spec_rejects_model_edits': len(r3),
        'predicate_failures_go_side': len(pred_bad),
        'history_independence': {
            'call_orders': ['forward'] + [r['name'] + (' (%d goroutines)' % r['goroutines'] if r['goroutines'] > 1 else '') for r in (plan or {'runs': []})['runs']],
            'polluting_pairs': len((plan or {'polluters': []})['polluters']),
            'evaluations_of_ComputeEdits': n_evals_total,
            'min_evaluations_per_case': min([res[c['id']].get('evals', 1) for c in live if c['kind'] != 'large'] or [0]),
            'evaluations_that_differ_from_the_first_one': n_dev_total,
            'rule': 'every evaluation is compared (edit list, panic, result of applying) with the first evaluation of the same pair, which is '
                    'the one compared with the model in Coq'},
        'server_processes_died': len(died),
        'server_level': srv_evidence(srv_cases, sres, srv_pred_bad, f1, f2, f3),
        'go_seconds': round(t_go, 1), 'coq_seconds': round(t_coq, 1), 'selftest_perturbed_cases_flagged': selftest_ok,
        'samples': samples,
    })
    return vlib.finish(ctx, 'proof', cov, [
        'strings.SplitAfter / strings.Join are modelled by split_lines / concat (validated by this correspondence only)',
        'LSP 3.17 application of TextEdit[] is the specification Model/LspApply.v: EOL = \\n | \\r\\n | \\r, line past the end clamps to '
        'end of document, only character = 0 positions are given a meaning (the theorem proves every position has character 0)',
        'how a particular editor applies edits is not modelled; the Go-side applier in harness/overlay/c16_test.go is a second, '
        'independent reading of the specification',
        'server level: the formatter / fix / template OUTPUT is an oracle (the same library functions run by the test on the client\'s '
        'text); what is checked is which (before, after) the server hands to ComputeEdits and what it stores (Model/FormatFlow.v)',
        'the client is a JSON-RPC peer over net.Pipe written for this check; documents are valid UTF-8 (they travel as JSON strings)',
    ])
