"""C07: reported locations are inside the file and move with the code (partial claim, level `other`).

Three parts:
  1. helper correspondence: regal's Rego location helpers evaluated by OPA on the real embedded bundle
     (+ roast's line table, + getRangeForViolation through an overlay test) against Model/Location.v;
  2. the property predicate on the implementation itself, end to end: lint the corpora with all rules
     enabled, check every reported location against the file, and the k-shift relation, k in {1,3,10,100};
     the same relation for the diagnostics of the language server: generated multi-file workspaces (aggregate and
     single-file violations, inline ignore directives; files with comments everywhere, without any comment, with
     comments above the insertion points only) are loaded, then one file after the other is replaced through the
     functions the server runs per edit by variants that differ in layout only: k blank lines at the top, before a
     rule in the middle, at the end; every cached diagnostic at or below the insertion point must have moved by k,
     the others must not have changed;
     round 3: the family "boundary rows" (something reportable on the FIRST and on the LAST row of the file: comment blocks
     of every kind before the package clause, findings on the package row, on the last row with and without a final
     newline) under the k-shift relation, and INPUT MODES: these batches and a sample of the other corpora are linted
     through files on disk (directory walk / path list -> rules.InputFromPaths), rules.InputFromMap, rules.InputFromText
     and standard input (the path "-", in a process of its own), for k = 0 and shifts: the reports of the modes must agree
     and lie inside the text that was provided;
  3. proof gate for the theorems of Props/C07.v.
"""
import json, os, re, threading
import vlib
from vlib import cstr, clist, copt, cZ
from common import proof_gate, proof_coverage
import c03c07 as shared


def c_opt_z(v):
    return 'None' if v is None else '(Some %s)' % cZ(v)


def is_int(v):
    return isinstance(v, int) and not isinstance(v, bool)


def locobj(o):
    """JSON location object -> Coq locobj literal, or None when it is outside the model's shape"""
    if not isinstance(o, dict) or set(o) - {'row', 'col', 'text', 'end', 'file'}:
        return None
    for k in ('row', 'col'):
        if k in o and not is_int(o[k]):
            return None
    for k in ('text', 'file'):
        if k in o and not isinstance(o[k], str):
            return None
    end = 'None'
    if 'end' in o:
        e = o['end']
        if not isinstance(e, dict) or set(e) != {'row', 'col'} or not is_int(e['row']) or not is_int(e['col']):
            return None
        end = '(Some (%s, %s))' % (cZ(e['row']), cZ(e['col']))
    return '{| lo_row := %s; lo_col := %s; lo_text := %s; lo_end := %s; lo_file := %s |}' % (
        c_opt_z(o.get('row')), c_opt_z(o.get('col')), copt(cstr(o['text']) if 'text' in o else None), end,
        copt(cstr(o['file']) if 'file' in o else None))


def locval(v):
    if isinstance(v, str):
        return 'LStr %s' % cstr(v)
    if isinstance(v, dict):
        lo = locobj(v)
        return None if lo is None else 'LObj %s' % lo
    return 'LNone'


def node_locval(n):
    """.location of an array element / node"""
    if isinstance(n, dict):
        if 'location' in n:
            lv = locval(n['location'])
            return None if lv is None else '(%s)' % lv
        return 'LNone'
    return 'LNone'


def arg(x):
    if isinstance(x, str):
        return '(AStr %s)' % cstr(x)
    if isinstance(x, dict):
        lv = node_locval(x)
        return None if lv is None else '(ANode %s)' % lv
    if isinstance(x, list):
        lvs = [node_locval(n) for n in x]
        if any(l is None for l in lvs):
            return None
        return '(AArr %s)' % clist(lvs)
    return 'AOther'


def obs_lo(got, wrapped):
    if got.get('err'):
        return 'OError'
    if not got.get('defined'):
        return 'OUndef'
    v = got.get('val')
    if wrapped:
        if not isinstance(v, dict) or set(v) != {'location'}:
            return None
        v = v['location']
    lo = locobj(v)
    return None if lo is None else '(OVal %s)' % lo


def obs_str(got):
    if got.get('err'):
        return 'OError'
    if not got.get('defined'):
        return 'OUndef'
    v = got.get('val')
    return '(OVal %s)' % cstr(v) if isinstance(v, str) else None


def lines_c(ls):
    return clist(cstr(l) for l in (ls or []))


def case_to_coq(c):
    """-> Coq constructor application or None (unrepresentable: counted, and reported if ever nonzero)"""
    h = c['helper']
    if h == 'file_lines':
        return None if c['err'] else 'CLines %s %s' % (cstr(c['content']), lines_c(c['lines']))
    if h == 'file_lines_shift':
        return None if c['err'] else 'CLinesShift %s %d%%nat %s' % (cstr(c['content']), c['k'], lines_c(c['lines']))
    if h == 'lsp':
        l = '{| r_row := %s; r_col := %s; r_end := %s; r_text := %s |}' % (
            cZ(c['row']), cZ(c['col']),
            '(Some (%s, %s))' % (cZ(c['end_row']), cZ(c['end_col'])) if c['has_end'] else 'None',
            copt(cstr(c['text']) if c['text'] is not None else None))
        g = c['got']
        return 'CLsp %s ((%d%%N, %d%%N), (%d%%N, %d%%N))' % (l, g[0], g[1], g[2], g[3])
    a, got, ls, f = c['args'], c['got'], lines_c(c['lines']), cstr(c['file'])
    if h == 'to_location_object':
        lv, o = locval(a['x']), obs_lo(got, False)
        return None if lv is None or o is None else 'CTLO %s (%s) %s' % (ls, lv, o)
    if h == 'location':
        x, o = arg(a['x']), obs_lo(got, True)
        return None if x is None or o is None else 'CLoc %s %s %s %s' % (ls, f, x, o)
    if h == 'ranged_location_between':
        x, y, o = arg(a['x']), arg(a['y']), obs_lo(got, True)
        return None if None in (x, y, o) else 'CRLB %s %s %s %s %s' % (ls, f, x, y, o)
    if h == 'ranged_from_ref':
        xs, o = [arg(x) for x in a['ref']], obs_lo(got, True)
        return None if o is None or any(x is None for x in xs) else 'CRFR %s %s %s %s' % (ls, f, clist(xs), o)
    if h == 'infix_expr_location':
        xs, o = [node_locval(x) for x in a['expr']], obs_lo(got, True)
        return None if o is None or any(x is None for x in xs) else 'CInf %s %s %s %s' % (ls, f, clist(xs), o)
    if h == 'cut_col':
        o = obs_str(got)
        return None if o is None else 'CCut %s %s %s %s %s %s' % (cZ(a['i']), cZ(a['len']), cstr(a['line']), cZ(a['col']), cZ(a['end_col']), o)
    if h == 'location_to_text':
        o = obs_str(got)
        return None if o is None else 'CL2T %s (%s, %s, %s, %s) %s' % (ls, cZ(a['row']), cZ(a['col']), cZ(a['end_row']), cZ(a['end_col']), o)
    if h == 'substring':
        o = obs_str(got)
        return None if o is None else 'CSub %s %s %s %s' % (cstr(a['s']), cZ(a['off']), cZ(a['len']), o)
    return None


def lsp_cases(ctx):
    """inputs for getRangeForViolation (run through the overlay test)"""
    rng = vlib.SplitMix(ctx.seed ^ 0xC07)
    cases = []
    n = 300 if ctx.quick() else 3000
    texts = [None, '', 'x := 1', 'héllo 日本', '\tx']
    for row in (-1, 0, 1, 2):
        for col in (-1, 0, 1, 5):
            for end in (None, (row, col), (row, col + 3), (row + 1, 1), (row - 1, 9), (0, 0)):
                cases.append({'row': row, 'col': col, 'has_end': end is not None, 'end_row': (end or (0, 0))[0],
                              'end_col': (end or (0, 0))[1], 'text': texts[(row + col) % len(texts)], 'file': 'a.rego'})
    for _ in range(n):
        row, col = rng.below(60) - 3, rng.below(130) - 3
        he = rng.below(3) != 0
        er = row + (rng.below(4) if rng.below(4) else -rng.below(3))
        ec = rng.below(130) - 3 if er != row or rng.below(4) == 0 else col + rng.below(40)
        cases.append({'row': row, 'col': col, 'has_end': he, 'end_row': er, 'end_col': ec,
                      'text': rng.choice(texts), 'file': rng.choice(['a.rego', '', 'file:///ws/b.rego'])})
    return cases


def run_lsp(ctx, workspaces):
    """-> (range conversion cases with results | None, log, shift results | None)"""
    rc, log, res, shift = lsp_overlay(ctx, lsp_cases(ctx), workspaces)
    if rc != 0 or res is None or (workspaces is not None and shift is None):
        if 'does not use getRangeForViolation' in log:
            return None, log, shift
        if 'panic:' in log or 'fatal error:' in log:
            return res, log, None
        raise vlib.HarnessBuildError('C07 overlay test failed:\n' + log[-3000:])
    for c in res:
        c['helper'] = 'lsp'
    return res, log, shift


# ---------------------------------------------------------------------------------------------------------
# End-to-end k-shift of the language server's diagnostics (harness/overlay/c07_test.go: TestVerifC07Shift)

LSP_KS = [1, 3, 10, 100]
CONFIG_ALL = 'rules:\n  default:\n    level: error\n'


def _directive(rng, rule):
    """how an inline ignore directive is attached to a line: (line above or None, trailing text)"""
    k = rng.below(8)
    if k < 3:
        return None, ''                                            # not ignored: reported
    if k < 5:
        return None, ' # regal ignore:%s' % rule                   # trailing, same line
    if k == 5:
        return '# regal ignore:%s' % rule, ''                      # on the line above
    if k == 6:
        return None, ' # regal ignore:%s,line-length' % rule       # list of rules
    return None, ' # regal ignore:some-other-rule'                # names another rule: still reported


COMMENT_MODES = ['full', 'none', 'above']


def gen_workspace(rng, idx, config):
    """a small workspace: 2-4 packages importing each other, with violations of aggregate rules (unresolved-import,
    prefer-package-imports, circular-import, impossible-not; missing-metadata / no-defined-entrypoint by themselves)
    and of single-file rules, each reported or suppressed by an inline ignore directive; a random number of
    comment lines in front so that rows cross digit boundaries for different k.

    Comments carry locations of their own (and the server compares parsed modules), so the files of a workspace
    rotate through three comment modes: 'full' (head comments, METADATA, inline directives, TODO comments anywhere),
    'none' (not a single comment: no directive, nothing suppressed, no todo-comment finding) and 'above' (comments
    only in front of the package clause: every insertion point further down has all comments above it)."""
    n = 2 + rng.below(3)
    pkgs = ['p%d' % i for i in range(n)]
    files, modes = {}, {}
    for i, pkg in enumerate(pkgs):
        mode = COMMENT_MODES[(idx + i) % 3]
        head, imports, rules = [], [], []

        def put(dst, line, rule):
            above, trail = _directive(rng, rule)     # drawn in every mode: the PRNG sequence does not depend on the mode
            if mode != 'full':
                above, trail = None, ''
            if above is not None:
                dst.append(line[:len(line) - len(line.lstrip())] + above)
            dst.append(line + trail)

        for j in range(rng.below(9)):
            if mode != 'none':
                head.append('# note %d about %s' % (j, pkg))
        if rng.below(4) == 0 and mode != 'none':
            head += ['# METADATA', '# title: %s' % pkg, '# description: package %s' % pkg]
        others = [p for p in pkgs if p != pkg]
        # --- aggregate rules
        for m in range(rng.below(3)):
            put(imports, 'import data.missing%d.thing%d%d' % (m, i, m), 'unresolved-import')
            rules += ['', 'uses_missing%d if thing%d%d.x == input.x' % (m, i, m)]
        if rng.below(3) != 0:
            o = rng.choice(others)
            put(imports, 'import data.%s.helper' % o, 'prefer-package-imports')
            rules += ['', 'uses_helper if helper(input.y) == 1']
        for o in others:
            if rng.below(2) == 0:
                put(imports, 'import data.%s' % o, 'circular-import')
                rules += ['', 'uses_%s if %s.flag' % (o, o)]
                if rng.below(2) == 0:
                    rules += ['', 'never_%s if {' % o]
                    put(rules, '\tnot %s.members' % o, 'impossible-not')
                    rules += ['}']
        # --- single-file rules
        for kind in rng.shuffle(range(7))[:1 + rng.below(4)]:
            rules.append('')
            if kind == 0:
                rules.append('debug%d if {' % i)
                put(rules, '\tprint("x", input.x)', 'print-or-trace-call')
                rules.append('}')
            elif kind == 1:
                if mode == 'full':
                    put(rules, '# TODO: tidy %s' % pkg, 'todo-comment')
                else:
                    _directive(rng, 'todo-comment')
                rules.append('tidy%d := 1' % i)
            elif kind == 2:
                put(rules, 'camelCase%d := 2' % i, 'prefer-snake-case')
            elif kind == 3:
                put(rules, 'assigned%d = 3' % i, 'use-assignment-operator')
            elif kind == 4:
                put(rules, 'long%d := "%s"' % (i, 'x' * 125), 'line-length')
            elif kind == 5:
                rules.append('constant%d if {' % i)
                put(rules, '\t1 == 1', 'constant-condition')
                rules.append('}')
            else:
                put(rules, 'dup%d := 4' % i, 'duplicate-rule')
                rules += ['', 'dup%d := 4' % i]
        body = ['', 'helper(x) := x', '', 'members contains m if some m in input.ms', '', 'flag if input.flag']
        text = '\n'.join(head + ['package %s' % pkg, ''] + imports + rules + body) + '\n'
        files['%s/%s.rego' % (pkg, pkg)] = text
        modes['%s/%s.rego' % (pkg, pkg)] = mode
    ws = {'name': 'ws%d' % idx, 'files': files, 'config': config, 'ks': LSP_KS, 'comment_modes': modes}
    add_layout_edits(rng, ws)
    return ws


def chunk_starts(text):
    """0-based indices of the lines that start a top-level chunk: a non-empty line after an empty one, outside of raw
    strings (blank lines there would change the module). Inserting blank lines in front of such a line changes nothing
    but the layout (a METADATA block stays attached: it starts the chunk)."""
    lines = text.split('\n')
    out, in_raw = [], False
    for i, l in enumerate(lines):
        if i > 0 and not in_raw and lines[i - 1] == '' and l != '' and not l.startswith((' ', '\t', '}', ']', ')')):
            out.append(i)
        if l.count('`') % 2 == 1:
            in_raw = not in_raw
    return out


def add_layout_edits(rng, ws, quick=True):
    """the edits besides 'k blank lines at the top': k blank lines before a chunk in the middle of the file (quick: the
    first chunk after the package clause with k = 1 and one more chosen by the seed with k = 10; thorough: up to three chunks, k in
    {1, 10, 100} each) and k trailing blank lines"""
    cuts = {}
    for name in sorted(ws['files']):
        cs = chunk_starts(ws['files'][name])
        if not cs:
            cuts[name] = []
            continue
        pick = [cs[0], cs[rng.below(len(cs))], cs[-1]] if quick else [cs[0], cs[rng.below(len(cs))], cs[-1]]
        if quick:
            pick = pick[:2]
        cuts[name] = sorted(set(pick))
    ws['cuts'] = cuts
    ws['mid_ks'] = [1, 10] if quick else [1, 10, 100]
    ws['mid_cross'] = not quick
    ws['tail_ks'] = [3] if quick else [1, 100]
    return ws


def lsp_shift_workspaces(ctx):
    rng = vlib.SplitMix(ctx.seed ^ 0xC07A)
    n = 3 if ctx.quick() else 24
    wss = []
    for i in range(n):
        ws = gen_workspace(rng, i, CONFIG_ALL if i % 3 == 2 else '')
        if not ctx.quick():
            add_layout_edits(vlib.SplitMix(ctx.seed ^ 0xC07B ^ i), ws, quick=False)
        wss.append(ws)
    # a fixed one: the smallest shape of each aggregate rule next to its ignored twin
    wss.append(add_layout_edits(rng, {'name': 'fixed', 'config': '', 'ks': LSP_KS, 'files': {
        'a/a.rego': 'package a\n\nimport data.b\nimport data.nowhere.x\nimport data.nowhere.y # regal ignore:unresolved-import\n'
                    'import data.b.helper # regal ignore:prefer-package-imports\n\nr if x.q == y.q\n\ns if helper(b.flag)\n\n'
                    't if {\n\t# regal ignore:impossible-not\n\tnot b.members\n}\n\nu if {\n\tnot b.members\n}\n\nflag if input.a\n',
        'b/b.rego': '# about b\npackage b\n\nimport data.a # regal ignore:circular-import\n\nhelper(x) := x\n\nmembers contains m if some m in input.ms\n\n'
                    'flag if a.flag\n\nprint_it if {\n\tprint(2)\n\tprint(1) # regal ignore:print-or-trace-call\n}\n',
    }}, quick=ctx.quick()))
    # and its comment-free twin: the same rules with nothing suppressed (an edit of such a file re-parses to a module that
    # differs from the cached one in its locations only), every rule enabled
    wss.append(add_layout_edits(rng, {'name': 'fixed-comment-free', 'config': CONFIG_ALL, 'ks': LSP_KS, 'files': {
        'a/a.rego': 'package a\n\nimport data.b\nimport data.nowhere.x\nimport data.b.helper\n\nr if x.q == 1\n\ns if helper(b.flag)\n\n'
                    'u if {\n\tnot b.members\n}\n\nassigned = 3\n\ncamelCase := 2\n\nflag if input.a\n',
        'b/b.rego': 'package b\n\nimport data.a\n\nhelper(x) := x\n\nmembers contains m if some m in input.ms\n\n'
                    'flag if a.flag\n\nprint_it if {\n\tprint(2)\n}\n\ndup := 4\n\ndup := 4\n',
    }}, quick=ctx.quick()))
    # boundary rows (round 3): something reportable on the FIRST row (a METADATA block detached from the package, annotation
    # attributes without the METADATA header, an unknown attribute: the comment-block rules) and on the LAST row, with and
    # without a final newline
    wss.append(add_layout_edits(rng, {'name': 'fixed-boundary-rows', 'config': CONFIG_ALL, 'ks': LSP_KS, 'files': {
        'a/a.rego': '# METADATA\n# title: a\n\npackage a\n\nimport data.b\n\nr if b.flag\n\nx = 1',
        'b/b.rego': '# title: b\n# description: about b\npackage b\n\nimport data.a\n\nflag if a.r\n\ncamelCase := 2 # TODO: last row\n',
        'c/c.rego': '# METADATA\n# titel: c\npackage c\n\ny = 2\n\n# TODO: the end\n\n# title: nothing follows',
    }}, quick=ctx.quick()))
    return wss


def lsp_overlay(ctx, cases, workspaces):
    """one `go test` run for both overlay tests (range conversion cases, k-shift workspaces)"""
    inp, outp = os.path.join(ctx.tmp, 'lsp_in.json'), os.path.join(ctx.tmp, 'lsp_out.json')
    sin, sout = os.path.join(ctx.tmp, 'lsp_shift_in.json'), os.path.join(ctx.tmp, 'lsp_shift_out.json')
    env = {}
    if cases is not None:
        json.dump(cases, open(inp, 'w'))
        env.update({'VERIF_C07_IN': inp, 'VERIF_C07_OUT': outp})
    if workspaces is not None:
        json.dump(workspaces, open(sin, 'w'))
        env.update({'VERIF_C07_SHIFT_IN': sin, 'VERIF_C07_SHIFT_OUT': sout})
    rc, log = vlib.go_test_overlay(ctx, './internal/lsp', {'internal/lsp/zz_verif_c07_test.go': os.path.join(vlib.HARNESS, 'overlay', 'c07_test.go')},
                                   'TestVerifC07', env_extra=env, timeout=1500)
    res = json.load(open(outp)) if cases is not None and os.path.exists(outp) else None
    shift = json.load(open(sout)) if workspaces is not None and os.path.exists(sout) else None
    return rc, log, res, shift


LSP_MAX_REPORTED = 8


def report_lsp_shift(ctx, shift):
    """verdicts of the end-to-end LSP layout-edit scenarios: one violation per (kind, rule, kind of edit), the best
    witnesses first (minimised, reproducible on a fresh cache with the one edit, small), at most LSP_MAX_REPORTED: a
    change that breaks the server's bookkeeping wholesale shows in every rule and every edit"""
    seen_mode = set()
    for ws in shift:
        for it in ws.get('mode_issues') or []:
            d = it.get('diag') or {}
            sig = {'kind': 'lsp-api-mode-mismatch', 'key': d.get('code') or it.get('err', '')[:80]}
            if json.dumps(sig) in seen_mode or len(seen_mode) >= LSP_MAX_REPORTED:
                continue
            seen_mode.add(json.dumps(sig))
            vlib.violation(ctx, {'kind': 'lsp-api-mode-mismatch',
                                 'lsp_workspace': {'name': ws['name'] + '-replay', 'files': it['files'], 'config': it.get('config', ''), 'edit': [], 'ks': [],
                                                   'cuts': {}, 'mid_ks': [], 'mid_cross': True, 'tail_ks': []},
                                 'file': it.get('file'), 'diagnostic': d, 'server': it.get('before'), 'one_call_api': it.get('after'),
                                 'what': 'input modes: the diagnostics of %s that the language server holds after loading the workspace differ from one '
                                         'linter.Lint call over the same texts (rules.InputFromMap, same path prefix and configuration) converted with '
                                         'convertReportToDiagnostics: %s %s %s' % (it.get('file') or 'the workspace root', d.get('code'), d.get('range'),
                                                                                  it.get('other') or it.get('err', '')[:200])},
                           signature=sig)
    cands = []
    for ws in shift:
        for it in ws.get('issues') or []:
            ed = it.get('edit') or {'kind': 'top', 'row': 0, 'k': it['k']}
            size = sum(len(t) for t in (it.get('files') or {}).values())
            rank = (0 if it.get('minimised') else 1, 1 if it.get('history') else 0, it['kind'] == 'error',
                    {'top': 0, 'mid': 1, 'tail': 2}.get(ed['kind'], 3), len(it.get('history') or []), size)
            cands.append((rank, ws, it, ed))
    cands.sort(key=lambda c: c[0])
    seen = set()
    reported = 0      # known findings (suppressed by their signature) do not use up the places
    for rank, ws, it, ed in cands:
        d = it.get('diag') or {}
        sig = {'kind': 'lsp-shift-' + it['kind'], 'key': d.get('code') or it.get('err', '')[:80]}
        if ed['kind'] != 'top':
            sig['key'] += ' (%s)' % ed['kind']
        if json.dumps(sig) in seen:
            continue
        if reported >= LSP_MAX_REPORTED:
            break
        seen.add(json.dumps(sig))
        what = {
            'missing-after-edit': 'a diagnostic of %s disappears (or does not move as the lines do)' % d.get('code'),
            'extra-after-edit': 'a diagnostic of %s appears (or does not move as the lines do)' % d.get('code'),
            'other-file-changed': 'the diagnostics of ANOTHER file (%s) change' % (it.get('other') or 'workspace root'),
            'outside-file': 'a diagnostic of %s lies outside the file or ends before it starts' % d.get('code'),
            'error': 'the per-edit lint fails: %s' % it.get('err', '')[:200],
        }[it['kind']]
        rws = {'name': ws['name'] + '-replay', 'files': it['files'], 'config': it.get('config', ''), 'edit': [it['file']],
               'ks': [ed['k']] if ed['kind'] == 'top' else [], 'cuts': {it['file']: [ed['row']]} if ed['kind'] == 'mid' else {},
               'mid_ks': [ed['k']] if ed['kind'] == 'mid' else [], 'mid_cross': True, 'tail_ks': [ed['k']] if ed['kind'] == 'tail' else []}
        if it.get('history'):
            rws['program'] = it['history']      # the issue needs the earlier edits of the session
        reported += 1 if vlib.violation(ctx, {'kind': 'lsp-shift', 'lsp_workspace': rws,
                             'issue': it['kind'], 'file': it['file'], 'k': it['k'], 'edit': ed, 'diagnostic': d, 'minimised': it.get('minimised', False),
                             'needs_session_history': bool(it.get('history')), 'n_issues_in_this_run': len(cands),
                             'before_edit': it.get('before'), 'after_edit': it.get('after'),
                             'what': 'language server: after replacing %s by the same text with %s%s (updateParse, updateFileDiagnostics, '
                                     'aggregate-report-only updateAllDiagnostics) %s; every diagnostic at or below the insertion point has to '
                                     'move by k lines, the others stay'
                                     % (it['file'], it.get('edit_text') or '%d blank lines at the top' % it['k'],
                                        ' (after %d earlier layout-only edits of the session)' % (len(it['history']) - 1) if it.get('history') else '', what)},
                                       signature=sig) else 0


def run(ctx):
    h = vlib.build_harness(ctx, 'c07')
    env = dict(os.environ, VERIF_SEED=str(ctx.seed))
    replay_modules = replay_opt = None
    rp = {}
    if ctx.replay:
        rp = json.load(open(ctx.replay))
        if rp.get('modules'):
            replay_modules, replay_opt = rp['modules'], rp.get('opt')

    # the corpus run (part 2) is a process tree of its own: it runs next to the helper evaluation and the overlay tests
    # of the language server (part 1 and the LSP scenarios), which are mostly compilation and single Lint calls
    corpus_box = {}
    corpus_thread = None
    if not (ctx.replay and replay_modules is None and rp.get('lsp_workspace')):
        def corpus_job():
            try:
                corpus_box['summ'] = shared.run_corpus(ctx, h, 'C07', replay_modules, replay_opt)
            except BaseException as e:      # re-raised in the main thread
                corpus_box['err'] = e
        corpus_thread = threading.Thread(target=corpus_job)
        corpus_thread.start()

    try:
        # ---------------- 1. helper correspondence -------------------------------------------------------
        hout = os.path.join(ctx.tmp, 'helpers.jsonl')
        rc, log = vlib.run([h, 'helpers', hout, ctx.tier], env=env, timeout=900)
        if rc != 0:
            if 'panic:' in log or 'fatal error:' in log:
                # the helper process died inside OPA / a regal builtin: that is a crash of the code under test
                vlib.violation(ctx, {'kind': 'panic', 'what': 'evaluating the framework helpers through OPA crashed the process',
                                     'log': log[:3000]}, no_input=True)
            else:
                raise RuntimeError('c07 helper evaluation failed: ' + log[-2000:])
        cases = [json.loads(l) for l in open(hout)] if os.path.exists(hout) else []
        # the language server: range conversion (correspondence) and the end-to-end k-shift of its diagnostics (predicate)
        workspaces = lsp_shift_workspaces(ctx)
        if ctx.replay and rp.get('lsp_workspace'):
            workspaces = [rp['lsp_workspace']]
        elif ctx.replay and replay_modules is not None:
            workspaces = None
        lsp, lsp_log, lsp_shift = run_lsp(ctx, workspaces)
        if lsp is None:
            vlib.violation(ctx, {'kind': 'correspondence', 'relation': 'convertReportToDiagnostics uses getRangeForViolation', 'log': lsp_log[-1500:]}, no_input=True)
            lsp = []
        if workspaces is not None and lsp_shift is None:
            m = re.search(r'(panic: [^\n]*|fatal error: [^\n]*)', lsp_log)
            vlib.violation(ctx, {'kind': 'panic', 'what': 'the per-edit lint functions of the language server crash on the k-shift workspaces: ' + (m.group(1) if m else ''),
                                 'lsp_workspaces': workspaces, 'log': lsp_log[:3000]}, signature={'kind': 'panic', 'key': (m.group(1) if m else 'panic')[:120]})
            lsp_shift = []
        lsp_shift = lsp_shift or []
        report_lsp_shift(ctx, lsp_shift)
        cases += lsp
        coq, keep, unrep = [], [], []
        for c in cases:
            t = case_to_coq(c)
            if t is None:
                unrep.append(c)
            else:
                coq.append(t)
                keep.append(c)
        ev, cout = shared.eval_cases(ctx, 'Cases_C07', 'From Regal Require Import Check.C07Check.', 'c07case', coq,
                                     ['case_agrees', 'case_meets_spec'], ['case_in_domain'])
        r1 = r2 = None
        in_dom = 0
        if ev is not None:
            r1, r2 = ev[0]['case_agrees'], ev[0]['case_meets_spec']
            in_dom = ev[1]['case_in_domain']
        if r1 is None or r2 is None:
            if ctx.proofs_ok:
                raise RuntimeError('case evaluation failed:\n' + cout[-3000:])
            r1, r2 = [], []   # the model itself does not compile: the proof gate reports it

    except BaseException:
        if corpus_thread:
            corpus_thread.join()    # never leave the harness processes behind
        raise

    # ---------------- 2. end to end over the corpora ------------------------------------------------
    if corpus_thread is None:
        summ = {'results': [], 'counts': {'replay_lsp_workspace': 1}}   # replay of an LSP scenario: no corpus run
    else:
        corpus_thread.join()
        if 'err' in corpus_box:
            raise corpus_box['err']
        summ = corpus_box['summ']
    # a lint error on a parseable module is C03's subject (tools/check C03 reports it); here the module is
    # only counted as not checked (evidence: corpus.lint_failures_by_signature)
    loc_issues, shift_issues = shared.collect_location_issues(summ)
    seen = set()
    for it in loc_issues:
        v_, m = it['issue']['violation'], it['module']
        sig = {'kind': 'location-' + it['issue']['kind'], 'key': '%s/%s' % (v_['category'], v_['title'])}
        if json.dumps(sig) in seen:
            continue
        seen.add(json.dumps(sig))
        vlib.violation(ctx, {'kind': sig['kind'], 'modules': [m], 'violation': v_, 'line': it['issue'].get('line'),
                             'what': '%s/%s reports %s:%d:%d (%s): %s' % (v_['category'], v_['title'], v_['file'], v_['row'], v_['col'], m['src'], it['issue']['kind'])},
                       signature=sig)
    for it in shift_issues:
        v_, m = it['issue']['violation'], it['module']
        sig = {'kind': 'shift', 'key': '%s/%s' % (v_['category'], v_['title'])}
        if json.dumps(sig) in seen:
            continue
        seen.add(json.dumps(sig))
        vlib.violation(ctx, {'kind': 'shift', 'k': it['issue']['k'], 'modules': [m], 'side': it['issue']['side'], 'violation_expected_or_extra': v_,
                             'nearest_after_shift': it['issue'].get('nearest'),
                             'what': 'inserting %d blank lines at the top of %s changes the findings of %s/%s otherwise than by moving rows'
                                     % (it['issue']['k'], m['src'], v_['category'], v_['title'])},
                       signature=sig)

    # the same modules through every input mode (files on disk, InputFromMap, InputFromText, stdin): the reports must agree with
    # each other and lie inside the text that was PROVIDED
    MODE_NAMES = {'disk': 'files on disk (WithInputPaths -> rules.InputFromPaths)', 'map': 'rules.InputFromMap',
                  'text': 'rules.InputFromText', 'stdin': 'standard input (the path "-", as `regal lint -`)'}
    n_mode = 0      # a change in one input path shows in every rule: the smallest witnesses, at most LSP_MAX_REPORTED
    for it in shared.collect_mode_issues(summ):
        if n_mode >= LSP_MAX_REPORTED:
            break
        v_, m = it.get('violation') or {}, it['module']
        rule = '%s/%s' % (v_.get('category'), v_.get('title')) if v_ else it.get('err', '')[:80]
        sig = {'kind': 'input-mode-%s-%s' % (it['mode'], it['kind'].split(':')[0]), 'key': rule}
        if json.dumps(sig) in seen:
            continue
        seen.add(json.dumps(sig))
        how = {
            'missing-in-mode': 'a finding of the in-memory lint of the same text is missing',
            'extra-in-mode': 'there is a finding that the in-memory lint of the same text does not have',
            'error': 'the lint fails: %s' % it.get('err', '')[:200],
        }.get(it['kind'], 'the reported location is not one of the text provided (%s)' % it['kind'])
        if it['kind'].startswith('not-moved-by-k'):
            how = 'the findings are not those for k = 0 moved by k rows (%s)' % it['kind'].split(':')[1]
        n_mode += 1
        vlib.violation(ctx, {'kind': sig['kind'], 'modules': [m], 'opt': {'modes': True, 'shifts': [it['k']] if it['k'] else []},
                             'mode': it['mode'], 'k': it['k'], 'violation': v_ or None, 'line': it.get('line'),
                             'what': '%s with %d blank lines on top, linted through %s: %s%s'
                                     % (m['src'], it['k'], MODE_NAMES.get(it['mode'], it['mode']), how,
                                        ' [%s %s:%s:%s]' % (rule, v_.get('file'), v_.get('row'), v_.get('col')) if v_ else '')},
                       signature=sig)

    # ---------------- verdicts of part 1 --------------------------------------------------------------
    for i in sorted(set(r2))[:3]:
        c = keep[i]
        vlib.violation(ctx, {'kind': 'helper-vs-spec', 'case': c,
                             'what': '%s on a well-formed, ordered location does not yield a location inside the file' % c['helper']},
                       signature={'kind': 'helper-vs-spec', 'key': json.dumps([c['helper'], c.get('lines'), c.get('args')], sort_keys=True)})
    if r1 and not [x for x in ctx.violations if not x[1]]:
        by = {}
        for i in r1:
            by.setdefault(keep[i]['helper'], []).append(i)
        for hname, idx in sorted(by.items())[:3]:
            vlib.violation(ctx, {'kind': 'correspondence', 'relation': 'Check.C07Check.case_agrees: Model/Location.v vs %s' % hname,
                                 'case': keep[idx[0]], 'n_mismatches': len(idx)}, no_input=True)
    if unrep and not ctx.violations:
        vlib.violation(ctx, {'kind': 'correspondence', 'relation': 'helper output outside the shape the model speaks about',
                             'case': unrep[0], 'n': len(unrep)}, no_input=True)
    proof_gate(ctx)

    # ---------------- evidence ---------------------------------------------------------------------------
    st = shared.corpus_stats(summ)
    hist = {}
    for c in keep:
        hist[c['helper']] = hist.get(c['helper'], 0) + 1
    distinct = len({json.dumps(c, sort_keys=True) for c in keep})
    cov = proof_coverage(ctx, {
        'explanation': 'framework/helper layer modelled and proved (theorems under Props/C07.v, kernel-checked); the quantification over '
                       'the ~90 Rego rule bodies and OPA parser locations is exercised by corpus runs only (testing, not proof)',
        'evaluations': len(keep) + st['located_violations'] + st['shift_pairs'],
        'distinct_nontrivial': distinct + st['modules_linted'],
        'rule': 'helper cases: distinct (helper, line table, arguments) tuples evaluated by OPA and by the model (incl. exhaustive 6x6x5x5 '
                'quads over a 3-line table, malformed strings, object pass-through, non-ASCII lines, empty tables); corpus: distinct modules '
                'linted with all rules enabled (incl. samples of the systematic families: parseable-but-not-compilable modules, comments at '
                'every token boundary of multi-line terms), each violation checked for bounds/text and for the shift relation with k in '
                '{1,3,10,100}; lsp_shift: generated workspaces, every file edited to its k-shifted text through the server\'s per-edit '
                'functions, cached diagnostics compared with the ones before the edit moved by k; input modes (corpus.input_mode_pairs): '
                '(module, k) pairs linted through files on disk / InputFromMap / InputFromText / stdin and compared with each other '
                'and with the text provided; family "boundary rows": a reportable construct on row 1 and on the last row',
        'helper_cases': len(keep), 'helper_cases_by_helper': hist, 'helper_cases_in_theorem_domain': in_dom,
        'mismatch_model': len(r1), 'mismatch_spec': len(r2), 'unrepresentable': len(unrep),
        'corpus': st,
        'lsp_shift': {
            'workspaces': len(lsp_shift), 'edits': sum(w.get('edits', 0) for w in lsp_shift),
            'edits_by_kind': {k: sum((w.get('edits_by_kind') or {}).get(k, 0) for w in lsp_shift) for k in ('top', 'mid', 'tail')},
            'comment_free_files': sum(len(w.get('comment_free_files') or []) for w in lsp_shift),
            'files': sum(len(w.get('baseline') or {}) - 1 for w in lsp_shift if w.get('baseline')),
            'diagnostic_edit_pairs': sum(w.get('compared', 0) for w in lsp_shift),
            'baseline_diagnostics_by_rule': {k: sum((w.get('by_code') or {}).get(k, 0) for w in lsp_shift)
                                             for k in sorted({k for w in lsp_shift for k in (w.get('by_code') or {})})},
            'aggregate_rules': sorted({r for w in lsp_shift for r in (w.get('aggregate_rules') or [])}),
            'issues': sum(len(w.get('issues') or []) for w in lsp_shift),
            'api_mode_diagnostics_compared': sum(w.get('mode_compared', 0) for w in lsp_shift),
            'api_mode_issues': sum(len(w.get('mode_issues') or []) for w in lsp_shift), 'skipped': [w['name'] for w in lsp_shift if w.get('skipped')],
            'ks': LSP_KS,
            'inline_ignore_directives_naming_an_aggregate_rule': sum(
                len(re.findall(r'regal ignore:[^\n]*(?:unresolved-import|prefer-package-imports|circular-import|impossible-not|missing-metadata)', t))
                for w in (workspaces or []) for t in w['files'].values()),
        },
        'shift_exempt_rules': {'file-length': 'counts the lines of the file', 'opa-fmt': 'verdict is about formatting; leading blank lines are not opa-fmt output'},
        'samples': [keep[len(keep) // 3], keep[len(keep) // 2]] if keep else [],
        'exhaustive': False,
    })
    return vlib.finish(ctx, 'other', cov, [
        'OPA builtins split/to_number/substring/array.slice/concat are modelled on canonical integer location strings and valid UTF-8 lines; '
        'validated by this correspondence only',
        'that every rule reports nodes/ranges through these helpers with ordered arguments, and that OPA parser locations are shift-equivariant, '
        'is exercised by the corpus runs (testing)',
        'end positions past the end of the line (OPA parser: parenthesised terms) are counted, not treated as violations: the property only '
        'demands end >= start',
        'text equality is demanded for single-file rules only (aggregate rules carry the text of the aggregated node)',
    ])
