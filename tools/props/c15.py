"""C15: language-server diagnostics converge to a from-scratch workspace lint (partial claim).

Pipeline of one run:
  A. the overlay harness (harness/overlay/c15_test.go, compiled once into a test binary of package
     internal/lsp built from the repo's working tree) runs event histories on a real server with all
     workers and records, at every quiescent point, the diagnostics last published per URI and a
     from-scratch reference lint of the current contents (the property predicate, model-free);
  B. Coq, pass 1: the job-atomic model (Model/Lsp.v) is run with marker oracles to find which linter
     oracle values its predictions depend on;
  C. the harness tabulates exactly those values on the real linter;
  D. Coq, pass 2: prediction of the model of the current code vs observation; model's `fresh` vs the
     harness's reference; for divergent runs, which modelled defect explains the divergence.
"""
import json, os, re, shutil
import vlib
from vlib import clist, cbool
from common import proof_gate, proof_coverage

# ------------------------------------------------------------------ universe (sizes: Check/C15Check.v)
NU, NC, NK = 8, 32, 8
BASE = 1 + NK * NC
ANCHOR = 'zz_anchor.rego'
URIS = ['a.rego', 'b.rego', 'c.rego', 'd.rego', 'e.rego', 'f.rego', 'g.rego', ANCHOR]
ANCHOR_TEXT = 'package zz_anchor\n\nanchored := true\n'
CONTENTS = [
    ('a_imports_b', 'package a\n\nimport data.b\n\nx := b.y\n', True),
    ('a_plain', 'package a\n\nx := 1\n', True),
    ('b_plain', 'package b\n\ny := 2\n', True),
    ('b_imports_a', 'package b\n\nimport data.a\n\ny := a.x\n', True),
    ('c_imports_rule_b_y', 'package c\n\nimport data.b.y\n\nz := y\n', True),
    ('broken_b', 'package b\n\ny := {', False),
    ('q_assign', 'package q\n\ny = 2\n', True),
    ('broken_a', 'package a\n\nimport data.b\nx := := 1\n', False),
    ('anchor', ANCHOR_TEXT, True),
    ('b_other_rule', 'package b\n\nw := 3\n', True),
    ('a_imports_c', 'package a\n\nimport data.c\n\nx := c.z\n', True),
]
CID = {t: i for i, (_, t, _) in enumerate(CONTENTS)}
CNAME = {n: i for i, (n, _, _) in enumerate(CONTENTS)}
CONFIGS = [
    '',
    'rules:\n  imports:\n    unresolved-import:\n      level: ignore\n',
    'rules:\n  style:\n    use-assignment-operator:\n      level: ignore\n',
]
KID = {t: i for i, t in enumerate(CONFIGS)}

# modelled defects that are NOT repaired in the repository (bits of Check.C15Check.attribution)
DEFECTS = {
    1: ('lint.go:updateParse/parse-failure-keeps-last-good-module',
        'after a document stops parsing its last good module and aggregates stay in the cache: other files keep '
        '(or never get) aggregate violations such as unresolved-import that a fresh lint reports'),
    2: ('lint.go:updateAllDiagnostics/full-lint-skips-unparseable-file',
        'a full workspace lint (config change) leaves the cached diagnostics of a currently unparseable file untouched; '
        'diagnostics of a rule disabled meanwhile survive when the file parses again'),
    4: ('linter.go:Lint/aggregate-report-needs-two-files-only-in-full-lint',
        'with a single module a full lint skips aggregate rules but the aggregate-only lint after an edit runs them'),
    8: ('server.go:StartDiagnosticsWorker/no-publish-without-modules',
        'when no file of the workspace parses the workspace run is skipped and parse errors found at start-up are never published'),
    16: ('lint.go:updateFileDiagnostics/file-job-straddles-delete',
         'not job-atomic: a delete/rename handled while a lint job that took its snapshot of the cache before is still running; '
         'the job then stores aggregates / diagnostics of the deleted URI again (SetFileAggregates, SetFileDiagnosticsForRules '
         'and sendFileDiagnostics are unconditional)'),
}


def T(name):
    return CONTENTS[CNAME[name]][1]


# ------------------------------------------------------------------ history generation
class World:
    def __init__(self, init):
        self.cur = dict(init)
        self.cur[ANCHOR] = ANCHOR_TEXT

    def applicable(self, e):
        ex = e.get('file') in self.cur
        op = e['op']
        if op in ('open', 'create'):
            return True
        if op == 'change':
            return ex
        if op == 'delete':
            return ex
        if op == 'rename':
            return ex and e['to'] not in self.cur and e['to'] != e['file']
        return op == 'config'

    def apply(self, e):
        op = e['op']
        if op in ('open', 'change', 'create'):
            self.cur[e['file']] = e['text']
        elif op == 'delete':
            del self.cur[e['file']]
        elif op == 'rename':
            self.cur[e['to']] = self.cur.pop(e['file'])


def concretise(abstract, init, rng):
    """abstract events ('set', f, c) | ('del', f) | ('ren', f, g) | ('cfg', k) -> applicable concrete events,
    or None when the sequence is not a well-formed editor history"""
    w = World(init)
    out = []
    for a in abstract:
        if a[0] == 'set':
            if a[1] in w.cur:
                e = {'op': 'change', 'file': a[1], 'text': a[2]}
            else:
                e = {'op': 'open' if rng.below(2) == 0 else 'create', 'file': a[1], 'text': a[2]}
        elif a[0] == 'del':
            e = {'op': 'delete', 'file': a[1]}
        elif a[0] == 'ren':
            e = {'op': 'rename', 'file': a[1], 'to': a[2]}
        else:
            e = {'op': 'config', 'text': CONFIGS[a[1]]}
        if not w.applicable(e):
            return None
        if e['op'] == 'change' and w.cur[e['file']] == e['text']:
            pass  # re-sending the same text is allowed (a no-op edit still triggers a lint)
        w.apply(e)
        out.append(e)
    return out


INITS = [
    {'a.rego': T('a_imports_b'), 'b.rego': T('b_plain')},
    {'a.rego': T('a_imports_b'), 'b.rego': T('b_imports_a'), 'c.rego': T('c_imports_rule_b_y')},
    {'a.rego': T('a_plain'), 'b.rego': T('broken_b'), 'c.rego': T('c_imports_rule_b_y')},
    {'a.rego': T('a_imports_c'), 'b.rego': T('q_assign'), 'c.rego': T('c_imports_rule_b_y'), 'd.rego': T('b_plain')},
]

# small alphabet for the exhaustive part: 2 files that import each other + a rename target
SMALL = [
    ('set', 'b.rego', T('b_other_rule')), ('set', 'b.rego', T('broken_b')), ('set', 'b.rego', T('b_imports_a')),
    ('set', 'a.rego', T('a_plain')), ('set', 'b.rego', T('q_assign')),
    ('del', 'b.rego'), ('ren', 'b.rego', 'c.rego'), ('cfg', 1), ('cfg', 0), ('set', 'b.rego', T('b_plain')),
    ('del', 'a.rego'), ('cfg', 2), ('set', 'c.rego', T('c_imports_rule_b_y')),
]


def all_parse(evs):
    return all(e['op'] not in ('open', 'change', 'create') or CONTENTS[CID[e['text']]][2] for e in evs)


def random_abstract(rng, files, n, parse_only=False):
    out = []
    cands = [i for i, (_, _, ok) in enumerate(CONTENTS) if (ok or not parse_only) and CONTENTS[i][0] != 'anchor']
    for _ in range(n):
        r = rng.below(100)
        f = rng.choice(files)
        if r < 58:
            out.append(('set', f, CONTENTS[rng.choice(cands)][1]))
        elif r < 72:
            out.append(('del', f))
        elif r < 86:
            out.append(('ren', f, rng.choice(files)))
        else:
            out.append(('cfg', rng.below(len(CONFIGS))))
    return out


def gen_jobs(ctx):
    rng = ctx.rng
    jobs = []

    def add(mode, init, evs, tag):
        jobs.append({'id': len(jobs), 'mode': mode, 'init': init, 'events': evs, 'tag': tag})

    quick = ctx.quick()
    # 1. exhaustive over the small alphabet (prefixes are covered by the checkpoints of step mode)
    alpha = SMALL[:6] if quick else SMALL[:8]
    depth = 2 if quick else 3
    seqs = [[]]
    for _ in range(depth):
        seqs = [s + [a] for s in seqs for a in alpha]
    n_ex = 0
    for s in seqs:
        evs = concretise(s, INITS[0], rng)
        if evs is None:
            # keep the longest applicable prefix only if it is not itself a shorter enumerated history
            continue
        add('step', INITS[0], evs, 'exhaustive')
        n_ex += 1
    # shorter histories whose extensions were all inapplicable
    covered = {json.dumps(j['events'][:k]) for j in jobs for k in range(len(j['events']) + 1)}
    for d in range(1, depth):
        ss = [[]]
        for _ in range(d):
            ss = [s + [a] for s in ss for a in alpha]
        for s in ss:
            evs = concretise(s, INITS[0], rng)
            if evs is not None and json.dumps(evs) not in covered:
                add('step', INITS[0], evs, 'exhaustive')
                covered.add(json.dumps(evs))
    # 2. sampled histories of length 3-4 over the full small alphabet
    n_s = 6 if quick else 120
    tries = 0
    while n_s > 0 and tries < 10000:
        tries += 1
        s = [rng.choice(SMALL) for _ in range(3 + rng.below(2))]
        init = INITS[rng.below(2)]
        evs = concretise(s, init, rng)
        if evs is not None:
            add('step', init, evs, 'sampled-3-4')
            n_s -= 1
    # 3. random histories up to length 8 over 2-4 files, one at a time
    n_r = 8 if quick else 160
    tries = 0
    while n_r > 0 and tries < 10000:
        tries += 1
        init = rng.choice(INITS)
        files = sorted(set(list(init) + ['c.rego']))[:4]
        evs = concretise(random_abstract(rng, files, 4 + rng.below(5)), init, rng)
        if evs is not None:
            add('step', init, evs, 'random-step')
            n_r -= 1
    # 4. bursts (real interleavings of handler, file worker, dispatcher + rate limiter, workspace worker).
    #    Parse failures are left to step mode: there the final state depends on the job-atomic schedule, so
    #    a burst could not be compared with a single prediction.
    n_b = 10 if quick else 160
    tries = 0
    while n_b > 0 and tries < 10000:
        tries += 1
        init = rng.choice([INITS[0], INITS[1], INITS[3]])
        files = sorted(set(list(init) + ['c.rego']))[:4]
        n = 3 + rng.below(6)
        if n_b % 5 == 0:
            n = 14 + rng.below(10)      # long bursts trip the rate limiter (more than 5 queued runs)
        evs = concretise(random_abstract(rng, files, n, parse_only=True), init, rng)
        if evs is not None:
            add('burst', init, evs, 'burst')
            n_b -= 1
    return jobs


def corpus_jobs():
    """fixed regression inputs: one history per modelled defect (open or fixed) and the delete race"""
    d = os.path.join(vlib.VERIF, 'corpus', 'C15')
    out = []
    if os.path.isdir(d):
        for f in sorted(os.listdir(d)):
            if f.endswith('.json'):
                j = json.load(open(os.path.join(d, f)))
                j['tag'] = 'corpus:' + f[:-5]
                out.append(j)
    return out


# ------------------------------------------------------------------ test binary
def build_test_binary(ctx, race=False):
    ov = {'Replace': {
        os.path.join(vlib.REPO, 'internal/lsp/zz_verif_c15_test.go'): os.path.join(vlib.HARNESS, 'overlay', 'c15_test.go'),
        os.path.join(vlib.REPO, 'internal/lsp/zz_verif_c17_test.go'): os.path.join(vlib.HARNESS, 'overlay', 'c17_test.go'),
    }}
    ovp = os.path.join(ctx.tmp, 'overlay_lsp.json')
    json.dump(ov, open(ovp, 'w'))
    out = os.path.join(ctx.tmp, 'lsp_race.test' if race else 'lsp.test')
    cmd = [vlib.GO, 'test', '-c', '-overlay', ovp, '-vet=off'] + (['-race'] if race else []) + ['-o', out, './internal/lsp']
    rc, log = vlib.run(cmd, cwd=vlib.REPO, env=vlib.goenv(), timeout=1500)
    if rc != 0:
        raise vlib.HarnessBuildError(log)
    return out


def run_binary(ctx, binary, test, inp, outp, timeout=3000, extra_env=None, workers=None):
    work = os.path.join(ctx.tmp, 'work')
    home = os.path.join(ctx.tmp, 'home')
    os.makedirs(work, exist_ok=True)
    os.makedirs(home, exist_ok=True)
    env = dict(os.environ, VERIF_IN=inp, VERIF_OUT=outp, VERIF_WORK=work, VERIF_HOME=home, VERIF_SEED=str(ctx.seed))
    if workers:
        env['VERIF_WORKERS'] = str(workers)
    if extra_env:
        env.update(extra_env)
    return vlib.run([binary, '-test.run', '^' + test + '$', '-test.timeout', '%ds' % timeout, '-test.count', '1'],
                    cwd=ctx.tmp, env=env, timeout=timeout + 60)


def run_histories(ctx, binary, jobs, name):
    inp = os.path.join(ctx.tmp, name + '_in.json')
    outp = os.path.join(ctx.tmp, name + '_out.jsonl')
    json.dump([{k: j[k] for k in ('id', 'mode', 'init', 'events') if k in j} | ({'noanchor': True} if j.get('noanchor') else {})
               for j in jobs], open(inp, 'w'))
    rc, log = run_binary(ctx, binary, 'TestVerifC15Replay', inp, outp)
    if rc != 0 or not os.path.exists(outp):
        raise RuntimeError('C15 harness run failed (rc=%d):\n%s' % (rc, log[-4000:]))
    if os.environ.get('VERIF_KEEP'):
        os.makedirs(os.environ['VERIF_KEEP'], exist_ok=True)
        shutil.copy(outp, os.path.join(os.environ['VERIF_KEEP'], 'c15_' + name + '_out.jsonl'))
    res = [json.loads(l) for l in open(outp)]
    by = {r['id']: r for r in res}
    return [by[j['id']] for j in jobs]


# ------------------------------------------------------------------ Coq data
class Ids:
    def __init__(self):
        self.diag, self.rule = {}, {}

    def d(self, s):
        code = s.split('|', 1)[0]
        r = self.rule.setdefault(code, len(self.rule) + 1)
        i = self.diag.setdefault(s, len(self.diag) + 1)
        return r, i

    def r(self, code):
        return self.rule.setdefault(code, len(self.rule) + 1)


def cN(n):
    return '%d' % n


def cdiags(ids, strs):
    return clist('(%d, %d)' % ids.d(s) for s in strs)


def cobs(ids, m):
    """name -> [canonical strings]  ==>  list (uri * list N), identifiers sorted"""
    items = []
    for name in sorted(m or {}):
        if name not in URIS:
            raise RuntimeError('diagnostics published for an unexpected URI: %r' % name)
        items.append('(%d, %s)' % (URIS.index(name), clist(cN(x) for x in sorted(ids.d(s)[1] for s in m[name]))))
    return clist(items)


def cevent(e):
    op = e['op']
    if op in ('open', 'change', 'create'):
        return 'ESet %d %d' % (URIS.index(e['file']), CID[e['text']])
    if op == 'delete':
        return 'EDelete %d' % URIS.index(e['file'])
    if op == 'rename':
        return 'ERename %d %d' % (URIS.index(e['file']), URIS.index(e['to']))
    if op == 'config':
        return 'EConfig %d' % KID[e.get('text', '')]
    raise RuntimeError('event outside the model: %r' % (e,))


def ccase(ids, c):
    init = dict(c['init'])
    if not c.get('noanchor'):
        init[ANCHOR] = ANCHOR_TEXT
    return ('{| c_step := %s; c_init := %s; c_cfg0 := 0; c_events := %s; c_pub := %s; c_fresh := %s |}' % (
        cbool(c['mode'] == 'step'),
        clist('(%d, %d)' % (URIS.index(n), CID[t]) for n, t in sorted(init.items())),
        clist(cevent(e) for e in c['events']),
        cobs(ids, c['published']), cobs(ids, c['fresh'])))


def ctables(ids, parses, perr, fd, ar, rules):
    t_perr = clist('((%d, %d), %s)' % (u, c, cdiags(ids, ds)) for (u, c), ds in sorted(perr.items()))
    t_fd = clist('(%d, %s)' % (k, cdiags(ids, ds)) for k, ds in sorted(fd.items()))
    t_ar = clist('(%d, %s)' % (k, clist('(%d, %s)' % (u, cdiags(ids, ds)) for u, ds in sorted(per.items())))
                 for k, per in sorted(ar.items()))
    t_rules = clist('(%d, (%s, %s))' % (k, clist(cN(ids.r(x)) for x in r['nonagg']), clist(cN(ids.r(x)) for x in r['agg']))
                    for k, r in enumerate(rules))
    return ('{| t_parses := %s; t_perr := %s; t_fd := %s; t_ar := %s; t_rules := %s |}' % (
        clist(cN(i) for i, ok in enumerate(parses) if ok), t_perr, t_fd, t_ar, t_rules))


def fkey(k, u, c):
    return k + NK * (u + NU * c)


def decode_marker(p):
    if p % 2 == 0:
        x = p // 2
        k, x = x % NK, x // NK
        u, c = x % NU, x // NU
        return ('f', (k, u, c))
    a = (p - 1) // 2
    k, code = a % NK, a // NK
    m = []
    for u in range(NU):
        d, code = code % BASE, code // BASE
        if d:
            m.append((u, (d - 1) % NK, (d - 1) // NK))
    return ('a', (k, tuple(m)), a)


def coq_list_of_N(out, marker):
    m = re.search(re.escape(marker) + r'\s*=\s*(\[[^\]]*\])', out, re.S)
    if not m:
        return None
    return [int(x) for x in re.findall(r'\d+', m.group(1))]


def tick(ctx, what):
    import time
    ctx.timing = getattr(ctx, 'timing', [])
    ctx.timing.append((what, round(time.time() - ctx.t0, 1)))
    if os.environ.get('VERIF_DEBUG'):
        print('[c15] %6.1fs %s' % (time.time() - ctx.t0, what), flush=True)


# ------------------------------------------------------------------ the check
def build_cases(runs, jobs):
    """one case per quiescent point: every checkpoint of a step run and the final state of every run"""
    cases = []
    for r, j in zip(runs, jobs):
        if r.get('error'):
            continue
        base = {'mode': r['mode'], 'init': r['init'], 'noanchor': r.get('noanchor', False), 'job': j['id'], 'tag': j.get('tag', '')}
        for cp in r.get('checkpoints') or []:
            cases.append(dict(base, events=r['events'][:cp['n']], published=cp['published'] or {}, fresh=cp['fresh'] or {}, final=False))
        cases.append(dict(base, events=r['events'], published=r['published'] or {}, fresh=r['fresh'] or {}, final=True))
    # de-duplicate identical step prefixes (same init, same events): the run is deterministic up to scheduling,
    # but every observation is kept when it differs
    seen, out = set(), []
    for c in cases:
        key = json.dumps([c['mode'], c['init'], c['events'], c['published'], c['noanchor']], sort_keys=True)
        if c['mode'] == 'step' and key in seen:
            continue
        seen.add(key)
        out.append(c)
    return out


def diverged(c):
    return (c['published'] or {}) != (c['fresh'] or {})


def evaluate(ctx, binary, cases):
    """passes B, C, D; returns dict with per-case results"""
    ids = Ids()
    hdr = ['From Regal Require Import Check.C15Check.', 'Open Scope N_scope.']
    parses = [ok for (_, _, ok) in CONTENTS]
    empty_rules = [{'nonagg': [], 'agg': []} for _ in CONFIGS]
    cdefs = [ccase(ids, c) for c in cases]
    div = [diverged(c) for c in cases]
    # ---- pass 1: keys (cases are evaluated in chunks: one huge list literal overflows Coq's stack)
    CH = int(os.environ.get('VERIF_CHUNK', '200'))
    v = list(hdr)
    v.append('Definition TB := %s.' % ctables(ids, parses, {}, {}, {}, empty_rules))
    nch = (len(cases) + CH - 1) // CH
    for ci in range(nch):
        sl = slice(ci * CH, (ci + 1) * CH)
        v.append('Definition cases%d : list (bool * c15_case) := %s.' % (
            ci, clist('(%s, %s)' % (cbool(d), cd) for d, cd in zip(div[sl], cdefs[sl]))))
        v.append('Definition K1_%d := Eval vm_compute in flat_map (fun p => keys_of_case TB (fst p) (snd p)) cases%d.' % (ci, ci))
        v.append('Print K1_%d.' % ci)
    rc, out = vlib.coq_eval(ctx, 'Keys_C15', '\n'.join(v), timeout=1800)
    if rc != 0:
        raise RuntimeError('C15 key discovery failed:\n' + out[-3000:])
    tick(ctx, 'coq pass 1 (oracle keys)')
    markers = set()
    for ci in range(nch):
        markers.update(coq_list_of_N(out, 'K1_%d' % ci) or [])
    markers = sorted(markers)
    fkeys, akeys = set(), {}
    for p in markers:
        d = decode_marker(p)
        if d[0] == 'f':
            fkeys.add(d[1])
        else:
            akeys[d[2]] = d[1]
    # ---- pass C: oracle tables from the real linter
    alist = sorted(akeys.items())
    oin = {'configs': CONFIGS, 'uris': URIS, 'contents': [t for (_, t, _) in CONTENTS],
           'fkeys': [list(k) for k in sorted(fkeys)],
           'akeys': [{'k': k, 'm': [list(e) for e in m]} for _, (k, m) in alist]}
    inp, outp = os.path.join(ctx.tmp, 'oracle_in.json'), os.path.join(ctx.tmp, 'oracle_out.json')
    json.dump(oin, open(inp, 'w'))
    rc, log = run_binary(ctx, binary, 'TestVerifC15Oracle', inp, outp)
    if rc != 0 or not os.path.exists(outp):
        raise RuntimeError('C15 oracle run failed:\n' + log[-3000:])
    tick(ctx, 'oracle tables (%d file lints, %d aggregate reports)' % (len(fkeys), len(alist)))
    o = json.load(open(outp))
    if o.get('errors'):
        raise RuntimeError('C15 oracle errors: %r' % o['errors'][:5])
    if o['parses'] != parses:
        raise RuntimeError('content alphabet: parse flags differ from the real parser: %r' % o['parses'])
    perr = {tuple(int(x) for x in k.split(',')): v for k, v in o['perr'].items()}
    fd = {}
    for k, ds in o['fd'].items():
        kk, u, c = (int(x) for x in k.split(','))
        fd[fkey(kk, u, c)] = ds
    ar = {}
    for (code, _), per in zip(alist, o['ar']):
        if 'error' in per:
            raise RuntimeError('aggregate oracle failed: %r' % per['error'])
        ar[code] = {int(u): ds for u, ds in per.items()}
    rules = o['rules']
    # oracle hypotheses of the theorems, checked on everything tabulated
    hyp_viol = []
    for k, ds in fd.items():
        kk = k % NK
        for s in ds:
            code = s.split('|', 1)[0]
            if code not in rules[kk]['nonagg'] or code in rules[kk]['agg']:
                hyp_viol.append(('fdiags_codes', kk, s))
    for code_, per in ar.items():
        kk = code_ % NK
        for u, ds in per.items():
            for s in ds:
                code = s.split('|', 1)[0]
                if code not in rules[kk]['agg'] or code in rules[kk]['nonagg']:
                    hyp_viol.append(('areport_codes', kk, s))
    for (u, c), ds in perr.items():
        if not ds:
            hyp_viol.append(('perr_nonempty', u, c))
    # ---- pass 2
    v = list(hdr)
    v.append('Definition TB := %s.' % ctables(ids, parses, perr, fd, ar, rules))
    dcd = [cd for d, cd in zip(div, cdefs) if d]
    for ci in range(nch):
        sl = slice(ci * CH, (ci + 1) * CH)
        v.append('Definition cases%d : list c15_case := %s.' % (ci, clist(cdefs[sl])))
        v.append('Definition R1_%d := Eval vm_compute in failing (agrees_model TB) %d cases%d.' % (ci, ci * CH, ci))
        v.append('Definition R2_%d := Eval vm_compute in failing (agrees_fresh TB) %d cases%d.' % (ci, ci * CH, ci))
        v.append('Definition R4_%d := Eval vm_compute in failing converged %d cases%d.' % (ci, ci * CH, ci))
        v.append('Print R1_%d. Print R2_%d. Print R4_%d.' % (ci, ci, ci))
    ndch = (len(dcd) + CH - 1) // CH
    for ci in range(ndch):
        v.append('Definition dcases%d : list c15_case := %s.' % (ci, clist(dcd[ci * CH:(ci + 1) * CH])))
        v.append('Definition R3_%d := Eval vm_compute in map (attribution TB) dcases%d.' % (ci, ci))
        v.append('Print R3_%d.' % ci)
    rc, out = vlib.coq_eval(ctx, 'Cases_C15', '\n'.join(v), timeout=1800)
    if rc != 0:
        raise RuntimeError('C15 case evaluation failed:\n' + out[-3000:])
    r1, r2, r3, r4 = [], [], [], []
    for ci in range(nch):
        r1 += vlib.parse_nat_list(out, 'R1_%d' % ci) or []
        r2 += vlib.parse_nat_list(out, 'R2_%d' % ci) or []
        r4 += vlib.parse_nat_list(out, 'R4_%d' % ci) or []
    for ci in range(ndch):
        r3 += coq_list_of_N(out, 'R3_%d' % ci) or []
    didx = [i for i, d in enumerate(div) if d]
    if sorted(r4) != didx:
        raise RuntimeError('python and Coq disagree on which cases diverge: %r vs %r' % (r4[:10], didx[:10]))
    return {'model_mismatch': set(r1), 'fresh_mismatch': set(r2), 'attr': dict(zip(didx, r3)), 'div': didx,
            'n_fkeys': len(fd), 'n_akeys': len(ar), 'hyp_viol': hyp_viol, 'n_diags': len(ids.diag)}


def describe(c):
    def ev(e):
        if e['op'] in ('open', 'change', 'create'):
            return '%s(%s,%s)' % (e['op'], e['file'], CONTENTS[CID[e['text']]][0])
        if e['op'] == 'rename':
            return 'rename(%s,%s)' % (e['file'], e['to'])
        if e['op'] == 'config':
            return 'config(%d)' % KID[e.get('text', '')]
        return '%s(%s)' % (e['op'], e.get('file'))
    init = ','.join('%s=%s' % (n, CONTENTS[CID[t]][0]) for n, t in sorted(c['init'].items()))
    diff = []
    for n in sorted(set(c['published']) | set(c['fresh'])):
        p, f = c['published'].get(n, []), c['fresh'].get(n, [])
        if p != f:
            po = sorted({s.split('|')[0] for s in p if s not in f})
            fo = sorted({s.split('|')[0] for s in f if s not in p})
            if po or fo:
                diff.append('%s: published-only %s, fresh-only %s' % (n, po, fo))
            else:   # same diagnostics, different multiplicities
                dup = sorted({s.split('|')[0] for s in set(p) | set(f) if p.count(s) != f.count(s)})
                diff.append('%s: duplicated diagnostics of %s (published %d, fresh %d)' % (n, dup, len(p), len(f)))
    return '%s {%s} %s => %s' % (c['mode'], init, ' '.join(ev(e) for e in c['events']), '; '.join(diff))


def replay_obj(c, kind, extra=None):
    o = {'kind': kind, 'case': {'mode': c['mode'], 'init': c['init'], 'events': c['events'], 'noanchor': c.get('noanchor', False)},
         'published': c['published'], 'fresh': c['fresh'], 'what': describe(c)}
    if extra:
        o.update(extra)
    return o


def shrink(ctx, binary, c, still_bad):
    """greedy one-event-at-a-time minimisation on the real server; still_bad(case) -> bool"""
    cur = c
    progress = True
    budget = 6
    while progress and budget > 0 and len(cur['events']) > 1:
        budget -= 1
        progress = False
        cands = []
        for i in range(len(cur['events'])):
            evs = cur['events'][:i] + cur['events'][i + 1:]
            w = World(cur['init'])
            ok = True
            for e in evs:
                if not w.applicable(e):
                    ok = False
                    break
                w.apply(e)
            if ok:
                cands.append({'id': len(cands), 'mode': cur['mode'], 'init': cur['init'], 'events': evs, 'noanchor': cur.get('noanchor', False)})
        if not cands:
            break
        runs = run_histories(ctx, binary, cands, 'shrink%d' % budget)
        for r, j in zip(runs, cands):
            if r.get('error'):
                continue
            cc = dict(j, published=r['published'] or {}, fresh=r['fresh'] or {}, final=True)
            if diverged(cc) and still_bad(cc):
                cur = cc
                progress = True
                break
    return cur


def run(ctx):
    tick(ctx, 'start (coq built)')
    binary = build_test_binary(ctx)
    tick(ctx, 'test binary built')
    if ctx.replay:
        rp = json.load(open(ctx.replay))
        jobs = [dict(rp['case'], id=0, tag='replay')] if 'case' in rp else []
    else:
        jobs = corpus_jobs() + gen_jobs(ctx)
        for i, j in enumerate(jobs):
            j['id'] = i
    runs = run_histories(ctx, binary, jobs, 'hist') if jobs else []
    tick(ctx, '%d histories run' % len(jobs))
    cases = build_cases(runs, jobs)
    ev = evaluate(ctx, binary, cases) if cases else {'model_mismatch': set(), 'fresh_mismatch': set(), 'attr': {}, 'div': [],
                                                      'n_fkeys': 0, 'n_akeys': 0, 'hyp_viol': [], 'n_diags': 0}

    tick(ctx, '%d cases evaluated' % len(cases))
    # ---- verdicts -----------------------------------------------------------------------------
    n_viol = 0
    for r, j in zip(runs, jobs):
        if r.get('error'):
            vlib.violation(ctx, {'kind': 'server-not-idle-or-harness-error', 'case': {k: j[k] for k in ('mode', 'init', 'events')},
                                 'error': r['error'], 'log_tail': r.get('log_tail')}, no_input=False)
            n_viol += 1
            if n_viol >= 3:
                break
    known_seen, unexplained, race_unreproduced = {}, [], 0
    for i in ev['div']:
        c = cases[i]
        mask = ev['attr'].get(i, 64)
        explained = i not in ev['model_mismatch'] and (mask & 64) == 0 and (mask & 31) != 0
        if explained:
            for bit, (key, what) in DEFECTS.items():
                if mask & bit:
                    known_seen.setdefault(bit, []).append(i)
        elif (c['mode'] == 'burst' and (mask & 32) and (mask & 64) == 0 and all_parse(c['events'])
              and any(e['op'] in ('delete', 'rename') for e in c['events'])):
            # Every job-atomic schedule of this parse-failure-free history converges (theorem
            # converges_job_atomic_partial; both extreme schedules checked on the model), so the observed
            # interleaving was not job-atomic, and the history contains the delete/rename that the modelled race
            # needs.  Not reproduced by the sampled fine-grained schedule family: same defect class.
            known_seen.setdefault(16, []).append(i)
            race_unreproduced += 1
        else:
            unexplained.append(i)
    for bit, idxs in sorted(known_seen.items()):
        key, what = DEFECTS[bit]
        c = min((cases[i] for i in idxs), key=lambda c: (len(c['events']), json.dumps(c['events'])))
        vlib.violation(ctx, replay_obj(c, 'stale-diagnostics', {'defect': key, 'explanation': what, 'n_cases': len(idxs)}),
                       signature={'kind': 'stale-diagnostics', 'key': key})
    for i in unexplained[:2]:
        c = cases[i]
        # only one-at-a-time histories are deterministic enough to be minimised by re-running them
        small = c if (ctx.replay or c['mode'] != 'step') else shrink(ctx, binary, c, lambda cc: True)
        vlib.violation(ctx, replay_obj(small, 'published-differs-from-fresh-lint',
                                       {'original': describe(c), 'model_agrees_with_observation': i not in ev['model_mismatch'],
                                        'attribution_mask': ev['attr'].get(i)}),
                       signature={'kind': 'published-differs-from-fresh-lint', 'key': describe(small)})
    # Without the anchor module (corpus cases for the single-module / no-module defects) the 2 s workspace-state
    # poller can re-lint a file while `initialize` is still loading the workspace; that extra, idempotent file job
    # is outside the model and, when no file parses, publishes the parse errors the model says are never published.
    # A converged observation of such a case is therefore not held against the model.
    tolerated = [i for i in sorted(ev['model_mismatch']) if i not in ev['div'] and cases[i].get('noanchor')]
    corr = [i for i in sorted(ev['model_mismatch']) if i not in ev['div'] and not cases[i].get('noanchor')]
    if corr and not ctx.violations:
        c = cases[corr[0]]
        vlib.violation(ctx, replay_obj(c, 'correspondence', {'relation': 'Check.C15Check.agrees_model (Model/Lsp.v, job-atomic schedule)',
                                                             'n_mismatches': len(corr)}), no_input=True)
    if ev['fresh_mismatch'] and not ctx.violations:
        c = cases[sorted(ev['fresh_mismatch'])[0]]
        vlib.violation(ctx, replay_obj(c, 'correspondence', {'relation': 'Check.C15Check.agrees_fresh (Model.Lsp.fresh vs from-scratch lint)',
                                                             'n_mismatches': len(ev['fresh_mismatch'])}), no_input=True)
    if ev['hyp_viol'] and not ctx.violations:
        vlib.violation(ctx, {'kind': 'oracle-hypothesis', 'what': 'a Section hypothesis of Proofs/Lsp.v does not hold of the real linter',
                             'examples': ev['hyp_viol'][:5]}, no_input=True)
    proof_gate(ctx)

    # ---- evidence -----------------------------------------------------------------------------
    tags = {}
    for j in jobs:
        tags[j.get('tag', '').split(':')[0]] = tags.get(j.get('tag', '').split(':')[0], 0) + 1
    lens = {}
    for c in cases:
        lens[len(c['events'])] = lens.get(len(c['events']), 0) + 1
    ops = {}
    for j in jobs:
        for e in j['events']:
            ops[e['op']] = ops.get(e['op'], 0) + 1
    distinct = len({json.dumps([c['mode'], c['init'], c['events'], c.get('noanchor')], sort_keys=True) for c in cases if c['events']})
    stable = sum(r.get('stable_waits', 0) for r in runs)
    cov = proof_coverage(ctx, {
        'explanation': 'model-level theorems (job-atomic convergence and its refutations) are kernel-checked; the real server is '
                       'SAMPLED: histories delivered one at a time (deterministic job-atomic schedule, compared with the model '
                       'exactly) and in bursts (real interleavings, compared with a from-scratch lint). Real interleavings are not proved.',
        'evaluations': len(cases),
        'distinct_nontrivial': distinct,
        'rule': 'a case is one quiescent point of one server run (every prefix of a one-at-a-time history, the end of a burst); '
                'distinct = distinct (mode, initial workspace, non-empty event history)',
        'server_runs': len(runs), 'runs_by_kind': tags, 'cases_by_history_length': lens, 'events_by_op': ops,
        'diverged_cases': len(ev['div']), 'diverged_explained_by_modelled_open_defects': sum(len(v) for v in known_seen.values()),
        'diverged_unexplained': len(unexplained), 'diverged_burst_races_not_reproduced_by_model_schedules': race_unreproduced,
        'mismatch_model': len(corr), 'mismatch_model_tolerated_noanchor_converged': len(tolerated),
        'observed_divergences_not_predicted_by_a_sampled_model_schedule': len([i for i in ev['div'] if i in ev['model_mismatch']]),
        'mismatch_fresh_reference': len(ev['fresh_mismatch']),
        'oracle_hypothesis_violations': len(ev['hyp_viol']),
        'oracle_file_lints': ev['n_fkeys'], 'oracle_aggregate_reports': ev['n_akeys'], 'distinct_diagnostics': ev['n_diags'],
        'quiescence_by_stability_fallback': stable, 'timing_s': getattr(ctx, 'timing', []),
        'race_detector': False,
        'samples': [describe(c) for c in cases[:2]] + [describe(cases[i]) for i in ev['div'][:3]],
        'exhaustive': False,
    })
    return vlib.finish(ctx, 'other', cov, [
        'linter results are oracles (Section variables of Model/Lsp.v), tabulated on the real linter for the keys the predictions use',
        'oracle hypotheses (rule lists partition the diagnostic codes; unparseable contents have parse-error diagnostics) are checked on the tabulated values only',
        'quiescence = handler barrier + sentinel drain of every worker + exact accounting of workspace jobs from the debug log (stability window as fallback)',
        'the fsnotify layer of the config watcher is replaced by the harness (events injected into configWatcher.Reload)',
        'burst mode samples real interleavings; only job-atomic schedules are covered by the theorems',
        'not covered: ignored files / ignore patterns, config drop, inline ignore directives, files outside the workspace root, templating of empty files',
    ])
