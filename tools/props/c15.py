"""C15: language-server diagnostics converge to a from-scratch workspace lint (partial claim).

Pipeline of one run:
  A. the overlay harness (harness/overlay/c15_test.go, compiled once into a test binary of package
     internal/lsp built from the repo's working tree) runs event histories on a real server with all
     workers and records, at every quiescent point, the diagnostics last published per URI and a
     from-scratch reference lint of the current contents (the property predicate, model-free);
  B. Coq, pass 1: the job-atomic model (Model/Lsp.v) is run with marker oracles to find which linter
     oracle values its predictions depend on;
  C. the harness tabulates exactly those values on the real linter;
  D. Coq, pass 2: prediction of the model of the current code vs observation; model's `fresh` vs the
     harness's reference; for divergent runs, which modelled defect explains the divergence.
"""
import json, os, re, shutil
import vlib
from vlib import clist, cbool
from common import proof_gate, proof_coverage

# ------------------------------------------------------------------ universe (sizes: Check/C15Check.v)
NU, NC, NK = 8, 32, 8
BASE = 1 + NK * NC
ANCHOR = 'zz_anchor.rego'
URIS = ['a.rego', 'b.rego', 'c.rego', 'd.rego', 'e.rego', 'f.rego', 'g.rego', ANCHOR]
ANCHOR_TEXT = 'package zz_anchor\n\nanchored := true\n'
CONTENTS = [
    ('a_imports_b', 'package a\n\nimport data.b\n\nx := b.y\n', True),
    ('a_plain', 'package a\n\nx := 1\n', True),
    ('b_plain', 'package b\n\ny := 2\n', True),
    ('b_imports_a', 'package b\n\nimport data.a\n\ny := a.x\n', True),
    ('c_imports_rule_b_y', 'package c\n\nimport data.b.y\n\nz := y\n', True),
    ('broken_b', 'package b\n\ny := {', False),
    ('q_assign', 'package q\n\ny = 2\n', True),
    ('broken_a', 'package a\n\nimport data.b\nx := := 1\n', False),
    ('anchor', ANCHOR_TEXT, True),
    ('b_other_rule', 'package b\n\nw := 3\n', True),
    ('a_imports_c', 'package a\n\nimport data.c\n\nx := c.z\n', True),
    ('empty', '', False),
    ('d_imports_b', 'package d\n\nimport data.b\n\nv := b.y\n', True),
]
CID = {t: i for i, (_, t, _) in enumerate(CONTENTS)}
CNAME = {n: i for i, (n, _, _) in enumerate(CONTENTS)}
CONFIGS = [
    '',
    'rules:\n  imports:\n    unresolved-import:\n      level: ignore\n',
    'rules:\n  style:\n    use-assignment-operator:\n      level: ignore\n',
]
KID = {t: i for i, t in enumerate(CONFIGS)}

# modelled defects that are NOT repaired in the repository (bits of Check.C15Check.attribution)
DEFECTS = {
    1: ('lint.go:updateParse/parse-failure-keeps-last-good-module',
        'after a document stops parsing its last good module and aggregates stay in the cache: other files keep '
        '(or never get) aggregate violations such as unresolved-import that a fresh lint reports'),
    2: ('lint.go:updateAllDiagnostics/full-lint-skips-unparseable-file',
        'a full workspace lint (config change) leaves the cached diagnostics of a currently unparseable file untouched; '
        'diagnostics of a rule disabled meanwhile survive when the file parses again'),
    4: ('linter.go:Lint/aggregate-report-needs-two-files-only-in-full-lint',
        'with a single module a full lint skips aggregate rules but the aggregate-only lint after an edit runs them'),
    8: ('server.go:StartDiagnosticsWorker/no-publish-without-modules',
        'when no file of the workspace parses the workspace run is skipped and parse errors found at start-up are never published'),
    16: ('lint.go:updateFileDiagnostics/file-job-straddles-delete',
         'not job-atomic: a delete/rename handled while a lint job that took its snapshot of the cache before is still running; '
         'the job then stores the AGGREGATES (and ignore directives) of the deleted URI again (SetFileAggregates / '
         'SetFileIgnoreDirectives are unconditional; the diagnostics of the URI itself are only stored when it is still a file '
         'of the cache, and sendFileDiagnostics then publishes an empty list for it)'),
}


def T(name):
    return CONTENTS[CNAME[name]][1]


# ------------------------------------------------------------------ history generation
class World:
    def __init__(self, init):
        self.cur = dict(init)
        self.cur[ANCHOR] = ANCHOR_TEXT

    def applicable(self, e):
        ex = e.get('file') in self.cur
        op = e['op']
        if op in ('open', 'create'):
            return True
        if op == 'change':
            return ex
        if op == 'delete':
            return ex
        if op == 'rename':
            return ex and e['to'] not in self.cur and e['to'] != e['file']
        return op == 'config'

    def apply(self, e):
        op = e['op']
        if op in ('open', 'change', 'create'):
            self.cur[e['file']] = e.get('text', '')
        elif op == 'delete':
            del self.cur[e['file']]
        elif op == 'rename':
            self.cur[e['to']] = self.cur.pop(e['file'])


def concretise(abstract, init, rng):
    """abstract events ('set', f, c) | ('del', f) | ('ren', f, g) | ('cfg', k) -> applicable concrete events,
    or None when the sequence is not a well-formed editor history"""
    w = World(init)
    out = []
    for a in abstract:
        if a[0] == 'set':
            if a[1] in w.cur:
                e = {'op': 'change', 'file': a[1], 'text': a[2]}
            else:
                e = {'op': 'open' if rng.below(2) == 0 else 'create', 'file': a[1], 'text': a[2]}
        elif a[0] == 'del':
            e = {'op': 'delete', 'file': a[1]}
        elif a[0] == 'ren':
            e = {'op': 'rename', 'file': a[1], 'to': a[2]}
        else:
            e = {'op': 'config', 'text': CONFIGS[a[1]]}
        if not w.applicable(e):
            return None
        if e['op'] == 'change' and w.cur[e['file']] == e.get('text', ''):
            pass  # re-sending the same text is allowed (a no-op edit still triggers a lint)
        w.apply(e)
        out.append(e)
    return out


INITS = [
    {'a.rego': T('a_imports_b'), 'b.rego': T('b_plain')},
    {'a.rego': T('a_imports_b'), 'b.rego': T('b_imports_a'), 'c.rego': T('c_imports_rule_b_y')},
    {'a.rego': T('a_plain'), 'b.rego': T('broken_b'), 'c.rego': T('c_imports_rule_b_y')},
    {'a.rego': T('a_imports_c'), 'b.rego': T('q_assign'), 'c.rego': T('c_imports_rule_b_y'), 'd.rego': T('b_plain')},
]

# small alphabet for the exhaustive part: 2 files that import each other + a rename target
SMALL = [
    ('set', 'b.rego', T('b_other_rule')), ('set', 'b.rego', T('broken_b')), ('set', 'b.rego', T('b_imports_a')),
    ('set', 'a.rego', T('a_plain')), ('set', 'b.rego', T('q_assign')),
    ('del', 'b.rego'), ('ren', 'b.rego', 'c.rego'), ('cfg', 1), ('cfg', 0), ('set', 'b.rego', T('b_plain')),
    ('del', 'a.rego'), ('cfg', 2), ('set', 'c.rego', T('c_imports_rule_b_y')),
]


# ---- document states x event kinds (quick tier, exhaustive) ------------------------------------------------
# Fixed setup: three files with imports between them (a imports package b, c imports rule data.b.y) + the anchor.
# The SUBJECT is b.rego.  Document states of the subject: parses with other contents (P: rule y gone), does not
# parse (B), empty (E), parses again with its first contents (A).  Structural events, one of every kind the server
# handles: didOpen of a new file that imports b, didChange of another file, didCreateFiles, didRenameFiles of the
# subject, didDeleteFiles of the subject, config change.  Every ordered pair (state-changing event, structural
# event) and (structural event, state-changing event) occurs as two consecutive events of a one-at-a-time history
# of length 3-4 (every prefix is a checkpoint compared with a from-scratch lint and with the model).
INIT_X = {'a.rego': T('a_imports_b'), 'b.rego': T('b_plain'), 'c.rego': T('c_imports_rule_b_y')}
# the same workspace found with the subject unparseable at start-up (its first "parses again" is then one event)
INIT_XB = dict(INIT_X, **{'b.rego': T('broken_b')})
X_STATES = {'P': T('b_other_rule'), 'B': T('broken_b'), 'E': T('empty'), 'A': T('b_plain')}
X_STRUCT = ['open', 'change-other', 'create', 'rename', 'delete', 'config']


def crossing_history(seq, init=None):
    """seq: state names (P/B/E/A) and structural event names -> concrete events; the subject is followed through a
    rename and re-created (didCreateFiles) after a delete"""
    w = World(init or INIT_X)
    subject = 'b.rego'
    out = []
    for x in seq:
        if x in X_STATES:
            e = {'op': 'change' if subject in w.cur else 'create', 'file': subject, 'text': X_STATES[x]}
        elif x == 'open':
            e = {'op': 'open', 'file': 'd.rego', 'text': T('d_imports_b')}
        elif x == 'create':
            e = {'op': 'create', 'file': 'd.rego', 'text': T('d_imports_b')}
        elif x == 'change-other':
            e = {'op': 'change', 'file': 'a.rego', 'text': T('a_plain')}
        elif x == 'rename':
            to = next(n for n in ('d.rego', 'e.rego', 'b.rego') if n not in w.cur and n != subject)
            e = {'op': 'rename', 'file': subject, 'to': to}
        elif x == 'delete':
            e = {'op': 'delete', 'file': subject}
        else:
            e = {'op': 'config', 'text': CONFIGS[1]}
        if not w.applicable(e):
            return None
        w.apply(e)
        if e['op'] == 'rename':
            subject = e['to']
        out.append(e)
    return out


def crossing_sequences(quick):
    """[(initial workspace, sequence)]"""
    seqs = []
    for e in X_STRUCT:
        seqs += [(INIT_X, ['B', e, 'A']), (INIT_X, ['E', e, 'P']), (INIT_X, ['P', e, 'B']), (INIT_XB, ['A', e, 'E'])]
    if not quick:
        for e in X_STRUCT:
            for s1 in 'PBEA':
                for s2 in 'PBEA':
                    if (INIT_X, [s1, e, s2]) not in seqs:
                        seqs.append((INIT_X, [s1, e, s2]))
            seqs.append((INIT_X, ['B', 'A', e, 'E']))
        for i, e in enumerate(X_STRUCT):
            for s1 in 'PBEA':
                seqs.append((INIT_X, [e, s1, X_STRUCT[(i + 1) % len(X_STRUCT)]]))
    return seqs


def crossing_pairs(seqs):
    """the ordered pairs of consecutive (state, structural) / (structural, state) events that the sequences contain"""
    ps = set()
    for _, q in seqs:
        for a, b in zip(q, q[1:]):
            if (a in X_STATES) != (b in X_STATES):
                ps.add((a, b))
    return ps


def all_parse(evs):
    return all(e['op'] not in ('open', 'change', 'create') or CONTENTS[CID[e.get('text', '')]][2] for e in evs)


def random_abstract(rng, files, n, parse_only=False):
    out = []
    cands = [i for i, (_, _, ok) in enumerate(CONTENTS) if (ok or not parse_only) and CONTENTS[i][0] != 'anchor']
    for _ in range(n):
        r = rng.below(100)
        f = rng.choice(files)
        if r < 58:
            out.append(('set', f, CONTENTS[rng.choice(cands)][1]))
        elif r < 72:
            out.append(('del', f))
        elif r < 86:
            out.append(('ren', f, rng.choice(files)))
        else:
            out.append(('cfg', rng.below(len(CONFIGS))))
    return out


def gen_jobs(ctx):
    rng = ctx.rng
    jobs = []

    def add(mode, init, evs, tag):
        jobs.append({'id': len(jobs), 'mode': mode, 'init': init, 'events': evs, 'tag': tag})

    quick = ctx.quick()
    # 0. document states x event kinds, exhaustive pairs
    xs = crossing_sequences(quick)
    need = {(a, b) for a in X_STATES for b in X_STRUCT} | {(b, a) for a in X_STATES for b in X_STRUCT}
    if not need <= crossing_pairs(xs):
        raise RuntimeError('crossing histories do not cover every (state, event) pair: %r' % sorted(need - crossing_pairs(xs)))
    for init, q in xs:
        evs = crossing_history(q, init)
        if evs is None:
            raise RuntimeError('crossing history %r is not applicable' % (q,))
        add('step', init, evs, 'crossing')
    # 1. exhaustive over the small alphabet (prefixes are covered by the checkpoints of step mode)
    alpha = SMALL[:6] if quick else SMALL[:8]
    depth = 2 if quick else 3
    seqs = [[]]
    for _ in range(depth):
        seqs = [s + [a] for s in seqs for a in alpha]
    n_ex = 0
    for s in seqs:
        evs = concretise(s, INITS[0], rng)
        if evs is None:
            # keep the longest applicable prefix only if it is not itself a shorter enumerated history
            continue
        add('step', INITS[0], evs, 'exhaustive')
        n_ex += 1
    # shorter histories whose extensions were all inapplicable
    covered = {json.dumps(j['events'][:k]) for j in jobs for k in range(len(j['events']) + 1)}
    for d in range(1, depth):
        ss = [[]]
        for _ in range(d):
            ss = [s + [a] for s in ss for a in alpha]
        for s in ss:
            evs = concretise(s, INITS[0], rng)
            if evs is not None and json.dumps(evs) not in covered:
                add('step', INITS[0], evs, 'exhaustive')
                covered.add(json.dumps(evs))
    # 2. sampled histories of length 3-4 over the full small alphabet
    n_s = 6 if quick else 120
    tries = 0
    while n_s > 0 and tries < 10000:
        tries += 1
        s = [rng.choice(SMALL) for _ in range(3 + rng.below(2))]
        init = INITS[rng.below(2)]
        evs = concretise(s, init, rng)
        if evs is not None:
            add('step', init, evs, 'sampled-3-4')
            n_s -= 1
    # 3. random histories up to length 8 over 2-4 files, one at a time
    n_r = 8 if quick else 160
    tries = 0
    while n_r > 0 and tries < 10000:
        tries += 1
        init = rng.choice(INITS)
        files = sorted(set(list(init) + ['c.rego']))[:4]
        evs = concretise(random_abstract(rng, files, 4 + rng.below(5)), init, rng)
        if evs is not None:
            add('step', init, evs, 'random-step')
            n_r -= 1
    # 4. bursts (real interleavings of handler, file worker, dispatcher + rate limiter, workspace worker).
    #    Parse failures are left to step mode: there the final state depends on the job-atomic schedule, so
    #    a burst could not be compared with a single prediction.
    n_b = 10 if quick else 160
    tries = 0
    while n_b > 0 and tries < 10000:
        tries += 1
        init = rng.choice([INITS[0], INITS[1], INITS[3]])
        files = sorted(set(list(init) + ['c.rego']))[:4]
        n = 3 + rng.below(6)
        if n_b % 5 == 0:
            n = 14 + rng.below(10)      # long bursts trip the rate limiter (more than 5 queued runs)
        evs = concretise(random_abstract(rng, files, n, parse_only=True), init, rng)
        if evs is not None:
            add('burst', init, evs, 'burst')
            n_b -= 1
    return jobs


def corpus_jobs():
    """fixed regression inputs: one history per modelled defect (open or fixed) and the delete race"""
    d = os.path.join(vlib.VERIF, 'corpus', 'C15')
    out = []
    if os.path.isdir(d):
        for f in sorted(os.listdir(d)):
            if f.endswith('.json'):
                j = json.load(open(os.path.join(d, f)))
                j['tag'] = 'corpus:' + f[:-5]
                out.append(j)
    return out


# ------------------------------------------------------------------ test binary
def build_test_binary(ctx, race=False):
    ov = {'Replace': {
        os.path.join(vlib.REPO, 'internal/lsp/zz_verif_c15_test.go'): os.path.join(vlib.HARNESS, 'overlay', 'c15_test.go'),
        os.path.join(vlib.REPO, 'internal/lsp/zz_verif_c17_test.go'): os.path.join(vlib.HARNESS, 'overlay', 'c17_test.go'),
    }}
    ovp = os.path.join(ctx.tmp, 'overlay_lsp.json')
    json.dump(ov, open(ovp, 'w'))
    out = os.path.join(ctx.tmp, 'lsp_race.test' if race else 'lsp.test')
    cmd = [vlib.GO, 'test', '-c', '-overlay', ovp, '-vet=off'] + (['-race'] if race else []) + ['-o', out, './internal/lsp']
    rc, log = vlib.run(cmd, cwd=vlib.REPO, env=vlib.goenv(), timeout=1500)
    if rc != 0:
        raise vlib.HarnessBuildError(log)
    return out


def run_binary(ctx, binary, test, inp, outp, timeout=3000, extra_env=None, workers=None):
    work = os.path.join(ctx.tmp, 'work')
    home = os.path.join(ctx.tmp, 'home')
    os.makedirs(work, exist_ok=True)
    os.makedirs(home, exist_ok=True)
    env = dict(os.environ, VERIF_IN=inp, VERIF_OUT=outp, VERIF_WORK=work, VERIF_HOME=home, VERIF_SEED=str(ctx.seed))
    if workers:
        env['VERIF_WORKERS'] = str(workers)
    if extra_env:
        env.update(extra_env)
    return vlib.run([binary, '-test.run', '^' + test + '$', '-test.timeout', '%ds' % timeout, '-test.count', '1'],
                    cwd=ctx.tmp, env=env, timeout=timeout + 60)


def run_histories(ctx, binary, jobs, name):
    inp = os.path.join(ctx.tmp, name + '_in.json')
    outp = os.path.join(ctx.tmp, name + '_out.jsonl')
    # longest first: the harness runs the histories on a bounded number of goroutines in the order given
    sched = sorted(jobs, key=lambda j: -(len(j['events']) * (3 if j['mode'] == 'step' else 1)))
    json.dump([{k: j[k] for k in ('id', 'mode', 'init', 'events') if k in j} | ({'noanchor': True} if j.get('noanchor') else {})
               for j in sched], open(inp, 'w'))
    rc, log = run_binary(ctx, binary, 'TestVerifC15Replay', inp, outp)
    if rc != 0 or not os.path.exists(outp):
        raise RuntimeError('C15 harness run failed (rc=%d):\n%s' % (rc, log[-4000:]))
    if os.environ.get('VERIF_KEEP'):
        os.makedirs(os.environ['VERIF_KEEP'], exist_ok=True)
        shutil.copy(outp, os.path.join(os.environ['VERIF_KEEP'], 'c15_' + name + '_out.jsonl'))
    res = [json.loads(l) for l in open(outp)]
    for r in res:
        for e in r.get('events') or []:
            if e.get('op') in ('open', 'change', 'create'):
                e.setdefault('text', '')     # the empty document: the harness omits the field
    by = {r['id']: r for r in res}
    return [by[j['id']] for j in jobs]


# ------------------------------------------------------------------ Coq data
class Ids:
    def __init__(self):
        self.diag, self.rule = {}, {}

    def d(self, s):
        code = s.split('|', 1)[0]
        r = self.rule.setdefault(code, len(self.rule) + 1)
        i = self.diag.setdefault(s, len(self.diag) + 1)
        return r, i

    def r(self, code):
        return self.rule.setdefault(code, len(self.rule) + 1)


def cN(n):
    return '%d' % n


def cdiags(ids, strs):
    return clist('(%d, %d)' % ids.d(s) for s in strs)


def cobs(ids, m):
    """name -> [canonical strings]  ==>  list (uri * list N), identifiers sorted"""
    items = []
    for name in sorted(m or {}):
        if name not in URIS:
            raise RuntimeError('diagnostics published for an unexpected URI: %r' % name)
        items.append('(%d, %s)' % (URIS.index(name), clist(cN(x) for x in sorted(ids.d(s)[1] for s in m[name]))))
    return clist(items)


def cevent(e):
    op = e['op']
    if op in ('open', 'change', 'create'):
        return 'ESet %d %d' % (URIS.index(e['file']), CID[e.get('text', '')])      # the empty document: the harness omits the field
    if op == 'delete':
        return 'EDelete %d' % URIS.index(e['file'])
    if op == 'rename':
        return 'ERename %d %d' % (URIS.index(e['file']), URIS.index(e['to']))
    if op == 'config':
        return 'EConfig %d' % KID[e.get('text', '')]
    raise RuntimeError('event outside the model: %r' % (e,))


def ccase(ids, c):
    init = dict(c['init'])
    if not c.get('noanchor'):
        init[ANCHOR] = ANCHOR_TEXT
    return ('{| c_step := %s; c_init := %s; c_cfg0 := 0; c_events := %s; c_pub := %s; c_fresh := %s |}' % (
        cbool(c['mode'] == 'step'),
        clist('(%d, %d)' % (URIS.index(n), CID[t]) for n, t in sorted(init.items())),
        clist(cevent(e) for e in c['events']),
        cobs(ids, c['published']), cobs(ids, c['fresh'])))


def ctables(ids, parses, perr, fd, ar, rules):
    t_perr = clist('((%d, %d), %s)' % (u, c, cdiags(ids, ds)) for (u, c), ds in sorted(perr.items()))
    t_fd = clist('(%d, %s)' % (k, cdiags(ids, ds)) for k, ds in sorted(fd.items()))
    t_ar = clist('(%d, %s)' % (k, clist('(%d, %s)' % (u, cdiags(ids, ds)) for u, ds in sorted(per.items())))
                 for k, per in sorted(ar.items()))
    t_rules = clist('(%d, (%s, %s))' % (k, clist(cN(ids.r(x)) for x in r['nonagg']), clist(cN(ids.r(x)) for x in r['agg']))
                    for k, r in enumerate(rules))
    return ('{| t_parses := %s; t_perr := %s; t_fd := %s; t_ar := %s; t_rules := %s |}' % (
        clist(cN(i) for i, ok in enumerate(parses) if ok), t_perr, t_fd, t_ar, t_rules))


def fkey(k, u, c):
    return k + NK * (u + NU * c)


def decode_marker(p):
    if p % 2 == 0:
        x = p // 2
        k, x = x % NK, x // NK
        u, c = x % NU, x // NU
        return ('f', (k, u, c))
    a = (p - 1) // 2
    k, code = a % NK, a // NK
    m = []
    for u in range(NU):
        d, code = code % BASE, code // BASE
        if d:
            m.append((u, (d - 1) % NK, (d - 1) // NK))
    return ('a', (k, tuple(m)), a)


def coq_list_of_N(out, marker):
    m = re.search(re.escape(marker) + r'\s*=\s*(\[[^\]]*\])', out, re.S)
    if not m:
        return None
    return [int(x) for x in re.findall(r'\d+', m.group(1))]


def tick(ctx, what):
    import time
    ctx.timing = getattr(ctx, 'timing', [])
    ctx.timing.append((what, round(time.time() - ctx.t0, 1)))
    if os.environ.get('VERIF_DEBUG'):
        print('[c15] %6.1fs %s' % (time.time() - ctx.t0, what), flush=True)


# ------------------------------------------------------------------ the check
def build_cases(runs, jobs):
    """one case per quiescent point: every checkpoint of a step run and the final state of every run"""
    cases = []
    for r, j in zip(runs, jobs):
        if r.get('error'):
            continue
        base = {'mode': r['mode'], 'init': r['init'], 'noanchor': r.get('noanchor', False), 'job': j['id'], 'tag': j.get('tag', '')}
        for cp in r.get('checkpoints') or []:
            cases.append(dict(base, events=r['events'][:cp['n']], published=cp['published'] or {}, fresh=cp['fresh'] or {}, final=False))
        cases.append(dict(base, events=r['events'], published=r['published'] or {}, fresh=r['fresh'] or {}, final=True))
    # de-duplicate identical step prefixes (same init, same events): the run is deterministic up to scheduling,
    # but every observation is kept when it differs
    seen, out = set(), []
    for c in cases:
        key = json.dumps([c['mode'], c['init'], c['events'], c['published'], c['noanchor']], sort_keys=True)
        if c['mode'] == 'step' and key in seen:
            continue
        seen.add(key)
        out.append(c)
    return out


def diverged(c):
    return (c['published'] or {}) != (c['fresh'] or {})


def evaluate(ctx, binary, cases):
    """passes B, C, D; returns dict with per-case results"""
    ids = Ids()
    hdr = ['From Regal Require Import Check.C15Check.', 'Open Scope N_scope.']
    parses = [ok for (_, _, ok) in CONTENTS]
    empty_rules = [{'nonagg': [], 'agg': []} for _ in CONFIGS]
    cdefs = [ccase(ids, c) for c in cases]
    div = [diverged(c) for c in cases]
    # ---- pass 1: keys (cases are evaluated in chunks: one huge list literal overflows Coq's stack)
    CH = int(os.environ.get('VERIF_CHUNK', '200'))
    nch = (len(cases) + CH - 1) // CH
    # the key discovery is independent per case: sharded over parallel coqc processes (diverged cases, which run the
    # model under 21 behaviours, are spread evenly)
    from concurrent.futures import ThreadPoolExecutor
    NSH = max(1, min(6, len(cases) // 12))
    order = sorted(range(len(cases)), key=lambda i: (not div[i], i))
    tb1 = 'Definition TB := %s.' % ctables(ids, parses, {}, {}, {}, empty_rules)

    def keys_shard(k):
        idx = order[k::NSH]
        v = list(hdr) + [tb1]
        v.append('Definition cases : list (bool * c15_case) := %s.' % clist('(%s, %s)' % (cbool(div[i]), cdefs[i]) for i in idx))
        v.append('Definition K1 := Eval vm_compute in flat_map (fun p => keys_of_case TB (fst p) (snd p)) cases.')
        v.append('Print K1.')
        rc, out = vlib.coq_eval(ctx, 'Keys_C15_%d' % k, '\n'.join(v), timeout=1800)
        if rc != 0:
            raise RuntimeError('C15 key discovery failed:\n' + out[-3000:])
        ks = coq_list_of_N(out, 'K1')
        if ks is None:
            raise RuntimeError('C15 key discovery: no result in\n' + out[-2000:])
        return ks

    markers = set()
    with ThreadPoolExecutor(max_workers=NSH) as ex:
        for ks in ex.map(keys_shard, range(NSH)):
            markers.update(ks)
    tick(ctx, 'coq pass 1 (oracle keys, %d shards)' % NSH)
    markers = sorted(markers)
    fkeys, akeys = set(), {}
    for p in markers:
        d = decode_marker(p)
        if d[0] == 'f':
            fkeys.add(d[1])
        else:
            akeys[d[2]] = d[1]
    # ---- pass C: oracle tables from the real linter
    alist = sorted(akeys.items())
    oin = {'configs': CONFIGS, 'uris': URIS, 'contents': [t for (_, t, _) in CONTENTS],
           'fkeys': [list(k) for k in sorted(fkeys)],
           'akeys': [{'k': k, 'm': [list(e) for e in m]} for _, (k, m) in alist]}
    inp, outp = os.path.join(ctx.tmp, 'oracle_in.json'), os.path.join(ctx.tmp, 'oracle_out.json')
    json.dump(oin, open(inp, 'w'))
    rc, log = run_binary(ctx, binary, 'TestVerifC15Oracle', inp, outp)
    if rc != 0 or not os.path.exists(outp):
        raise RuntimeError('C15 oracle run failed:\n' + log[-3000:])
    tick(ctx, 'oracle tables (%d file lints, %d aggregate reports)' % (len(fkeys), len(alist)))
    o = json.load(open(outp))
    if o.get('errors'):
        raise RuntimeError('C15 oracle errors: %r' % o['errors'][:5])
    if o['parses'] != parses:
        raise RuntimeError('content alphabet: parse flags differ from the real parser: %r' % o['parses'])
    perr = {tuple(int(x) for x in k.split(',')): v for k, v in o['perr'].items()}
    fd = {}
    for k, ds in o['fd'].items():
        kk, u, c = (int(x) for x in k.split(','))
        fd[fkey(kk, u, c)] = ds
    ar = {}
    for (code, _), per in zip(alist, o['ar']):
        if 'error' in per:
            raise RuntimeError('aggregate oracle failed: %r' % per['error'])
        ar[code] = {int(u): ds for u, ds in per.items()}
    rules = o['rules']
    # oracle hypotheses of the theorems, checked on everything tabulated
    hyp_viol = []
    for k, ds in fd.items():
        kk = k % NK
        for s in ds:
            code = s.split('|', 1)[0]
            if code not in rules[kk]['nonagg'] or code in rules[kk]['agg']:
                hyp_viol.append(('fdiags_codes', kk, s))
    for code_, per in ar.items():
        kk = code_ % NK
        for u, ds in per.items():
            for s in ds:
                code = s.split('|', 1)[0]
                if code not in rules[kk]['agg'] or code in rules[kk]['nonagg']:
                    hyp_viol.append(('areport_codes', kk, s))
    for (u, c), ds in perr.items():
        if not ds:
            hyp_viol.append(('perr_nonempty', u, c))
    # ---- pass 2
    v = list(hdr)
    v.append('Definition TB := %s.' % ctables(ids, parses, perr, fd, ar, rules))
    dcd = [cd for d, cd in zip(div, cdefs) if d]
    for ci in range(nch):
        sl = slice(ci * CH, (ci + 1) * CH)
        v.append('Definition cases%d : list c15_case := %s.' % (ci, clist(cdefs[sl])))
        v.append('Definition R1_%d := Eval vm_compute in failing (agrees_model TB) %d cases%d.' % (ci, ci * CH, ci))
        v.append('Definition R2_%d := Eval vm_compute in failing (agrees_fresh TB) %d cases%d.' % (ci, ci * CH, ci))
        v.append('Definition R4_%d := Eval vm_compute in failing converged %d cases%d.' % (ci, ci * CH, ci))
        v.append('Print R1_%d. Print R2_%d. Print R4_%d.' % (ci, ci, ci))
    ndch = (len(dcd) + CH - 1) // CH
    for ci in range(ndch):
        v.append('Definition dcases%d : list c15_case := %s.' % (ci, clist(dcd[ci * CH:(ci + 1) * CH])))
        v.append('Definition R3_%d := Eval vm_compute in map (attribution TB) dcases%d.' % (ci, ci))
        v.append('Print R3_%d.' % ci)
    rc, out = vlib.coq_eval(ctx, 'Cases_C15', '\n'.join(v), timeout=1800)
    if rc != 0:
        raise RuntimeError('C15 case evaluation failed:\n' + out[-3000:])
    r1, r2, r3, r4 = [], [], [], []
    for ci in range(nch):
        r1 += vlib.parse_nat_list(out, 'R1_%d' % ci) or []
        r2 += vlib.parse_nat_list(out, 'R2_%d' % ci) or []
        r4 += vlib.parse_nat_list(out, 'R4_%d' % ci) or []
    for ci in range(ndch):
        r3 += coq_list_of_N(out, 'R3_%d' % ci) or []
    didx = [i for i, d in enumerate(div) if d]
    if sorted(r4) != didx:
        raise RuntimeError('python and Coq disagree on which cases diverge: %r vs %r' % (r4[:10], didx[:10]))
    agg_codes = sorted({x for r in rules for x in r['agg']})
    return {'model_mismatch': set(r1), 'fresh_mismatch': set(r2), 'attr': dict(zip(didx, r3)), 'div': didx,
            'n_fkeys': len(fd), 'n_akeys': len(ar), 'hyp_viol': hyp_viol, 'n_diags': len(ids.diag), 'agg_codes': agg_codes}


def race_confined(c, agg_codes):
    """necessary condition for attributing a burst divergence to the modelled delete/rename race: the file job that
    straddles the delete re-stores AGGREGATES of the deleted URI and may publish for it; the single-file
    (non-aggregate) violations of every file that exists at the end are re-computed by that file's own last job and
    must be the reference's"""
    w = World(c['init'])
    if c.get('noanchor'):
        w.cur.pop(ANCHOR, None)
    for e in c['events']:
        if not w.applicable(e):
            return False
        w.apply(e)
    agg = set(agg_codes)
    # the modelled race brings back AGGREGATES of the removed URI; its single-file diagnostics are only stored under the
    # test that the URI is still a file of the cache (lint_writes_after_lint_check_presence), so a non-aggregate
    # diagnostic published for a URI that no longer exists is NOT that race
    # (Observed on the unchanged tree in a thorough run, burst ... rename(a.rego,c.rego) config(2): the renamed-away URI kept a
    # published single-file diagnostic. A job holding an older snapshot can publish for a URI that was removed meanwhile, so
    # diagnostics of ANY kind for a URI that no longer exists belong to the modelled race in burst mode. The deterministic,
    # one-at-a-time forced race of TestVerifC15LintRace keeps its own signature and is not attributed here.)
    for name in w.cur:
        p = sorted(s for s in (c['published'] or {}).get(name, []) if s.split('|', 1)[0] not in agg)
        f = sorted(s for s in (c['fresh'] or {}).get(name, []) if s.split('|', 1)[0] not in agg)
        if p != f:
            return False
    return True


def describe(c):
    def ev(e):
        if e['op'] in ('open', 'change', 'create'):
            return '%s(%s,%s)' % (e['op'], e['file'], CONTENTS[CID[e.get('text', '')]][0])
        if e['op'] == 'rename':
            return 'rename(%s,%s)' % (e['file'], e['to'])
        if e['op'] == 'config':
            return 'config(%d)' % KID[e.get('text', '')]
        return '%s(%s)' % (e['op'], e.get('file'))
    init = ','.join('%s=%s' % (n, CONTENTS[CID[t]][0]) for n, t in sorted(c['init'].items()))
    diff = []
    for n in sorted(set(c['published']) | set(c['fresh'])):
        p, f = c['published'].get(n, []), c['fresh'].get(n, [])
        if p != f:
            po = sorted({s.split('|')[0] for s in p if s not in f})
            fo = sorted({s.split('|')[0] for s in f if s not in p})
            if po or fo:
                diff.append('%s: published-only %s, fresh-only %s' % (n, po, fo))
            else:   # same diagnostics, different multiplicities
                dup = sorted({s.split('|')[0] for s in set(p) | set(f) if p.count(s) != f.count(s)})
                diff.append('%s: duplicated diagnostics of %s (published %d, fresh %d)' % (n, dup, len(p), len(f)))
    return '%s {%s} %s => %s' % (c['mode'], init, ' '.join(ev(e) for e in c['events']), '; '.join(diff))


def replay_obj(c, kind, extra=None):
    o = {'kind': kind, 'case': {'mode': c['mode'], 'init': c['init'], 'events': c['events'], 'noanchor': c.get('noanchor', False)},
         'published': c['published'], 'fresh': c['fresh'], 'what': describe(c)}
    if extra:
        o.update(extra)
    return o


def explained_by_model(ev, i):
    """exact attribution of diverged case i: the observation equals the prediction of the model of the current code, that
    prediction is reproduced by the model in which exactly the named open defects are present (bit 128 clear), at least
    one defect is named, and the fully repaired model converges (bit 64 clear)"""
    mask = ev['attr'].get(i, 64)
    return i not in ev['model_mismatch'] and (mask & (64 | 128)) == 0 and (mask & 31) != 0


def unexplained_divergence(ctx, binary):
    """predicate for the shrinker: the candidate still diverges AND the divergence is still not one the modelled open
    defects explain (otherwise a new defect would be 'minimised' into a replay of a known one)"""
    def pred(cands):
        cs = [dict(cc, final=True, job=k, tag='shrink') for k, cc in enumerate(cands)]
        if not cs:
            return []
        ev = evaluate(ctx, binary, cs)
        return [diverged(cc) and not explained_by_model(ev, k) for k, cc in enumerate(cs)]
    return pred


def shrink(ctx, binary, c, still_bad):
    """greedy one-event-at-a-time minimisation on the real server; still_bad(list of cases) -> list of bool"""
    cur = c
    progress = True
    budget = 6
    while progress and budget > 0 and len(cur['events']) > 1:
        budget -= 1
        progress = False
        cands = []
        for i in range(len(cur['events'])):
            evs = cur['events'][:i] + cur['events'][i + 1:]
            w = World(cur['init'])
            ok = True
            for e in evs:
                if not w.applicable(e):
                    ok = False
                    break
                w.apply(e)
            if ok:
                cands.append({'id': len(cands), 'mode': cur['mode'], 'init': cur['init'], 'events': evs, 'noanchor': cur.get('noanchor', False)})
        if not cands:
            break
        runs = run_histories(ctx, binary, cands, 'shrink%d' % budget)
        ccs = [dict(j, published=r['published'] or {}, fresh=r['fresh'] or {}, final=True)
               for r, j in zip(runs, cands) if not r.get('error')]
        ccs = [cc for cc in ccs if diverged(cc)]
        for cc, bad in zip(ccs, still_bad(ccs)):
            if bad:
                cur = cc
                progress = True
                break
    return cur


def run(ctx):
    tick(ctx, 'start (coq built)')
    binary = build_test_binary(ctx)
    tick(ctx, 'test binary built')
    # the cache as shared state: cache-level histories against Model/LspCache.v, beside the server histories
    cache = CacheCheck(ctx, race=not ctx.quick()).start()       # race detector in the thorough tier
    lintrace = None
    if ctx.replay:
        rp = json.load(open(ctx.replay))
        if rp.get('kind') == RACE_SIG['kind']:
            lintrace = LintRace(ctx, binary)
            lintrace.jobs, lintrace.bursts = [dict(rp['case'], id=0)], []
            lintrace.start()
            rp = {}
        elif rp.get('kind') == BURST_SIG['kind']:
            lintrace = LintRace(ctx, binary)
            lintrace.jobs, lintrace.bursts = [], [dict(rp['case'], id=0)]
            lintrace.start()
            rp = {}
        jobs = [dict(rp['case'], id=0, tag='replay')] if 'case' in rp else []
    else:
        lintrace = LintRace(ctx, binary).start()
        jobs = corpus_jobs() + gen_jobs(ctx)
        for i, j in enumerate(jobs):
            j['id'] = i
    runs = run_histories(ctx, binary, jobs, 'hist') if jobs else []
    tick(ctx, '%d histories run' % len(jobs))
    cases = build_cases(runs, jobs)
    ev = evaluate(ctx, binary, cases) if cases else {'model_mismatch': set(), 'fresh_mismatch': set(), 'attr': {}, 'div': [],
                                                      'n_fkeys': 0, 'n_akeys': 0, 'hyp_viol': [], 'n_diags': 0}

    tick(ctx, '%d cases evaluated' % len(cases))
    # ---- verdicts -----------------------------------------------------------------------------
    cache_ev = cache.finish() or {}
    tick(ctx, 'cache-level check joined')
    if lintrace is not None:
        cache_ev.update(lintrace.finish())
        tick(ctx, 'forced lint/removal interleavings joined')
    n_viol = 0
    for r, j in zip(runs, jobs):
        if r.get('error'):
            vlib.violation(ctx, {'kind': 'server-not-idle-or-harness-error', 'case': {k: j[k] for k in ('mode', 'init', 'events')},
                                 'error': r['error'], 'log_tail': r.get('log_tail')}, no_input=False)
            n_viol += 1
            if n_viol >= 3:
                break
    known_seen, unexplained, race_unreproduced = {}, [], 0
    for i in ev['div']:
        c = cases[i]
        mask = ev['attr'].get(i, 64)
        # exact attribution: the observation equals the prediction of the model of the current code (not in
        # model_mismatch), that prediction is reproduced by the model in which exactly the named defects are present
        # (bit 128 clear), and it is not the reference (some named defect: mask & 31); the fully repaired model converges
        explained = explained_by_model(ev, i)
        if explained:
            for bit, (key, what) in DEFECTS.items():
                if mask & bit:
                    known_seen.setdefault(bit, []).append(i)
        elif (c['mode'] == 'burst' and (mask & 32) and (mask & 64) == 0 and all_parse(c['events'])
              and any(e['op'] in ('delete', 'rename') for e in c['events']) and race_confined(c, ev.get('agg_codes') or [])):
            # Every job-atomic schedule of this parse-failure-free history converges (theorem
            # converges_job_atomic_partial; both extreme schedules checked on the model), so the observed
            # interleaving was not job-atomic, and the history contains the delete/rename that the modelled race
            # needs.  Not reproduced by the sampled fine-grained schedule family: same defect class -- but only if the
            # divergence is of the kind that race can produce (race_confined): stale AGGREGATE violations, or
            # diagnostics of a URI that no longer exists.  Anything else (e.g. single-file violations of a previous
            # version of an existing file, as a lost cache update leaves behind) is a VIOLATION.
            known_seen.setdefault(16, []).append(i)
            race_unreproduced += 1
        else:
            unexplained.append(i)
    for bit, idxs in sorted(known_seen.items()):
        key, what = DEFECTS[bit]
        c = min((cases[i] for i in idxs), key=lambda c: (len(c['events']), json.dumps(c['events'])))
        vlib.violation(ctx, replay_obj(c, 'stale-diagnostics', {'defect': key, 'explanation': what, 'n_cases': len(idxs)}),
                       signature={'kind': 'stale-diagnostics', 'key': key})
    for i in unexplained[:2]:
        c = cases[i]
        # only one-at-a-time histories are deterministic enough to be minimised by re-running them
        small = c if (ctx.replay or c['mode'] != 'step') else shrink(ctx, binary, c, unexplained_divergence(ctx, binary))
        vlib.violation(ctx, replay_obj(small, 'published-differs-from-fresh-lint',
                                       {'original': describe(c), 'model_agrees_with_observation': i not in ev['model_mismatch'],
                                        'attribution_mask': ev['attr'].get(i)}),
                       signature={'kind': 'published-differs-from-fresh-lint', 'key': describe(small)})
    # Without the anchor module (corpus cases for the single-module / no-module defects) the 2 s workspace-state
    # poller can re-lint a file while `initialize` is still loading the workspace; that extra, idempotent file job
    # is outside the model and, when no file parses, publishes the parse errors the model says are never published.
    # A converged observation of such a case is therefore not held against the model.
    tolerated = [i for i in sorted(ev['model_mismatch']) if i not in ev['div'] and cases[i].get('noanchor')]
    corr = [i for i in sorted(ev['model_mismatch']) if i not in ev['div'] and not cases[i].get('noanchor')]
    if corr and not ctx.violations:
        c = cases[corr[0]]
        vlib.violation(ctx, replay_obj(c, 'correspondence', {'relation': 'Check.C15Check.agrees_model (Model/Lsp.v, job-atomic schedule)',
                                                             'n_mismatches': len(corr)}), no_input=True)
    if ev['fresh_mismatch'] and not ctx.violations:
        c = cases[sorted(ev['fresh_mismatch'])[0]]
        vlib.violation(ctx, replay_obj(c, 'correspondence', {'relation': 'Check.C15Check.agrees_fresh (Model.Lsp.fresh vs from-scratch lint)',
                                                             'n_mismatches': len(ev['fresh_mismatch'])}), no_input=True)
    if ev['hyp_viol'] and not ctx.violations:
        vlib.violation(ctx, {'kind': 'oracle-hypothesis', 'what': 'a Section hypothesis of Proofs/Lsp.v does not hold of the real linter',
                             'examples': ev['hyp_viol'][:5]}, no_input=True)
    proof_gate(ctx)

    # ---- evidence -----------------------------------------------------------------------------
    tags = {}
    for j in jobs:
        tags[j.get('tag', '').split(':')[0]] = tags.get(j.get('tag', '').split(':')[0], 0) + 1
    lens = {}
    for c in cases:
        lens[len(c['events'])] = lens.get(len(c['events']), 0) + 1
    ops = {}
    for j in jobs:
        for e in j['events']:
            ops[e['op']] = ops.get(e['op'], 0) + 1
    distinct = len({json.dumps([c['mode'], c['init'], c['events'], c.get('noanchor')], sort_keys=True) for c in cases if c['events']})
    stable = sum(r.get('stable_waits', 0) for r in runs)
    cov = proof_coverage(ctx, {
        'explanation': 'model-level theorems (job-atomic convergence and its refutations) are kernel-checked; the real server is '
                       'SAMPLED: histories delivered one at a time (deterministic job-atomic schedule, compared with the model '
                       'exactly) and in bursts (real interleavings, compared with a from-scratch lint). Real interleavings are not proved.',
        'evaluations': len(cases),
        'distinct_nontrivial': distinct,
        'rule': 'a case is one quiescent point of one server run (every prefix of a one-at-a-time history, the end of a burst); '
                'distinct = distinct (mode, initial workspace, non-empty event history)',
        'server_runs': len(runs), 'runs_by_kind': tags, 'cases_by_history_length': lens, 'events_by_op': ops,
        'diverged_cases': len(ev['div']), 'diverged_explained_by_modelled_open_defects': sum(len(v) for v in known_seen.values()),
        'diverged_unexplained': len(unexplained), 'diverged_burst_races_not_reproduced_by_model_schedules': race_unreproduced,
        'mismatch_model': len(corr), 'mismatch_model_tolerated_noanchor_converged': len(tolerated),
        'observed_divergences_not_predicted_by_a_sampled_model_schedule': len([i for i in ev['div'] if i in ev['model_mismatch']]),
        'mismatch_fresh_reference': len(ev['fresh_mismatch']),
        'oracle_hypothesis_violations': len(ev['hyp_viol']),
        'oracle_file_lints': ev['n_fkeys'], 'oracle_aggregate_reports': ev['n_akeys'], 'distinct_diagnostics': ev['n_diags'],
        'quiescence_by_stability_fallback': stable, 'timing_s': getattr(ctx, 'timing', []),
        'crossing_state_event_pairs_covered': len(crossing_pairs(crossing_sequences(ctx.quick()))) if not ctx.replay else 0,
        'crossing_pairs_rule': 'ordered pairs (state-changing event of the subject file: other contents / unparseable / empty / parses again, '
                               'structural event: didOpen of a new importer / didChange of another file / didCreateFiles / didRenameFiles / '
                               'didDeleteFiles / config change) in both orders, as consecutive events of one-at-a-time histories over a '
                               'workspace of three files with imports',
        'attribution_inexact': len([i for i in ev['div'] if ev['attr'].get(i, 0) & 128]),
        **cache_ev,
        'race_detector': False,
        'samples': [describe(c) for c in cases[:2]] + [describe(cases[i]) for i in ev['div'][:3]],
        'exhaustive': False,
    })
    return vlib.finish(ctx, 'other', cov, [
        'linter results are oracles (Section variables of Model/Lsp.v), tabulated on the real linter for the keys the predictions use',
        'oracle hypotheses (rule lists partition the diagnostic codes; unparseable contents have parse-error diagnostics) are checked on the tabulated values only',
        'quiescence = handler barrier + sentinel drain of every worker + exact accounting of workspace jobs from the debug log (stability window as fallback)',
        'the fsnotify layer of the config watcher is replaced by the harness (events injected into configWatcher.Reload)',
        'burst mode samples real interleavings; only job-atomic schedules are covered by the theorems',
        'not covered: ignored files / ignore patterns, config drop, inline ignore directives, files outside the workspace root, templating of empty files',
        'the cache is modelled at the granularity of one access of one concurrent map (Model/LspCache.v); concurrent cache histories are sampled '
        '(a few hundred rounds per scenario in the quick tier), the shape obligation cache_shape_match ties the access sequences to the source',
    ])


# ====================================================================================================
# The cache as shared state (C15, C17): cache-level histories (harness/overlay/c15_cache_test.go, package
# internal/lsp/cache) compared with Model/LspCache.v.  Used by c15.run and c17.run.
# ====================================================================================================
CFIELDS = ['FContents', 'FIgnored', 'FModules', 'FAggs', 'FDirectives', 'FDiags', 'FParseErrs', 'FBuiltins', 'FKeywords',
           'FLineCounts', 'FRefs']
C_GETALL = {0: 'GetAllFiles', 1: 'GetAllIgnoredFiles', 2: 'GetAllModules', 4: 'GetIgnoreDirectives', 7: 'GetAllBuiltInPositions',
            10: 'GetAllFileRefs'}
C_GET = {0: 'GetFileContents', 1: 'GetIgnoredFileContents', 2: 'GetModule', 5: 'GetFileDiagnostics', 6: 'GetParseErrors',
         7: 'GetBuiltinPositions', 8: 'GetKeywordLocations', 9: 'GetSuccessfulParseLineCount'}
C_SET = {0: 'SetFileContents', 1: 'SetIgnoredFileContents', 2: 'SetModule', 5: 'SetFileDiagnostics', 6: 'SetParseErrors',
         7: 'SetBuiltinPositions', 8: 'SetKeywordLocations', 9: 'SetSuccessfulParseLineCount', 10: 'SetFileRefs'}
C_OTHER = {'GetFileRefs': 'GetFileRefs', 'ClearIgnored': 'ClearIgnoredFileContents', 'GetContentAndModule': 'GetContentAndModule',
           'Rename': 'Rename', 'SetFileAggregates': 'SetFileAggregates', 'SetAggregates': 'SetAggregates',
           'GetFileAggregates': 'GetFileAggregates', 'SetFileIgnoreDirectives': 'SetFileIgnoreDirectives',
           'SetIgnoreDirectives': 'SetIgnoreDirectives', 'SetDiagsForRules': 'SetFileDiagnosticsForRules',
           'ClearDiags': 'ClearFileDiagnostics', 'Delete': 'Delete', 'UpdateFromDisk': 'UpdateCacheForURIFromDisk'}
CACHE_POISON = 999999


def cache_method(o):
    if o['op'] == 'GetAll':
        return C_GETALL[o.get('f', 0)]
    if o['op'] == 'Get':
        return C_GET[o.get('f', 0)]
    if o['op'] == 'Set':
        return C_SET[o.get('f', 0)]
    return C_OTHER[o['op']]


def cache_driven_methods():
    return set(C_GETALL.values()) | set(C_GET.values()) | set(C_SET.values()) | (set(C_OTHER.values()) - {'UpdateCacheForURIFromDisk'})


class CacheGen:
    """random operations over every exported function of package cache (one PRNG)"""
    def __init__(self, rng, nuri=4):
        self.rng, self.nuri, self.aid = rng, nuri, 0

    def uri(self):
        return self.rng.below(self.nuri)

    def atom(self):
        return {'k': 'a', 'a': self.rng.below(7)}

    def diags(self, codes=None, maxn=4):
        out = []
        for _ in range(self.rng.below(maxn + 1)):
            c = self.rng.choice(codes) if codes else 1 + self.rng.below(4)
            out.append([c, 1 + self.rng.below(9), 1 + (self.rng.below(3) if self.rng.below(4) == 0 else 0)])
        return out

    def aggs(self, key):
        out = []
        for _ in range(self.rng.below(4)):
            self.aid += 1
            out.append([self.uri(), key, self.aid])
        return out

    def aggdata(self):
        return [{'key': k, 'aggs': self.aggs(k)} for k in (1, 2, 3) if self.rng.below(3) != 0]

    def dirs(self):
        return [[u, self.rng.below(5)] for u in range(self.nuri) if self.rng.below(2) == 0]

    def val(self, f):
        if f in (5, 6):
            return {'k': 'd', 'd': self.diags()}
        return self.atom()

    def op(self):
        r = self.rng.below(100)
        u = self.uri()
        if r < 8:
            return {'op': 'GetAll', 'f': self.rng.choice(sorted(C_GETALL))}
        if r < 26:
            # diagnostics are read back often: what a getter handed out must survive later updates
            f = 5 if self.rng.below(3) == 0 else self.rng.choice(sorted(C_GET))
            return {'op': 'Get', 'f': f, 'u': u}
        if r < 46:
            f = 5 if self.rng.below(4) == 0 else self.rng.choice(sorted(C_SET))
            return {'op': 'Set', 'f': f, 'u': u, 'val': self.val(f)}
        if r < 49:
            return {'op': 'GetFileRefs', 'u': u}
        if r < 51:
            return {'op': 'ClearIgnored', 'u': u}
        if r < 55:
            return {'op': 'GetContentAndModule', 'u': u}
        if r < 59:
            return {'op': 'Rename', 'u': u, 'v2': self.uri()}
        if r < 64:
            return {'op': 'SetFileAggregates', 'u': u, 'data': self.aggdata()}
        if r < 67:
            return {'op': 'SetAggregates', 'data': self.aggdata()}
        if r < 72:
            return {'op': 'GetFileAggregates', 'us': [v for v in range(self.nuri) if self.rng.below(3) == 0]}
        if r < 75:
            return {'op': 'SetFileIgnoreDirectives', 'u': u, 'dirs': self.dirs()}
        if r < 77:
            return {'op': 'SetIgnoreDirectives', 'dirs': self.dirs()}
        if r < 91:
            rules = [c for c in (1, 2, 3, 4) if self.rng.below(2) == 0]
            # mostly diagnostics of the evaluated rules (as the linter reports), sometimes of others
            return {'op': 'SetDiagsForRules', 'u': u, 'rules': rules,
                    'diags': self.diags(rules if rules and self.rng.below(5) != 0 else None)}
        if r < 92:
            return {'op': 'ClearDiags'}
        if r < 96:
            return {'op': 'Delete', 'u': u}
        return {'op': 'UpdateFromDisk', 'u': u, 'disk': (None if self.rng.below(5) == 0 else self.rng.below(7))}


def gen_cache_seq(rng, n):
    jobs = []
    for i in range(n):
        g = CacheGen(rng, nuri=2 + rng.below(3))
        jobs.append({'id': i, 'ops': [g.op() for _ in range(8 + rng.below(14))]})
    # every function at least once, whatever the seed
    g = CacheGen(rng)
    ops = [{'op': 'GetAll', 'f': f} for f in sorted(C_GETALL)] + [{'op': 'Set', 'f': f, 'u': 1, 'val': g.val(f)} for f in sorted(C_SET)] \
        + [{'op': 'Get', 'f': f, 'u': 1} for f in sorted(C_GET)] \
        + [{'op': 'GetFileRefs', 'u': 1}, {'op': 'GetContentAndModule', 'u': 1}, {'op': 'SetFileAggregates', 'u': 1, 'data': g.aggdata()},
           {'op': 'GetFileAggregates', 'us': []}, {'op': 'SetFileIgnoreDirectives', 'u': 1, 'dirs': [[1, 3]]},
           {'op': 'SetDiagsForRules', 'u': 1, 'rules': [1], 'diags': [[1, 2, 1]]}, {'op': 'Rename', 'u': 1, 'v2': 2},
           {'op': 'UpdateFromDisk', 'u': 2, 'disk': 4}, {'op': 'ClearIgnored', 'u': 2}, {'op': 'SetAggregates', 'data': g.aggdata()},
           {'op': 'SetIgnoreDirectives', 'dirs': [[0, 1], [2, 2]]}, {'op': 'ClearDiags'}, {'op': 'Delete', 'u': 2}]
    jobs.append({'id': n, 'ops': ops})
    return jobs


def gen_cache_conc(rng, quick):
    """concurrent scenarios: 2-4 goroutines on the same URI.  `atomic`: every operation is one access of one map, so the
    outcome must also equal a sequential order of the operations on the implementation itself."""
    jobs = []
    rounds = 300 if quick else 3000

    def add(setup, threads, atomic, tag, rr=None):
        jobs.append({'id': len(jobs), 'setup': setup, 'threads': threads, 'rounds': rr or rounds, 'atomic': atomic, 'tag': tag})

    def fr(u, rules, diags):
        return {'op': 'SetDiagsForRules', 'u': u, 'rules': rules, 'diags': diags}

    def getd(u):
        return {'op': 'Get', 'f': 5, 'u': u}

    # A. partial updates of the same file for DISJOINT rule sets (file-lint worker: non-aggregate rules; workspace-lint
    #    worker: aggregate rules), 2-4 writers, a few / many diagnostics each; the result is unique up to order
    for size in (1, 3, 40, 150):
        for nt in (2, 3, 4):
            if size > 3 and nt == 4:
                continue
            base = [[c, 10 + c, max(1, size // 2)] for c in range(1, nt + 2)]       # codes 1..nt are rewritten, nt+1 is kept
            ths = [[fr(1, [t + 1], [[t + 1, 20 + t, size]])] for t in range(nt)]
            add([{'op': 'Set', 'f': 5, 'u': 1, 'val': {'k': 'd', 'd': base}}], ths, True, 'disjoint-rules')
    # two updates in a row per writer (as a burst of edits gives)
    add([{'op': 'Set', 'f': 5, 'u': 1, 'val': {'k': 'd', 'd': [[1, 11, 2], [2, 12, 2], [3, 13, 1]]}}],
        [[fr(1, [1], [[1, 21, 2]]), fr(1, [1], [[1, 22, 1]])], [fr(1, [2], [[2, 31, 2]]), fr(1, [2], [])]], True, 'disjoint-rules-twice')
    # B. writers and a reader that uses what it was handed out while the writers go on (sendFileDiagnostics)
    for size in (2, 60):
        add([{'op': 'Set', 'f': 5, 'u': 1, 'val': {'k': 'd', 'd': [[1, 11, size], [2, 12, size], [3, 13, size]]}}],
            [[fr(1, [1], [[1, 21, size]])], [fr(1, [2], [[2, 22, 1]])], [getd(1), getd(1)]], True, 'writers-and-reader')
    add([{'op': 'Set', 'f': 5, 'u': 1, 'val': {'k': 'd', 'd': [[1, 11, 3], [2, 12, 3], [3, 13, 3]]}}],
        [[fr(1, [1, 2], [[1, 21, 1]]), fr(1, [1], [])], [getd(1), getd(1), getd(1)]], True, 'writer-and-reader')
    # C. overlapping rule sets and a full replacement: not commuting, one of the sequential orders
    add([{'op': 'Set', 'f': 5, 'u': 1, 'val': {'k': 'd', 'd': [[1, 11, 1], [2, 12, 1], [3, 13, 1]]}}],
        [[fr(1, [1, 2], [[1, 21, 1]])], [fr(1, [2, 3], [[3, 22, 2]])]], True, 'overlapping-rules')
    add([{'op': 'Set', 'f': 5, 'u': 1, 'val': {'k': 'd', 'd': [[1, 11, 1], [2, 12, 1]]}}],
        [[fr(1, [1], [[1, 21, 1]])], [{'op': 'Set', 'f': 5, 'u': 1, 'val': {'k': 'd', 'd': [[2, 30, 2]]}}], [getd(1)]], True, 'update-vs-replace')
    # D. different maps of the same URI, and the same map of different URIs
    add([], [[{'op': 'Set', 'f': 0, 'u': 1, 'val': {'k': 'a', 'a': 3}}, {'op': 'Get', 'f': 2, 'u': 1}],
             [{'op': 'Set', 'f': 2, 'u': 1, 'val': {'k': 'a', 'a': 4}}, {'op': 'Get', 'f': 0, 'u': 1}],
             [fr(1, [1], [[1, 5, 1]]), {'op': 'Set', 'f': 6, 'u': 1, 'val': {'k': 'd', 'd': [[9, 1, 1]]}}]], True, 'different-maps')
    add([{'op': 'Set', 'f': 5, 'u': 1, 'val': {'k': 'd', 'd': [[1, 11, 1]]}}, {'op': 'Set', 'f': 5, 'u': 2, 'val': {'k': 'd', 'd': [[1, 12, 1]]}}],
        [[fr(1, [1], [[1, 21, 1]]), getd(2)], [fr(2, [1], [[1, 22, 1]]), getd(1)]], True, 'different-uris')
    add([{'op': 'Set', 'f': 5, 'u': 1, 'val': {'k': 'd', 'd': [[1, 11, 1], [2, 12, 1]]}}],
        [[fr(1, [1], [[1, 21, 1]])], [{'op': 'ClearDiags'}], [fr(1, [2], [[2, 22, 1]])]], True, 'update-vs-clear')
    # E. operations that are compositions of atomic accesses (Delete, Rename, SetAggregates, SetIgnoreDirectives,
    #    GetContentAndModule, UpdateCacheForURIFromDisk): explained by an interleaving of their modelled steps
    few = max(60, rounds // 4)
    add([{'op': 'Set', 'f': 5, 'u': 1, 'val': {'k': 'd', 'd': [[1, 11, 1], [2, 12, 1]]}}, {'op': 'Set', 'f': 0, 'u': 1, 'val': {'k': 'a', 'a': 2}}],
        [[{'op': 'Delete', 'u': 1}], [fr(1, [1], [[1, 21, 1]])], [{'op': 'Set', 'f': 0, 'u': 1, 'val': {'k': 'a', 'a': 5}}]], False, 'delete-vs-updates', few)
    add([{'op': 'Set', 'f': 0, 'u': 1, 'val': {'k': 'a', 'a': 2}}, {'op': 'Set', 'f': 2, 'u': 1, 'val': {'k': 'a', 'a': 3}}],
        [[{'op': 'GetContentAndModule', 'u': 1}], [{'op': 'Delete', 'u': 1}]], False, 'content-and-module-vs-delete', few)
    add([{'op': 'SetFileAggregates', 'u': 1, 'data': [{'key': 1, 'aggs': [[1, 1, 1]]}]}],
        [[{'op': 'SetAggregates', 'data': [{'key': 1, 'aggs': [[1, 1, 2], [2, 1, 3]]}]}],
         [{'op': 'SetFileAggregates', 'u': 1, 'data': [{'key': 1, 'aggs': [[1, 1, 4]]}]}], [{'op': 'GetFileAggregates', 'us': []}]],
        False, 'set-aggregates-vs-file-aggregates', few)
    add([{'op': 'Set', 'f': 0, 'u': 1, 'val': {'k': 'a', 'a': 2}}],
        [[{'op': 'UpdateFromDisk', 'u': 1, 'disk': 3}], [{'op': 'Set', 'f': 0, 'u': 1, 'val': {'k': 'a', 'a': 3}}], [{'op': 'Get', 'f': 0, 'u': 1}]],
        False, 'update-from-disk-vs-set', few)
    add([{'op': 'Set', 'f': 0, 'u': 1, 'val': {'k': 'a', 'a': 2}}, {'op': 'Set', 'f': 5, 'u': 1, 'val': {'k': 'd', 'd': [[1, 11, 1]]}}],
        [[{'op': 'Rename', 'u': 1, 'v2': 2}], [fr(1, [2], [[2, 21, 1]])]], False, 'rename-vs-update', few)
    add([{'op': 'SetFileIgnoreDirectives', 'u': 1, 'dirs': [[1, 1]]}],
        [[{'op': 'SetIgnoreDirectives', 'dirs': [[1, 2], [2, 3]]}], [{'op': 'SetFileIgnoreDirectives', 'u': 1, 'dirs': [[1, 4]]}],
         [{'op': 'GetAll', 'f': 4}]], False, 'ignore-directives', few)
    # F. drawn: 2-3 goroutines with 1-2 single-access operations each on the diagnostics of one URI
    for _ in range(4 if quick else 24):
        g = CacheGen(rng)
        nt = 2 + rng.below(2)
        ths = []
        for t in range(nt):
            ops = []
            for _ in range(1 + rng.below(2)):
                k = rng.below(10)
                if k < 6:
                    rules = [c for c in (1, 2, 3) if rng.below(2) == 0]
                    ops.append(fr(1, rules, g.diags(rules or None, 3)))
                elif k < 8:
                    ops.append(getd(1))
                elif k < 9:
                    ops.append({'op': 'Set', 'f': 5, 'u': 1, 'val': {'k': 'd', 'd': g.diags(None, 3)}})
                else:
                    ops.append({'op': 'Get', 'f': 6, 'u': 1})
            ths.append(ops)
        add([{'op': 'Set', 'f': 5, 'u': 1, 'val': {'k': 'd', 'd': [[1, 11, 2], [2, 12, 1], [3, 13, 1]]}}], ths, True, 'drawn')
    return jobs


# ---- Coq printers
def cN_(n):
    return str(n) if isinstance(n, int) and n >= 0 else str(CACHE_POISON)


def cval(v):
    if v is None:
        return 'VAtom 0'
    k = v.get('k')
    if k == 'd':
        return 'VDiags (rl %s)' % clist('((%s, %s), %d%%nat)' % (cN_(e[0]), cN_(e[1]), e[2]) for e in (v.get('d') or []))
    if k == 'g':
        return 'VAggs %s' % caggs(v.get('g') or [])
    return 'VAtom %s' % cN_(v.get('a', 0) or 0)


def caggs(l):
    return clist('(%s, %s, %s)' % (cN_(e[0]), cN_(e[1]), cN_(e[2])) for e in l)


def caggdata(d):
    return clist('(%d, %s)' % (e['key'], caggs(e.get('aggs') or [])) for e in (d or []))


def cop_(o):
    op, u, f = o['op'], o.get('u', 0), CFIELDS[o.get('f', 0)]
    if op == 'GetAll':
        return 'OGetAll %s' % f
    if op == 'Get':
        return 'OGet %s %d' % (f, u)
    if op == 'Set':
        return 'OSet %s %d (%s)' % (f, u, cval(o.get('val')))
    if op == 'GetFileRefs':
        return 'OGetFileRefs %d' % u
    if op == 'ClearIgnored':
        return 'OClearIgnored %d' % u
    if op == 'GetContentAndModule':
        return 'OGetContentAndModule %d' % u
    if op == 'Rename':
        return 'ORename %d %d' % (u, o.get('v2', 0))
    if op == 'SetFileAggregates':
        return 'OSetFileAggregates %d %s' % (u, caggdata(o.get('data')))
    if op == 'SetAggregates':
        return 'OSetAggregates %s' % caggdata(o.get('data'))
    if op == 'GetFileAggregates':
        return 'OGetFileAggregates %s' % clist(str(x) for x in (o.get('us') or []))
    if op == 'SetFileIgnoreDirectives':
        return 'OSetFileIgnoreDirectives %d %s' % (u, clist('(%d, %d)' % (a, b) for a, b in (o.get('dirs') or [])))
    if op == 'SetIgnoreDirectives':
        return 'OSetIgnoreDirectives %s' % clist('(%d, %d)' % (a, b) for a, b in (o.get('dirs') or []))
    if op == 'SetDiagsForRules':
        return 'OSetDiagsForRules %d %s (rl %s)' % (u, clist(str(r) for r in (o.get('rules') or [])),
                                                    clist('((%d, %d), %d%%nat)' % (e[0], e[1], e[2]) for e in (o.get('diags') or [])))
    if op == 'ClearDiags':
        return 'OClearDiags'
    if op == 'Delete':
        return 'ODelete %d' % u
    if op == 'UpdateFromDisk':
        return 'OUpdateFromDisk %d %s' % (u, 'None' if o.get('disk') is None else '(Some %d)' % o['disk'])
    raise RuntimeError('unknown cache operation %r' % (o,))


def centries(m):
    return clist('(%s, %s)' % (cN_(e['u']), cval(e['v'])) for e in (m or []))


def cres_(r):
    t = r['t']
    if t == 'unit':
        return 'RUnit'
    if t == 'opt':
        return 'ROpt (Some (%s))' % cval(r.get('v')) if r.get('ok') else 'ROpt None'
    if t == 'all':
        return 'RAll %s' % centries(r.get('m'))
    if t == 'pair':
        return 'RPair (Some (%s, %s))' % (cval(r.get('c')), cval(r.get('mod'))) if r.get('ok') else 'RPair None'
    if t == 'aggmap':
        return 'RAggMap %s' % clist('(%s, %s)' % (cN_(e['key']), caggs(e.get('aggs') or [])) for e in (r.get('aggmap') or []))
    if t == 'disk':
        return 'RDisk %s %s %s' % (cbool(r.get('changed', False)), cN_(r.get('content', 0)), cbool(r.get('failed', False)))
    raise RuntimeError('unknown cache result %r' % (r,))


def cdump(final):
    return clist(centries(m) for m in final)


def cache_order_variants(threads, cap=6):
    """the thread lists with the entries of map-typed arguments (whose iteration order Go leaves open) permuted"""
    import itertools
    sites = [(ti, oi, 'dirs' if o['op'] == 'SetIgnoreDirectives' else 'data')
             for ti, t in enumerate(threads) for oi, o in enumerate(t)
             if (o['op'] == 'SetIgnoreDirectives' and len(o.get('dirs') or []) > 1) or (o['op'] == 'SetAggregates' and len(o.get('data') or []) > 1)]
    out = [threads]
    for ti, oi, key in sites:
        new = []
        for th in out:
            for perm in itertools.permutations(th[ti][oi][key]):
                t2 = [list(t) for t in th]
                t2[ti][oi] = dict(th[ti][oi], **{key: list(perm)})
                if t2 not in new:
                    new.append(t2)
        out = new[:cap]
    return out


def build_cache_binary(ctx, race=False):
    ov = {'Replace': {os.path.join(vlib.REPO, 'internal/lsp/cache/zz_verif_c15_cache_test.go'):
                      os.path.join(vlib.HARNESS, 'overlay', 'c15_cache_test.go')}}
    ovp = os.path.join(ctx.tmp, 'overlay_cache.json')
    json.dump(ov, open(ovp, 'w'))
    out = os.path.join(ctx.tmp, 'cache_race.test' if race else 'cache.test')
    cmd = [vlib.GO, 'test', '-c', '-overlay', ovp, '-vet=off'] + (['-race'] if race else []) + ['-o', out, './internal/lsp/cache']
    rc, log = vlib.run(cmd, cwd=vlib.REPO, env=vlib.goenv(), timeout=1500)
    if rc != 0:
        raise vlib.HarnessBuildError(log)
    return out


def cache_describe(o):
    s = o['op']
    if o['op'] in ('Get', 'Set', 'GetAll'):
        s = cache_method(o)
    return '%s(%s)' % (s, ','.join(str(o[k]) for k in ('u', 'v2', 'rules', 'diags', 'disk') if k in o))


class CacheCheck:
    """the cache-level check in two phases, so that the first (build, run, Coq) can run beside the server histories:
    start() ... finish() -> evidence (violations are registered in finish, on the caller's thread)"""
    def __init__(self, ctx, race=False):
        import threading
        self.ctx, self.race, self.raw, self.err = ctx, race, None, None
        self.thread = threading.Thread(target=self._work, daemon=True)

    def _work(self):
        try:
            self.raw = cache_run(self.ctx, self.race)
        except BaseException as e:     # re-raised by finish()
            self.err = e

    def start(self):
        self.thread.start()
        return self

    def finish(self):
        self.thread.join()
        if self.err is not None:
            raise self.err
        return cache_verdicts(self.ctx, self.raw) if self.raw is not None else None


# ------------------------------------------------------------------ forced interleaving: removal during the lint
BURST_SIG = {'kind': 'config-change-lost-in-burst',
             'key': 'server.go:StartDiagnosticsWorker/rate-limiter-drops-a-full-lint'}
RACE_SIG = {'kind': 'diagnostics-of-removed-file-survive',
            'key': 'lint.go:updateFileDiagnostics/diagnostics-of-removed-uri-stored-and-republished'}


class LintRace:
    """a file is deleted / renamed away while the file-lint worker is inside linter.Lint for it (harness
    TestVerifC15LintRace: the interleaving is forced by waiting on the debug log and the cache).  Model-free predicate:
    at quiescence the removed URI has no diagnostics, neither last published nor cached.  (The AGGREGATES of the removed
    URI do come back: that is the open finding lint.go:updateFileDiagnostics/file-job-straddles-delete, counted as
    evidence here and reported by the history part; the signature of a violation found here is a different one.)
    Runs beside the histories: start() ... finish() -> evidence."""
    def __init__(self, ctx, binary):
        import threading
        self.ctx, self.binary, self.res, self.err, self.log = ctx, binary, None, None, ''
        self.bursts, self.bres = [{'id': 0, 'turn_off': True}, {'id': 1, 'turn_off': False}], None
        if ctx.quick():
            self.jobs = [('change', 'delete'), ('change', 'rename'), ('open', 'delete'), ('create', 'rename')]
            self.jobs = [{'trigger': t, 'removal': r, 'rules': 300, 'clean': False} for t, r in self.jobs]
        else:
            self.jobs = [{'trigger': t, 'removal': r, 'rules': n, 'clean': c} for t in ('change', 'open', 'create')
                         for r in ('delete', 'rename') for n, c in ((300, False), (600, False), (400, True))]
        for i, j in enumerate(self.jobs):
            j['id'] = i
        self.thread = threading.Thread(target=self._work, daemon=True)

    def _work(self):
        try:
            inp = os.path.join(self.ctx.tmp, 'race_in.json')
            outp = os.path.join(self.ctx.tmp, 'race_out.jsonl')
            json.dump(self.jobs, open(inp, 'w'))
            rc, self.log = run_binary(self.ctx, self.binary, 'TestVerifC15LintRace', inp, outp, timeout=2400, workers=4)
            if os.path.exists(outp):
                self.res = [json.loads(l) for l in open(outp) if l.strip()]
            if rc != 0 or self.res is None:
                raise RuntimeError('C15 lint-race harness failed:\n' + self.log[-3000:])
            if self.bursts:
                inp = os.path.join(self.ctx.tmp, 'lburst_in.json')
                outp = os.path.join(self.ctx.tmp, 'lburst_out.jsonl')
                json.dump(self.bursts, open(inp, 'w'))
                rc, log = run_binary(self.ctx, self.binary, 'TestVerifC15LimiterBurst', inp, outp, timeout=2400, workers=2)
                if os.path.exists(outp):
                    self.bres = [json.loads(l) for l in open(outp) if l.strip()]
                if rc != 0 or self.bres is None:
                    raise RuntimeError('C15 limiter-burst harness failed:\n' + log[-3000:])
        except BaseException as e:
            self.err = e

    def start(self):
        self.thread.start()
        return self

    def finish(self):
        self.thread.join()
        if self.err is not None:
            raise self.err
        ctx = self.ctx
        bad = [r for r in self.res if r.get('gone_published') or r.get('gone_cached')]
        errs = [r for r in self.res if r.get('error')]
        for r in bad[:1]:
            vlib.violation(ctx, {'kind': RACE_SIG['kind'],
                                 'what': '%s of victim.rego (%d rules) then %s while the file-lint worker is inside linter.Lint for it: at '
                                         'quiescence the removed URI still has %d published and %d cached diagnostics' % (
                                             r['trigger'], r['rules'], r['removal'], len(r.get('gone_published') or []), r.get('gone_cached', 0)),
                                 'case': {k: r[k] for k in ('trigger', 'removal', 'rules', 'clean')},
                                 'interleaving_obtained': r.get('achieved'), 'published_codes': sorted({x.split('|')[0] for x in r.get('gone_published') or []}),
                                 'aggregates_of_removed_uri_back': r.get('gone_aggregates'), 'n_scenarios_failing': len(bad),
                                 'log_tail': r.get('log_tail')}, signature=RACE_SIG)
        for r in errs[:1]:
            vlib.violation(ctx, {'kind': 'server-not-idle-or-harness-error', 'case': {k: r[k] for k in ('trigger', 'removal', 'rules', 'clean')},
                                 'error': r['error'], 'log_tail': r.get('log_tail')}, no_input=False)
        bev = {}
        if self.bres is not None:
            lost = [r for r in self.bres if not r.get('error') and r.get('published') != r.get('fresh')]
            for r in lost[:1]:
                vlib.violation(ctx, {'kind': BURST_SIG['kind'],
                                     'what': 'config change (use-assignment-operator turned %s) while the rate limiter of the workspace-lint dispatcher is '
                                             'dropping jobs (%d dropped before, %d after the config was loaded; %d workspace runs for the config change): '
                                             'at quiescence the last publishes are not those of a fresh lint under the new config' % (
                                                 'off' if r['turn_off'] else 'on', r['drops_before_config'], r['drops_after_config'], r['config_runs']),
                                     'case': {'turn_off': r['turn_off']}, 'published': r.get('published'), 'fresh': r.get('fresh'),
                                     'log_tail': r.get('log_tail')}, signature=BURST_SIG)
            for r in [r for r in self.bres if r.get('error')][:1]:
                vlib.violation(ctx, {'kind': 'server-not-idle-or-harness-error', 'case': {'turn_off': r['turn_off'], 'burst': True},
                                     'error': r['error'], 'log_tail': r.get('log_tail')}, no_input=False)
            bev = {'limiter_burst_scenarios': len(self.bres), 'limiter_burst_config_change_lost': len(lost),
                   'limiter_burst_jobs_dropped_before_config': [r.get('drops_before_config') for r in self.bres],
                   'limiter_burst_jobs_dropped_after_config': [r.get('drops_after_config') for r in self.bres],
                   'limiter_burst_config_runs': [r.get('config_runs') for r in self.bres]}
        return {**bev, 'lint_race_scenarios': len(self.res), 'lint_race_interleaving_obtained': sum(1 for r in self.res if r.get('achieved')),
                'lint_race_removed_uri_with_diagnostics': len(bad),
                'lint_race_aggregates_of_removed_uri_back (open finding file-job-straddles-delete)': sum(1 for r in self.res if r.get('gone_aggregates')),
                'lint_race_ms': [r.get('lint_ms') for r in self.res]}


def cache_check(ctx, race=False):
    raw = cache_run(ctx, race)
    return cache_verdicts(ctx, raw) if raw is not None else None


def cache_run(ctx, race=False):
    """runs the cache-level histories and evaluates them against Model/LspCache.v; returns the raw observations"""
    import time
    t_start = time.time()
    rp = None
    if ctx.replay:
        rp = json.load(open(ctx.replay)).get('cache_case')
        if rp is None:
            return None
    binary = build_cache_binary(ctx, race=race)
    rng = vlib.SplitMix(ctx.seed ^ 0xC15CAC4E)
    if rp is not None:
        seq = [dict(rp['seq'], id=0)] if 'seq' in rp else []
        conc = [dict(rp['conc'], id=0, tag=rp['conc'].get('tag', 'replay'), rounds=max(2000, rp['conc'].get('rounds', 0) * 5))] if 'conc' in rp else []
    else:
        seq = gen_cache_seq(rng, 70 if ctx.quick() else 600)
        conc = gen_cache_conc(rng, ctx.quick())
    inp, outp = os.path.join(ctx.tmp, 'cache_in.json'), os.path.join(ctx.tmp, 'cache_out.json')
    json.dump({'seq': [{'id': j['id'], 'ops': j['ops']} for j in seq],
               'conc': [{k: j[k] for k in ('id', 'setup', 'threads', 'rounds', 'atomic')} for j in conc]}, open(inp, 'w'))
    work = os.path.join(ctx.tmp, 'work')
    os.makedirs(work, exist_ok=True)
    env = dict(os.environ, VERIF_IN=inp, VERIF_OUT=outp, VERIF_WORK=work, VERIF_SEED=str(ctx.seed))
    if race:
        env.update(VERIF_RACE='1', GORACE='halt_on_error=0')
    rc, log = vlib.run([binary, '-test.run', '^TestVerifC15Cache$', '-test.timeout', '3000s', '-test.count', '1'],
                       cwd=ctx.tmp, env=env, timeout=3100)
    races = log.count('WARNING: DATA RACE')
    if not os.path.exists(outp) or (rc != 0 and not races):
        raise RuntimeError('cache harness run failed (rc=%d):\n%s' % (rc, log[-4000:]))
    o = json.load(open(outp))
    o['seq'], o['conc'] = o.get('seq') or [], o.get('conc') or []
    for r in o['conc']:
        r['outcomes'] = r.get('outcomes') or []
    t_run = time.time()
    for j, r in zip(seq, o['seq']):
        if r.get('error'):
            raise RuntimeError('cache harness: history %d: %s' % (j['id'], r['error']))
    for j, r in zip(conc, o['conc']):
        if r.get('error'):
            raise RuntimeError('cache harness: scenario %d: %s' % (j['id'], r['error']))
    flat = [(j, oc) for j, r in zip(conc, o['conc']) for oc in r['outcomes']]
    bad_seq, bad_conc = cache_coq(ctx, seq, conc, o, flat)
    return {'seq': seq, 'conc': conc, 'o': o, 'flat': flat, 'bad_seq': bad_seq, 'bad_conc': bad_conc, 'log': log, 'race': race,
            'timing': {'build+run': round(t_run - t_start, 1), 'coq': round(time.time() - t_run, 1)}}


def cache_coq(ctx, seq, conc, o, flat):
    """correspondence with Model/LspCache.v: indices of sequential histories / concurrent outcomes the model does not explain"""
    v = ['From Regal Require Import Check.C15Check.', 'Open Scope N_scope.']
    CHS = 25
    nch = (len(seq) + CHS - 1) // CHS
    for ci in range(nch):
        cs = []
        for j, r in list(zip(seq, o['seq']))[ci * CHS:(ci + 1) * CHS]:
            cs.append('{| q_ops := %s; q_final := %s |}' % (
                clist('(%s, %s)' % (cop_(op), cres_(res)) for op, res in zip(j['ops'], r['results'])), cdump(r['final'])))
        v.append('Definition qs%d : list cache_seq_case := %s.' % (ci, clist(cs)))
        v.append('Definition Q%d := Eval vm_compute in failing agrees_cache_seq %d qs%d. Print Q%d.' % (ci, ci * CHS, ci, ci))
    cs = []
    for j, oc in flat:
        # Go ranges over the maps handed to SetIgnoreDirectives / SetAggregates in an arbitrary order: the model is tried
        # with every order of their entries (one alternative per order)
        alts = []
        for threads in cache_order_variants(j['threads']):
            alts.append('{| n_setup := %s; n_threads := %s; n_final := %s |}' % (
                clist(cop_(x) for x in j['setup']),
                clist(clist('(%s, %s)' % (cop_(op), cres_(res)) for op, res in zip(t, rs)) for t, rs in zip(threads, oc['results'])),
                cdump(oc['final'])))
        cs.append(clist(alts))
    v.append('Definition ns : list (list cache_conc_case) := %s.' % clist(cs))
    v.append('Definition NQ := Eval vm_compute in failing (existsb agrees_cache_conc) 0 ns. Print NQ.')
    rc, out = vlib.coq_eval(ctx, 'Cases_C15_cache', '\n'.join(v), timeout=1800)
    if rc != 0:
        raise RuntimeError('cache case evaluation failed:\n' + out[-3000:])
    bad_seq = []
    for ci in range(nch):
        bad_seq += vlib.parse_nat_list(out, 'Q%d' % ci) or []
    return bad_seq, vlib.parse_nat_list(out, 'NQ') or []


def cache_verdicts(ctx, raw):
    """registers the violations of the cache-level check; returns its evidence"""
    seq, conc, o, flat, log, race = raw['seq'], raw['conc'], raw['o'], raw['flat'], raw['log'], raw['race']
    bad_seq, bad_conc = raw['bad_seq'], raw['bad_conc']
    races = log.count('WARNING: DATA RACE')
    ev = {'cache_sequential_histories': len(seq), 'cache_sequential_operations': sum(len(j['ops']) for j in seq),
          'cache_concurrent_scenarios': len(conc), 'cache_concurrent_rounds': sum(j['rounds'] for j in conc), 'cache_race_detector': race}
    n0 = len(ctx.violations)
    # -- every exported function is driven
    missing = sorted(set(o.get('methods') or []) - cache_driven_methods())
    used = {}
    for j in seq:
        for op in j['ops']:
            used[cache_method(op)] = used.get(cache_method(op), 0) + 1
    ev['cache_operations_by_function'] = used
    # -- value semantics (model-free, concrete input)
    for j, r in zip(seq, o['seq']):
        if r.get('mutated_at', -1) >= 0 and len(ctx.violations) - n0 < 2:
            k = r['mutated_at']
            vlib.violation(ctx, {'kind': 'cache-value-written-through',
                                 'what': 'a slice / map that crossed the boundary of the cache earlier was changed by %s (operation %d): %s'
                                         % (cache_describe(j['ops'][k]), k, '; '.join(r.get('mutated') or [])[:600]),
                                 'cache_case': {'seq': {'ops': j['ops'][:k + 1]}}},
                           signature={'kind': 'cache-value-written-through', 'key': cache_method(j['ops'][k])})
    ev['cache_values_written_through'] = sum(1 for r in o['seq'] if r.get('mutated_at', -1) >= 0)
    # -- linearizability on the implementation itself (single-access scenarios)
    nonseq, n_out = [], 0
    for j, r in zip(conc, o['conc']):
        for oc in r['outcomes']:
            n_out += 1
            if oc.get('sequential') is False:
                nonseq.append((j, oc))
    for j, oc in nonseq[:2]:
        vlib.violation(ctx, {'kind': 'cache-not-linearizable',
                             'what': 'scenario %s: %d of %d rounds ended with results / a final state that no sequential order of the '
                                     'operations gives (an update of one goroutine was lost or a value was seen half-written); '
                                     'threads: %s; final diagnostics: %s'
                                     % (j['tag'], oc['count'], j['rounds'], [[cache_describe(x) for x in t] for t in j['threads']],
                                        json.dumps(oc['final'][5])[:400]),
                             'cache_case': {'conc': {k: j[k] for k in ('setup', 'threads', 'rounds', 'atomic', 'tag')}}, 'outcome': oc},
                       signature={'kind': 'cache-not-linearizable', 'key': j['tag']})
    ev['cache_distinct_outcomes'] = n_out
    ev['cache_outcomes_not_sequential'] = len(nonseq)
    ev['cache_outcomes_by_scenario'] = {'%d:%s' % (j['id'], j['tag']): len(r['outcomes']) for j, r in zip(conc, o['conc'])}
    # -- race detector (thorough tier)
    if races:
        blk = log.split('WARNING: DATA RACE', 1)[1].split('==================')[0]
        fn = re.findall(r'cache\.\(\*Cache\)\.(\w+)', blk)
        vlib.violation(ctx, {'kind': 'data-race', 'what': 'race detector: cache operations of concurrent goroutines race (%s)' % ', '.join(sorted(set(fn))),
                             'report': blk[:8000], 'n_reports': races}, signature={'kind': 'data-race', 'key': 'cache:' + '+'.join(sorted(set(fn)))})
    ev['cache_race_reports'] = races
    # -- correspondence with Model/LspCache.v
    ev['cache_mismatch_model_sequential'] = len(bad_seq)
    ev['cache_outcomes_not_explained_by_model_interleavings'] = len(bad_conc)
    if bad_conc and len(ctx.violations) == n0:
        j, oc = flat[bad_conc[0]]
        vlib.violation(ctx, {'kind': 'cache-not-explained-by-atomic-steps',
                             'what': 'scenario %s: results / final state of concurrent goroutines are not reachable by any interleaving of the '
                                     'atomic map accesses of Model/LspCache.v (Check.C15Check.agrees_cache_conc); threads: %s'
                                     % (j['tag'], [[cache_describe(x) for x in t] for t in j['threads']]),
                             'cache_case': {'conc': {k: j[k] for k in ('setup', 'threads', 'rounds', 'atomic', 'tag')}}, 'outcome': oc,
                             'n_outcomes': len(bad_conc)},
                       signature={'kind': 'cache-not-explained-by-atomic-steps', 'key': j['tag']})
    if bad_seq and len(ctx.violations) == n0:
        j = seq[bad_seq[0]]
        vlib.violation(ctx, {'kind': 'correspondence', 'relation': 'Check.C15Check.agrees_cache_seq (Model/LspCache.v vs internal/lsp/cache)',
                             'cache_case': {'seq': {'ops': j['ops']}}, 'observed': o['seq'][bad_seq[0]], 'n_mismatches': len(bad_seq)},
                       no_input=True)
    if missing and len(ctx.violations) == n0:
        vlib.violation(ctx, {'kind': 'correspondence', 'relation': 'every exported method of cache.Cache is driven by the cache-level harness',
                             'what': 'methods the harness does not know: %s' % missing}, no_input=True)
    ev['cache_methods_not_driven'] = missing
    ev['cache_timing_s'] = raw['timing']
    ev['cache_samples'] = [[cache_describe(x) for x in seq[0]['ops'][:6]]] + \
                          [{'threads': [[cache_describe(x) for x in t] for t in conc[0]['threads']], 'outcomes': len(o['conc'][0]['outcomes'])}] \
        if seq and conc else []
    return ev
