"""C14: without --force, fix never destroys work that git cannot restore.

Tie: workspaces under git in every state (clean, modified, staged, untracked, ignored, no repository, nested repository,
work tree root above the files, .git as a file) x {content fix, move} x spellings of the arguments (absolute, relative, from a
sub-directory, several arguments) x how the workspace is reached (real path; through a symbolic link that is the repository /
the argument itself; through a link that is a parent directory; through a link inside the work tree);
command lines with TWO OR THREE arguments in every order, each in repository A (pol, pol/sub), in another repository B (pol2,
zeta) or in no repository (pol-draft, drafts) -- names that share string prefixes and names that do not --, every place with
its own project-root declaration (none, .manifest, .regal/, .regal.yaml, project.roots, .regal/ above the argument) and its
own state; relative arguments that lead out of the repository of the working directory (cd pol && regal fix ../pol-draft);
files inside git submodules (absorbed: .git file; not absorbed: .git directory, predicate only); submodules whose NAME is not
their path (git submodule add --name, git mv), nested submodules, registered submodules that are not checked out; a writer that
changes files WHILE the command runs, at a moment the command itself fixes (blocked opening a named pipe among its input files;
blocked writing its --debug output into a full pipe during the first lint run; predicate only); a tracked link to a file outside
of the work tree (predicate only) -- all run through the real binary WITHOUT --force.
  * correspondence: the model (find_git_repo over the tree + the gate over go-git's status keys, obtained through regal's own
    GetChangedFiles in an overlay test) must predict the verdict and the tree after the run;
  * predicate on the implementation alone: every file whose bytes changed or disappeared was restorable from HEAD of its
    repository (checked with the git CLI before the run), and a refusal leaves the tree untouched.
"""
import json, os, re
import vlib
from vlib import clist, cbool
from common import proof_gate, proof_coverage
import c13
from c13 import cstr     # pool-aware: inside pool_begin/pool_defs every distinct string is defined once

OVERLAY = os.path.join(vlib.VERIF, 'harness', 'overlay')
CORPUS = os.path.join(vlib.VERIF, 'corpus', 'C14')


def classify(r):
    if r['exit'] == 0:
        return 'OutDryRun' if r['ws']['dry_run'] else 'OutDone'
    e = r['stderr']
    if 'fixing failed due to conflicts' in e:
        return 'OutConflicts'
    if ('failed to establish git repo' in e or 'no git repo found' in e or 'failed to get changed files' in e
            or 'the following files have been changed' in e):
        return 'OutGitRefused'
    return c13.classify(r)


def repo_term(x):
    if x == '!error':
        return 'RepoErr'
    if x == '!none':
        return 'RepoNone'
    return '(RepoAt %s)' % cstr(x)


def git_term(r, g):
    ws = r['ws']
    status = clist('(%s, %s)' % (cstr(k), c13.cstrs(v)) for k, v in sorted(g['status'].items()))
    return '{| gc_ws := %s; gc_force := %s; gc_cwd := %s; gc_args := %s; gc_status := %s; gc_repo_obs := %s |}' % (
        c13.ws_term(r, classify), cbool(not ws.get('no_force')), cstr(c13.npath(ws.get('cwd') or '')), c13.cstrs(r['args']), status,
        repo_term(g['repo']))


def modelled(r):
    """workspaces with a symbolic link INSIDE the work tree are outside the model (its tree has one name per file): they
    only go through the predicate.  So do workspaces with a submodule that keeps its own .git DIRECTORY: go-git's
    Worktree.Status of the superproject fails on the first call ("open sub/.git: is a directory") and creates
    .git/modules/<name> on the way, after which it succeeds -- what the status oracle answers depends on how often it was asked"""
    ws = r['ws']
    # a concurrent writer: the model has one tree per run (the status oracle is asked about the tree the overlay test saw,
    # before the edit); those runs go through the predicate, whose `before` is the tree right after the writer's edit
    return (not ws.get('symlinks') and 'dir' not in ((ws.get('git') or {}).get('submodules') or {}).values()
            and not ws.get('concurrent'))


def predicate(r):
    """violations of C14 visible in the snapshots and the git CLI's answers alone"""
    ws = r['ws']
    before, after = r['before'], r['after']
    bad = []
    guarded = ws.get('no_force') and not ws['dry_run']
    if r['exit'] != 0 and before != after:
        bad.append(('refused-but-changed-disk', classify(r)))
    if guarded:
        for rel, txt in sorted(before['files'].items()):
            if after['files'].get(rel) != txt and not r['restorable'].get(rel, False):
                st = ((ws.get('git') or {}).get('states') or {}).get(rel)
                if ws.get('symlinks'):
                    # the file that changed lies below the work tree of the arguments (reached under a second name), or not
                    # even there (a link to a file elsewhere: the command wrote THROUGH the link)
                    inside = any(c13.contains(d, rel) and any(c13.contains(d, a) for a in ws['args'])
                                 for d in ((ws.get('git') or {}).get('repo_dirs') or []))
                    st = 'reached-through-symlink-inside-worktree' if inside else 'reached-through-symlink-leaving-worktree'
                elif not (ws.get('git') or {}).get('repo_dirs'):
                    st = 'no-repository'
                elif st is None:
                    st = 'outside-repository' if not any(c13.contains(d, rel) for d in ws['git']['repo_dirs']) else 'clean?'
                if not ws.get('symlinks') and any(c13.contains(d, rel) for d in ((ws.get('git') or {}).get('submodules') or {})):
                    st = '%s/inside-submodule' % st
                if ws.get('concurrent'):
                    st = ('saved-while-the-command-ran' if rel in ws['concurrent'].get('edits', {}) else st) + '/' + ws['concurrent']['mode']
                bad.append(('changed-unrestorable-file', st))
    return bad


def run_steps(ctx, replay_ws=None):
    h = vlib.build_harness(ctx, 'c14')
    regal = vlib.build_regal(ctx)
    wd = os.path.join(ctx.tmp, 'ws14')
    os.makedirs(wd, exist_ok=True)
    prep = os.path.join(ctx.tmp, 'c14_prepared.jsonl')
    env = dict(os.environ, VERIF_SEED=str(ctx.seed))
    if replay_ws is not None:
        cf = os.path.join(ctx.tmp, 'c14_replay_case.json')
        json.dump(replay_ws, open(cf, 'w'))
        rc, log = vlib.run([h, 'replay', prep, cf, wd], env=env, timeout=900)
    else:
        rc, log = vlib.run([h, 'prepare', prep, ctx.tier, wd, CORPUS], env=env, timeout=1800)
    if rc != 0:
        raise RuntimeError('c14 prepare failed: ' + log[-2000:])
    gout = os.path.join(ctx.tmp, 'c14_git.jsonl')
    rc, log = vlib.go_test_overlay(ctx, './internal/git', {'internal/git/zz_verif_c14_test.go': os.path.join(OVERLAY, 'c14_git_test.go')},
                                   'TestVerifC14Git$', env_extra={'VERIF_IN': prep, 'VERIF_OUT': gout})
    if rc != 0 or not os.path.exists(gout):
        raise vlib.HarnessBuildError('overlay test in internal/git failed:\n' + log[-3000:])
    out = os.path.join(ctx.tmp, 'c14_out.jsonl')
    rc, log = vlib.run([h, 'run', prep, out, regal], env=env, timeout=3000)
    if rc != 0:
        raise RuntimeError('c14 run failed: ' + log[-2000:])
    results = [json.loads(l) for l in open(out)]
    gits = {}
    for l in open(gout):
        g = json.loads(l)
        gits[g['idx']] = g
    return results, [gits[i] for i in range(len(results))]


def eval_cases(ctx, results, gits, name='Cases_C14', chunk=300):
    """case files are evaluated side by side (Coq reads literals slowly): at least four shards, at most `chunk` cases each"""
    from concurrent.futures import ThreadPoolExecutor
    chunk = max(1, min(chunk, (len(results) + 3) // 4))
    starts = list(range(0, len(results), chunk))
    g1, g2 = [], []
    with ThreadPoolExecutor(max_workers=4) as ex:
        for i, (a, b) in zip(starts, ex.map(lambda i: eval_cases_chunk(ctx, results[i:i + chunk], gits[i:i + chunk], '%s_%d' % (name, i // chunk)), starts)):
            g1 += [i + x for x in a]
            g2 += [i + x for x in b]
    return g1, g2


def eval_cases_chunk(ctx, results, gits, name):
    c13.pool_begin()
    body = 'Definition gcs : list git_case := ' + clist(git_term(r, g) for r, g in zip(results, gits)) + '.'
    v = ['From Regal Require Import Check.C14Check.', 'Open Scope N_scope.'] + c13.pool_defs() + [body]
    v.append('Definition G1 := Eval vm_compute in failing repo_agrees 0 gcs.')
    v.append('Definition G2 := Eval vm_compute in failing git_agrees 0 gcs.')
    v.append('Print G1. Print G2.')
    rc, out = vlib.coq_eval(ctx, name, '\n'.join(v))
    if rc != 0:
        raise RuntimeError('case evaluation failed:\n' + out[-3000:])
    return vlib.parse_nat_list(out, 'G1'), vlib.parse_nat_list(out, 'G2')


def run(ctx):
    replay_ws = None
    if ctx.replay:
        rp = json.load(open(ctx.replay))
        replay_ws = (rp.get('case') or {}).get('ws')
    results, gits = run_steps(ctx, replay_ws)
    mod_ix = [i for i, r in enumerate(results) if modelled(r)]
    m1, m2 = eval_cases(ctx, [results[i] for i in mod_ix], [gits[i] for i in mod_ix])
    g1, g2 = [mod_ix[i] for i in m1], [mod_ix[i] for i in m2]

    hist, nviol = {}, 0
    for r in results:
        ws = r['ws']
        k = '%s|%s' % (classify(r), 'force' if not ws.get('no_force') else ('dry' if ws['dry_run'] else 'guarded'))
        hist[k] = hist.get(k, 0) + 1
    pred_hits = {}
    for i, r in enumerate(results):
        for kind, detail in predicate(r):
            pred_hits['%s:%s' % (kind, detail)] = pred_hits.get('%s:%s' % (kind, detail), 0) + 1
            if nviol >= 3 and not (kind == 'changed-unrestorable-file' and detail in ('ignored', 'reached-through-symlink-inside-worktree', 'reached-through-symlink-leaving-worktree')):
                continue
            raised = vlib.violation(ctx, {'kind': kind, 'detail': detail, 'case': {'ws': r['ws']}, 'cmd': r['cmd'], 'cwd': r['cwd'], 'exit': r['exit'],
                                          'reached': ({'link': '<workspace>/link -> real; every path of the command goes through the link; the work tree is <workspace>/real',
                                                       'link-parent': '<workspace>/link -> <workspace>/real (absolute target); the command uses <workspace>/link/mid/..., '
                                                                      'the work tree is <workspace>/real/mid'}.get(r['ws'].get('via') or '', 'by its real path')
                                                      + ('; symbolic links inside the work tree: %r' % r['ws']['symlinks'] if r['ws'].get('symlinks') else '')),
                                          'find_git_repo': gits[i]['repo'],
                                          'concurrent_writer': (None if not r['ws'].get('concurrent') else
                                                                {'moment_reached': bool(r.get('applied')),
                                                                 'how': {'fifo': 'the path `fifo` is a named pipe: the command blocks opening it while it reads its input files '
                                                                                 '(sorted order); exactly then the writer stores `edits` and releases the pipe',
                                                                         'debug': 'the command runs with --debug on a 4 KiB stderr pipe; when the trigger line shows up the writer stops '
                                                                                  'reading (the command waits in write(2) during its first lint run), stores `edits`, reads on'}
                                                                 [r['ws']['concurrent']['mode']],
                                                                 'tree_before_the_edit': (r.get('pre_edit') or {}).get('files')}),
                                          'stderr': r['stderr'][:400], 'porcelain': r.get('porcelain'),
                                          'changed': sorted(p for p, t in r['before']['files'].items() if r['after']['files'].get(p) != t),
                                          'what': 'regal fix without --force changed a file that git cannot restore' if kind == 'changed-unrestorable-file'
                                                  else 'regal fix exited non-zero but the tree differs'},
                                     signature={'kind': kind, 'key': detail})
            nviol += 1 if raised else 0
    if (g1 or g2) and not ctx.violations:
        i = (g2 or g1)[0]
        vlib.violation(ctx, {'kind': 'correspondence',
                             'relation': 'Check.C14Check.git_agrees (Model.GitGuard / Model.Commit vs the binary)' if g2 else
                                         'Check.C14Check.repo_agrees (Model.GitGuard.find_git_repo vs internal/git.FindGitRepo)',
                             'case': {'ws': results[i]['ws']}, 'observed': {'exit': results[i]['exit'], 'class': classify(results[i]),
                                                                            'stderr': results[i]['stderr'][:300], 'repo': gits[i]['repo'], 'status': gits[i]['status']},
                             'n_mismatch_repo': len(g1), 'n_mismatch_run': len(g2)}, no_input=True)
    proof_gate(ctx)

    distinct = len({json.dumps([r['ws']['files'], r['ws'].get('git'), r['ws']['args'], r['ws'].get('cwd'), r['ws']['abs_args'],
                                r['ws'].get('no_force'), r['ws']['dry_run'], r['ws']['policy'], r['ws'].get('via'), r['ws'].get('symlinks'),
                                r['ws'].get('regal_dirs'), r['ws'].get('manifests'), r['ws'].get('cfg_roots'), r['ws'].get('extra'),
                                r['ws'].get('concurrent')],
                               sort_keys=True) for r in results})
    reach = {}
    for r in results:
        k = r['ws'].get('via') or ('symlink-inside-worktree' if r['ws'].get('symlinks') else 'real-path')
        reach[k] = reach.get(k, 0) + 1
    fam, nargs = {}, {}
    for r in results:
        k = r['ws']['name'].split('/')[0].rstrip('0123456789')
        if k.startswith('submodule-') and k not in ('submodule-file', 'submodule-dir'):
            k = 'submodule-name/nesting'
        k = k if k in ('multi', 'rel-outside', 'submodule-file', 'submodule-dir', 'submodule-name/nesting', 'concurrent-fifo', 'concurrent-debug',
                       'rand', 'rand-multi', 'regression', 'known') else 'single-target'
        fam[k] = fam.get(k, 0) + 1
        nargs[str(len(r['ws']['args']))] = nargs.get(str(len(r['ws']['args'])), 0) + 1
    cov = proof_coverage(ctx, {
        'evaluations': len(mod_ix) * 2 + (len(results) - len(mod_ix)),
        'distinct_nontrivial': distinct,
        'rule': 'distinct (files, git states, repository layout, arguments, cwd, flags) workspaces run through the real binary; each gives one '
                'FindGitRepo comparison and one verdict+tree comparison',
        'runs': len(results), 'runs_compared_with_model': len(mod_ix), 'reached_through': reach,
        'scenario_families': fam, 'command_lines_by_number_of_arguments': nargs, 'outcome_histogram': hist, 'mismatch_find_git_repo': len(g1), 'mismatch_verdict_or_tree': len(g2),
        'predicate_hits': pred_hits,
        'concurrent_writer_runs': sum(1 for r in results if r['ws'].get('concurrent')),
        'concurrent_writer_moment_reached': sum(1 for r in results if r['ws'].get('concurrent') and r.get('applied')),
        'concurrent_writer_refused': sum(1 for r in results if r['ws'].get('concurrent') and r.get('applied') and r['exit'] != 0),
        'samples': [{'name': r['ws']['name'], 'cmd': r['cmd'], 'exit': r['exit'], 'repo': g['repo'], 'status': g['status'], 'porcelain': r.get('porcelain')}
                    for r, g in list(zip(results, gits))[:3]],
        'exhaustive': False,
    })
    return vlib.finish(ctx, 'proof', cov, [
        'symbolic links: the model works on paths as spelled (a linked directory is the directory it resolves to, under the spelled name); '
        'it has no notion of resolution, as the implementation has none. Workspaces with a link inside the work tree only go through the predicate',
        "go-git's status computation is an oracle: the key set returned by regal's GetChangedFiles is taken as given (it omits ignored files)",
        'os.Stat/filepath functions are modelled (Base/PathModel.v, Model/Commit.v fs_stat), validated by this correspondence only',
        'restorability is judged with the git CLI (git show HEAD:path) before the run',
        'runs with a concurrent writer go through the predicate only (before := the tree right after the edit; what the writer stored is not '
        'restorable): the status oracle is recorded on the tree before the edit, so the model is not asked about them',
    ])
