"""C03: linting is total — any module the parser accepts can be linted (partial claim, level `other`).

  1. framework correspondence: the multi-body functions / keyed rules of result/util/main/ast.comments/ast.imports/
     ast.function_decls evaluated by OPA on
     regal's real bundle (value / undefined / eval_conflict_error) against Model/Framework.v + Model/Location.v;
  2. the exercised remainder (TESTING): linter.Lint with ALL rules enabled over the regal bundle, the OPA
     conformance corpus, systematic families (parseable-but-not-compilable modules, comment placements, Rego-looking
     text quoted inside strings / raw strings / comments of v0-only, v1-only and both-version modules with detected
     and configured versions, line breaks at every token boundary), grammar-generated modules and mutations; plus
     LARGE single-call runs (>= 1000 small files in ONE Lint call, every rule and rule subsets; thorough: again with
     a harness built with -race), and (round 3) a LARGE run through the DISK path with a MIXED-VERSION configuration: a
     tree of >= 900 small files under a v0 root and a v1 root, read with rules.InputFromPaths for many rounds and linted
     through WithInputPaths + project roots: any error on this all-valid input is a violation. "Parseable" is decided by OPA's own parser (v1, then v0), not by regal's version
     detection. Any parse rejection / error / panic / runtime fatal / hang / race report on modules OPA accepts is a
     violation with the (minimised) modules as replay;
  3. proof gate for Props/C03.v.
"""
import base64, json, os, re
import vlib
from vlib import cstr, clist, copt, cZ
from common import proof_gate, proof_coverage
import c03c07 as shared
import c07 as loc


def jv(x):
    if x is None:
        return 'JNull'
    if isinstance(x, bool):
        return '(JBool %s)' % ('true' if x else 'false')
    if isinstance(x, int):
        return '(JNum %s)' % cZ(x)
    if isinstance(x, str):
        return '(JStr %s)' % cstr(x)
    if isinstance(x, list):
        return '(JArr %s)' % clist(jv(y) for y in x)
    if isinstance(x, dict):
        return '(JObj %s)' % clist('(%s, %s)' % (cstr(k), jv(v)) for k, v in sorted(x.items()))
    raise ValueError('unrepresentable JSON value %r' % (x,))


LITERALS = {   # the closed-query arguments of to_set / to_array
    '{1, 2}': '(JSet [JNum 1%Z; JNum 2%Z])', '[1, 2, 2]': '(JArr [JNum 1%Z; JNum 2%Z; JNum 2%Z])', 'set()': '(JSet [])', '[]': '(JArr [])',
    '{"a": 1}': '(JObj [([97]%N, JNum 1%Z)])', '5': '(JNum 5%Z)', '"s"': '(JStr [115]%N)', 'null': 'JNull',
    '{[1], [2]}': '(JSet [JArr [JNum 1%Z]; JArr [JNum 2%Z]])',
}

GENERATED_RR = [{'description': 'documentation', 'ref': 'https://docs.styra.com/regal/rules/cat/title'}]


def cls_of(got):
    if got.get('err'):
        return 'KConflict' if got['err'] == 'eval_conflict_error' else None
    return 'KVal' if got.get('defined') else 'KUndef'


def obs_generic(got, conv):
    if got.get('err'):
        return 'OError' if got['err'] == 'eval_conflict_error' else None
    if not got.get('defined'):
        return 'OUndef'
    return '(OVal %s)' % conv(got.get('val'))


def directive_rules(text):
    """the harness only writes the simple spellings ' regal ignore:a,b' / 'regal ignore:x' / ' plain'"""
    t = text.strip()
    i = t.find('regal ignore:')
    if i < 0:
        return None
    return re.sub(r'\s', '', t[i + 13:]).split(',')


def fcase_to_coq(c):
    h, got = c['helper'], c.get('got')
    a = c.get('args', {})
    if h == 'category_title_from_path':
        o = obs_generic(got, lambda v: '(%s, %s)' % (jv(v[0]), jv(v[1])))
        return None if o is None else 'FCTP %s %s' % (jv(a['path']), o)
    if h == 'related_resources':
        if got.get('err'):
            o = 'RConflict' if got['err'] == 'eval_conflict_error' else None
        elif not got.get('defined'):
            o = 'RUndef'
        else:
            o = 'RGenerated' if got.get('val') == GENERATED_RR else 'RGiven'
            if o == 'RGiven' and not (isinstance(a['ann'], dict) and got.get('val') == a['ann'].get('related_resources')):
                return None
        return None if o is None else 'FRR %s %s' % (jv(a['ann']), o)
    if h == 'fail':
        k = cls_of(got)
        return None if k is None else 'FFail %s %s %s' % (jv(a['meta']), jv(a['details']), k)
    if h == 'file_name_relative_to_root':
        o = obs_generic(got, cstr)
        return None if o is None else 'FFNR %s %s %s' % (cstr(a['f']), cstr(a['root']), o)
    if h == 'ignore_directives':
        cs = []
        for cm in a['comments']:
            row = int(cm['location'].split(':')[0])
            rules = directive_rules(base64.b64decode(cm['text']).decode())
            cs.append('(%s, %s)' % (cZ(row), copt(None if rules is None else clist(cstr(r) for r in rules))))
        if got.get('err'):
            g = 'None' if got['err'] == 'eval_conflict_error' else None
        elif not got.get('defined'):
            g = None
        else:
            g = '(Some %s)' % clist('(%s, %s)' % (cZ(int(k)), clist(cstr(r) for r in v)) for k, v in sorted(got['val'].items()))
        return None if g is None else 'FID %s %s' % (clist(cs), g)
    if h == 'imports':
        imps = clist('{| imp_path := %s; imp_alias := %s |}' % (clist(cstr(x) for x in i['path']), copt(None if i['alias'] is None else jv(i['alias'])))
                     for i in a['imports'])

        def opt_list_obs(g, conv):
            if g.get('err'):
                return 'None' if g['err'] == 'eval_conflict_error' else None
            if not g.get('defined') or not isinstance(g.get('val'), list):
                return None
            try:
                return '(Some %s)' % clist(conv(x) for x in g['val'])
            except (ValueError, TypeError, KeyError, IndexError):
                return None
        gi = opt_list_obs(c['got_ids'], jv)
        gr = opt_list_obs(c['got_res'], lambda kv: '(%s, %s)' % (jv(kv[0]), clist(cstr(x) for x in kv[1])))
        return None if gi is None or gr is None else 'FImp %s %s %s' % (imps, gi, gr)
    if h == 'function_decls':
        rules = clist('{| rs_name := %s; rs_args := %s |}' % (cstr(nm), 'None' if ar < 0 else '(Some %d%%nat)' % ar) for nm, ar in a['rules'])
        if got.get('err'):
            g = 'None' if got['err'] == 'eval_conflict_error' else None
        elif not got.get('defined') or not isinstance(got.get('val'), dict):
            g = None
        else:
            g = '(Some %s)' % clist('(%s, %d%%nat)' % (cstr(k), v) for k, v in sorted(got['val'].items()))
        return None if g is None else 'FDecl %s %s' % (rules, g)
    if h == 'propagation':
        return 'FProp %s %s' % (clist('true' if b else 'false' for b in c['singles']), 'true' if c['got_ok'] else 'false')
    if h in ('to_set', 'to_array'):
        k = cls_of(got)
        if k is None or c['arg'] not in LITERALS:
            return None
        flag = 'true' if (got.get('defined') and got['val'][0]) else 'false'
        return '%s %s %s %s' % ('FToSet' if h == 'to_set' else 'FToArray', LITERALS[c['arg']], k, flag)
    t = loc.case_to_coq(c)
    return None if t is None else 'FLoc (%s)' % t


def run(ctx):
    h = vlib.build_harness(ctx, 'c03')
    env = dict(os.environ, VERIF_SEED=str(ctx.seed))
    replay_modules = replay_opt = None
    replay_race = False
    if ctx.replay:
        rp = json.load(open(ctx.replay))
        if rp.get('modules'):
            replay_modules, replay_opt, replay_race = rp['modules'], rp.get('opt'), bool(rp.get('race'))

    # ---------------- 1. framework correspondence -------------------------------------------------------
    hout = os.path.join(ctx.tmp, 'helpers.jsonl')
    rc, log = vlib.run([h, 'helpers', hout, ctx.tier], env=env, timeout=900)
    if rc != 0:
        if 'panic:' in log or 'fatal error:' in log:
            # the helper process died inside OPA / a regal builtin: that is a crash of the code under test
            vlib.violation(ctx, {'kind': 'panic', 'what': 'evaluating the framework helpers through OPA crashed the process',
                                 'log': log[:3000]}, no_input=True)
        else:
            raise RuntimeError('c03 helper evaluation failed: ' + log[-2000:])
    cases = [json.loads(l) for l in open(hout)] if os.path.exists(hout) else []
    pout = os.path.join(ctx.tmp, 'propagation.jsonl')
    rc, log = vlib.run([h, 'propagation', pout, ctx.tier], env=env, timeout=900)
    props = []
    if rc != 0:
        if 'panic:' in log or 'fatal error:' in log:
            # linter.Lint crashed the process on the six-file pool of the propagation scenarios (harness/corpus/propagate.go);
            # the corpus run below isolates crashes per module and names the culprit
            m = re.search(r'(panic: [^\n]*|fatal error: [^\n]*)', log)
            vlib.violation(ctx, {'kind': 'panic', 'what': 'linter.Lint crashes the process while linting the propagation pool: ' + (m.group(1) if m else ''),
                                 'log': log[:3000]}, signature={'kind': 'panic', 'key': (m.group(1) if m else 'panic')[:120]})
        else:
            raise RuntimeError('c03 propagation scenarios failed: ' + log[-2000:])
    else:
        props = [json.loads(l) for l in open(pout)]
    cases += props
    coq, keep, unrep = [], [], []
    for c in cases:
        t = fcase_to_coq(c)
        if t is None:
            unrep.append(c)
        else:
            coq.append(t)
            keep.append(c)
    ev, cout = shared.eval_cases(ctx, 'Cases_C03', 'From Regal Require Import Check.C03Check.', 'c03case', coq,
                                 ['fcase_agrees', 'fcase_meets_spec'], ['fcase_conflict'])
    r1 = r2 = None
    conflicts_seen = 0
    if ev is not None:
        r1, r2 = ev[0]['fcase_agrees'], ev[0]['fcase_meets_spec']
        conflicts_seen = ev[1]['fcase_conflict']
    if r1 is None or r2 is None:
        if ctx.proofs_ok:
            raise RuntimeError('case evaluation failed:\n' + cout[-3000:])
        r1, r2 = [], []

    # ---------------- 2. the exercised remainder: lint the corpora with all rules enabled ------------------
    race_env = {'GORACE': 'halt_on_error=1'}
    if replay_race:
        # a race report is replayed with the harness built with -race
        summ = shared.run_corpus(ctx, vlib.build_harness(ctx, 'c03', race=True), 'C03', replay_modules, replay_opt, env_extra=race_env)
        best = shared.report_failures(ctx, summ, 'C03', race=True)
    else:
        summ = shared.run_corpus(ctx, h, 'C03', replay_modules, replay_opt)
        best = shared.report_failures(ctx, summ, 'C03')
    race_stats = None
    if not ctx.quick() and not ctx.replay:
        # thorough: the large single-call batches once more under the race detector; a report ends the worker process
        # (halt_on_error) and is handled like a crash: narrowed by halving, reported with the two stacks
        hr = vlib.build_harness(ctx, 'c03', race=True)
        rsumm = shared.run_corpus(ctx, hr, 'C03', mode='large', tag='_race', env_extra=race_env)
        rbest = shared.report_failures(ctx, rsumm, 'C03', race=True)
        best = dict(best, **{'race: ' + k: v for k, v in rbest.items()})
        race_stats = shared.corpus_stats(rsumm)

    # ---------------- verdicts of part 1 ---------------------------------------------------------------------
    for i in sorted(set(r2))[:3]:
        c = keep[i]
        vlib.violation(ctx, {'kind': 'framework-conflict', 'case': c,
                             'what': 'OPA raised eval_conflict_error in framework function %s on an input inside the premises of '
                                     'c03_framework_conflict_free' % c['helper']},
                       signature={'kind': 'framework-conflict', 'key': json.dumps([c['helper'], c.get('args')], sort_keys=True)})
    if r1 and not [x for x in ctx.violations if not x[1]]:
        by = {}
        for i in r1:
            by.setdefault(keep[i]['helper'], []).append(i)
        for hname, idx in sorted(by.items())[:3]:
            vlib.violation(ctx, {'kind': 'correspondence', 'relation': 'Check.C03Check.fcase_agrees: Model/Framework.v (or Location.v) vs %s' % hname,
                                 'case': keep[idx[0]], 'n_mismatches': len(idx)}, no_input=True)
    if unrep and not ctx.violations:
        vlib.violation(ctx, {'kind': 'correspondence', 'relation': 'framework helper output outside the shape the model speaks about '
                             '(incl. an evaluation error other than eval_conflict_error)', 'case': unrep[0], 'n': len(unrep)}, no_input=True)
    # a report that was returned must cover every file of the batch (model: the pieces of all files)
    for c in props:
        if c['got_ok'] and c['files_scanned'] != len(c['files']) and not ctx.violations:
            vlib.violation(ctx, {'kind': 'correspondence', 'relation': 'Model/LintErr.v lint: a returned report has one piece per file',
                                 'case': c}, no_input=True)
    proof_gate(ctx)

    # ---------------- evidence ---------------------------------------------------------------------------------
    st = shared.corpus_stats(summ)
    hist = {}
    for c in keep:
        hist[c['helper']] = hist.get(c['helper'], 0) + 1
    distinct = len({json.dumps(c, sort_keys=True) for c in keep})
    cov = proof_coverage(ctx, {
        'explanation': 'framework layer modelled and proved (error propagation of Lint; conflict-freeness of the multi-body framework '
                       'functions; theorems under Props/C03.v, kernel-checked). The quantification over the ~90 Rego rule bodies, OPA and '
                       'roast is exercised only by linting corpora with all rules enabled: testing, not proof',
        'evaluations': len(keep) + st['lint_calls'],
        'distinct_nontrivial': distinct + st['modules_linted'],
        'rule': 'framework cases: distinct (function, arguments) tuples evaluated by OPA and by the model; corpus: distinct parseable modules '
                'linted with all rules enabled (bundle files, OPA conformance modules de-duplicated by text, stress shapes, the systematic '
                'families "uncompilable" (what the parser accepts and the compiler refuses: shadowing/duplicate imports, rule kinds under one '
                'name, conflicting defaults, unsafe vars, recursion, unknown functions, wrong arities, assignments to taken names, with '
                'targets, type errors) and "comment placement" (a comment at every token boundary / pair of boundaries of every bracketed '
                'construct), "quoted rego" (package/import/rule/directive/METADATA-looking lines inside raw strings, strings and comments of '
                'v0-only, v1-only and both-version modules, version detected and configured) and "line breaks" (a break at every token '
                'boundary of every kind of head and body expression), grammar-generated modules, mutations), batched per Lint call with '
                'bisection of failing batches, crash isolation and minimisation in worker processes, plus single-file runs, plus large '
                'single-call runs (>= 1000 small files in ONE Lint call, every rule and rule subsets, GOMAXPROCS >= 16; thorough: again '
                'under the race detector), plus a tree of >= 900 files on disk under a v0 and a v1 root read with rules.InputFromPaths '
                '(corpus.disk_read_rounds rounds) and linted through WithInputPaths. "Parseable" is decided by OPA\'s own parser tried as v1 and v0, independently of regal\'s '
                'version detection: a module OPA accepts and regal cannot parse is a violation',
        'propagation_scenarios': len(props), 'propagation_failing_singles': sorted({f for c in props if len(c['files']) == 1 and not c['got_ok'] for f in c['files']}),
        'framework_cases': len(keep), 'framework_cases_by_function': hist, 'conflict_errors_observed_outside_premises': conflicts_seen - len(set(r2)),
        'mismatch_model': len(r1), 'mismatch_spec': len(r2), 'unrepresentable': len(unrep),
        'corpus': st,
        'large_runs_under_race_detector': race_stats,
        'lint_failure_signatures': sorted(best),
        'samples': [keep[len(keep) // 3], keep[len(keep) // 2]] if keep else [],
        'exhaustive': False,
    })
    return vlib.finish(ctx, 'other', cov, [
        'rule bodies, OPA evaluation, roast transform and result conversion are oracles of Model/LintErr.v; that they never fail on a '
        'parseable module is exercised by the corpus runs only',
        'the select in lintWithRegoRules is modelled with an explicit scheduling choice; the error-dropping schedule was not reproduced '
        'on the real code (3000 runs)',
        'else-chains and boolean-only multi-body functions of the framework are conflict free by construction and not modelled',
        'annotated/_fail_annotated bodies are oracles; their definedness on the generated shapes is part of the correspondence',
    ])
