"""C08: each documented rule flags its documented Avoid example and accepts the Prefer one; the verdict is
unchanged under layout-preserving re-embedding (partial, enumerative claim; evidence level `other`).

* table: tools/gen/docs_table.py (regenerated from <repo>/docs/rules on every run; Coq obligations over its shape in
  Props/C08.v); non-self-contained pages run through corpus/C08/<category>/<rule>/case.json.
* predicate on the implementation: for every scenario x embedding, lint with ONLY that rule enabled; Avoid must be
  reported, Prefer must not; oracle = the docs' own labelling.
* correspondence with Model/Layout.v: the Go harness re-embeds the *text*; the model re-embeds the *line table*. Coq
  checks (vm_compute) that the text is the rendering of the model's line table, that the reported rows are the identity
  run's rows moved through the model's index map, and that reported line texts are the model's lines (no trailing CR)."""
import importlib.util, json, os, re
import vlib
from vlib import cstr, clist
from common import proof_gate, proof_coverage

CORPUS = os.path.join(vlib.VERIF, 'corpus', 'C08')


def _gen():
    spec = importlib.util.spec_from_file_location('docs_table', os.path.join(vlib.VERIF, 'tools', 'gen', 'docs_table.py'))
    m = importlib.util.module_from_spec(spec)
    spec.loader.exec_module(m)
    return m


def wrap(text):
    """the documented wrapping: a snippet without a package clause is put into `package policy`"""
    if re.search(r'^package\s', text, re.M):
        return text, False
    return 'package policy\n\n' + text, True


def file_text(row, fdir, f):
    if 'docs' in f:
        lab, i = f['docs']
        blocks = row[lab]
        if i >= len(blocks):
            raise RuntimeError('fixture %s/%s refers to docs block %s[%d] which the page no longer has'
                               % (row['category'], row['name'], lab, i))
        return wrap(blocks[i])[0]
    if 'file' in f:
        return open(os.path.join(fdir, f['file']), encoding='utf-8').read()
    return f['text']


def build_cases(table):
    """-> (cases, problems): one case per (page, label, scenario)"""
    aggregate = {tuple(x) for x in table['aggregate']}
    cases, problems = [], []
    for row in table['rows']:
        if row['kind'] == 'KRedirect':
            continue
        key = row['category'] + '/' + row['name']
        fdir = os.path.join(CORPUS, row['category'], row['name'])
        fx = json.load(open(os.path.join(fdir, 'case.json'))) if row['fixture'] else None
        if fx is None:
            if row['kind'] != 'KPair':
                problems.append({'kind': 'no-example-no-fixture', 'page': key, 'page_kind': row['kind']})
                continue
            fx = {'avoid': [{'files': [{'name': 'policy.rego', 'docs': ['avoid', 0]}]}],
                  'prefer': [{'files': [{'name': 'policy.rego', 'docs': ['prefer', 0]}]}]}
        used = set()
        for lab in ('avoid', 'prefer'):
            for si, sc in enumerate(fx[lab]):
                files = []
                for f in sc['files']:
                    if 'docs' in f:
                        used.add(tuple(f['docs']))
                    files.append({'name': f['name'], 'text': file_text(row, fdir, f)})
                cases.append({
                    'id': len(cases), 'category': row['category'], 'rule': row['name'], 'label': lab, 'scenario': si,
                    'files': files, 'config_yaml': sc.get('config_yaml', fx.get('config_yaml', '')),
                    'embed': sc.get('embed', fx.get('embed', 'all')),
                    'batch': (row['category'], row['name']) not in aggregate and len(files) == 1,
                    'from_docs': any('docs' in f for f in sc['files']),
                    'wrapped': any('docs' in f and wrap(row[f['docs'][0]][f['docs'][1]])[1] for f in sc['files']),
                })
        # every rego block the page shows under Avoid/Prefer must be exercised
        for lab in ('avoid', 'prefer'):
            for i in range(len(row[lab])):
                if (lab, i) not in used:
                    problems.append({'kind': 'docs-block-not-exercised', 'page': key, 'block': [lab, i]})
    return cases, problems


def run_harness(ctx, h, cases, mode, tag):
    cj = os.path.join(ctx.tmp, 'cases_%s.json' % tag)
    out = os.path.join(ctx.tmp, 'out_%s.jsonl' % tag)
    json.dump(cases, open(cj, 'w'))
    wd = os.path.join(ctx.tmp, 'wd')
    os.makedirs(wd, exist_ok=True)
    rc, log = vlib.run([h, cj, out, mode], cwd=wd, env=dict(os.environ, VERIF_SEED=str(ctx.seed)), timeout=3000)
    if rc != 0:
        raise RuntimeError('c08 harness failed: ' + log[-2000:])
    return [json.loads(l) for l in open(out)]
