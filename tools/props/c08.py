"""C08: each documented rule flags its documented Avoid example and accepts the Prefer one; the verdict is
unchanged under layout-preserving re-embedding (partial, enumerative claim; evidence level `other`).

* table: tools/gen/docs_table.py (regenerated from <repo>/docs/rules on every run; Coq obligations over its shape in
  Props/C08.v); non-self-contained pages run through corpus/C08/<category>/<rule>/case.json.
* predicate on the implementation: for every scenario x embedding, lint with ONLY that rule enabled; Avoid must be
  reported, Prefer must not; oracle = the docs' own labelling.
* correspondence with Model/Layout.v: the Go harness re-embeds the *text*; the model re-embeds the *line table*. Coq
  checks (vm_compute) that the text is the rendering of the model's line table, that the reported rows are the identity
  run's rows moved through the model's index map, and that reported line texts are the model's lines (no trailing CR).
* boundary shifts (Model/Layout.v boundary_shifts, Props/C08.v c08_boundary_shifts_cover): code that compares or orders
  rows as text goes wrong only where row numbers get one more digit, so on top of the embeddings of the tier every
  example is linted with k blank lines at the top for every k = t - r, r a row of the example, t in 9, 99 (, 999):
  every pair of rows is put on the two sides of 9|10 and of 99|100 by some embedding.  Coq recomputes the selection
  from the model for every example text (shifts_cover, rows_reach) and checks each shifted text by digest."""
import importlib.util, json, os, re
import vlib
from vlib import cstr, clist
from common import proof_gate, proof_coverage

CORPUS = os.path.join(vlib.VERIF, 'corpus', 'C08')


def _gen():
    spec = importlib.util.spec_from_file_location('docs_table', os.path.join(vlib.VERIF, 'tools', 'gen', 'docs_table.py'))
    m = importlib.util.module_from_spec(spec)
    spec.loader.exec_module(m)
    return m


class MissingBlock(Exception):
    pass


def wrap(text):
    """the documented wrapping: a snippet without a package clause is put into `package policy`"""
    if re.search(r'^package\s', text, re.M):
        return text, False
    return 'package policy\n\n' + text, True


def file_text(row, fdir, f):
    if 'docs' in f:
        lab, i = f['docs']
        blocks = row[lab]
        if i >= len(blocks):
            raise MissingBlock('%s[%d]' % (lab, i))
        return wrap(blocks[i])[0]
    if 'file' in f:
        return open(os.path.join(fdir, f['file']), encoding='utf-8').read()
    return f['text']


def build_cases(table):
    """-> (cases, problems): one case per (page, label, scenario)"""
    aggregate = {tuple(x) for x in table['aggregate']}
    cases, problems = [], []
    for row in table['rows']:
        if row['kind'] == 'KRedirect':
            continue
        key = row['category'] + '/' + row['name']
        fdir = os.path.join(CORPUS, row['category'], row['name'])
        fx = json.load(open(os.path.join(fdir, 'case.json'))) if row['fixture'] else None
        if fx is None:
            if row['kind'] != 'KPair':
                problems.append({'kind': 'no-example-no-fixture', 'page': key, 'page_kind': row['kind']})
                continue
            fx = {'avoid': [{'files': [{'name': 'policy.rego', 'docs': ['avoid', 0]}]}],
                  'prefer': [{'files': [{'name': 'policy.rego', 'docs': ['prefer', 0]}]}]}
        used = set()
        for lab in ('avoid', 'prefer'):
            for si, sc in enumerate(fx[lab]):
                files = []
                try:
                    for f in sc['files']:
                        if 'docs' in f:
                            used.add(tuple(f['docs']))
                        files.append({'name': f['name'], 'text': file_text(row, fdir, f)})
                except MissingBlock as e:
                    # the page lost a block the fixture builds on
                    problems.append({'kind': 'fixture-refers-to-missing-docs-block', 'page': key, 'block': str(e)})
                    continue
                cases.append({
                    'id': len(cases), 'category': row['category'], 'rule': row['name'], 'label': lab, 'scenario': si,
                    'files': files, 'config_yaml': sc.get('config_yaml', fx.get('config_yaml', '')),
                    'embed': sc.get('embed', fx.get('embed', 'all')),
                    # several copies of a single-file example may share one lint call, unless the rule looks
                    # across files (aggregate) or at the path of the file
                    'batch': ((row['category'], row['name']) not in aggregate and len(files) == 1
                              and '/' not in files[0]['name'] and row['reason'] != 'RFileName'
                              and fx.get('batch', True)),
                    'from_docs': any('docs' in f for f in sc['files']),
                    'wrapped': any('docs' in f and wrap(row[f['docs'][0]][f['docs'][1]])[1] for f in sc['files']),
                })
        # every rego block the page shows under Avoid/Prefer must be exercised
        for lab in ('avoid', 'prefer'):
            for i in range(len(row[lab])):
                if (lab, i) not in used:
                    problems.append({'kind': 'docs-block-not-exercised', 'page': key, 'block': [lab, i]})
    return cases, problems


def run_harness(ctx, h, cases, mode, tag):
    cj = os.path.join(ctx.tmp, 'cases_%s.json' % tag)
    out = os.path.join(ctx.tmp, 'out_%s.jsonl' % tag)
    json.dump(cases, open(cj, 'w'))
    wd = os.path.join(ctx.tmp, 'wd')
    os.makedirs(wd, exist_ok=True)
    rc, log = vlib.run([h, cj, out, mode], cwd=wd, env=dict(os.environ, VERIF_SEED=str(ctx.seed)), timeout=3000)
    if rc != 0:
        raise RuntimeError('c08 harness failed: ' + log[-2000:])
    return [json.loads(l) for l in open(out)]


# ------------------------------------------------------------------------------------------------- Coq side

def coq_ops(emb):
    out, n = [], 0
    for o in emb:
        if o[0] == 'P':
            out.append('OBlankPkg %d%%nat' % int(o[1:]))
        elif o[0] == 'T':
            out.append('OBlankTop %d%%nat' % int(o[1:]))
        elif o == 'C':
            out.append('OCrlf')
        elif o == 'A':
            n += 1
            out.append('OAppend [[]; %s; []]' % cstr('zz_verif_unrelated_%d := %d' % (n, n)))
        elif o[0] == 'F':
            n += 1
            args = ', '.join('zz_' + chr(97 + i) for i in range(int(o[1:])))
            out.append('OAppend [[]; %s; []]' % cstr('zz_verif_unrelated_%d(%s) := [%s]' % (n, args, args)))
        else:
            raise ValueError(o)
    return clist(out)


def locs(vs):
    return clist('(%d, %d, %d, %d)' % (v['row'], v['col'], v['erow'], v['ecol']) for v in vs)


def pstr(s):
    """text -> Coq term of type str, spelled as 7 bytes per primitive integer (Base/Packed.v): Coq elaborates that an
    order of magnitude faster than a list of byte literals"""
    b = s.encode('utf-8', 'surrogateescape') if isinstance(s, str) else bytes(s)
    words = [len(b)] + [int.from_bytes(b[i:i + 7].ljust(7, b'\0'), 'big') for i in range(0, len(b), 7)]
    return '(packed [%s]%%uint63)' % ';'.join(map(str, words))


def chunked(v, name, typ, rows, n=400):
    """long list literals overflow Coq's stack: define them in pieces"""
    parts = []
    for k in range(0, len(rows), n):
        parts.append('%s_%d' % (name, k // n))
        v.append('Definition %s : list %s := %s.' % (parts[-1], typ, clist(rows[k:k + n])))
    v.append('Definition %s : list %s := %s.' % (name, typ, ' ++ '.join(parts + ['[]'])))


class Shard:
    """one generated case file; the evaluation is split over a few of them (coqc is single-threaded)"""
    def __init__(self, name):
        self.name = name
        self.v = ['From Coq Require Import Uint63.', 'From Regal Require Import Check.C08Check.', 'Open Scope N_scope.']
        self.defined, self.interned, self.marks = {}, {}, []

    def orig(self, c, fi):
        k = (c['id'], fi)
        if k not in self.defined:
            self.defined[k] = 't_%d_%d' % k
            self.v.append('Definition %s : str := Eval vm_compute in %s.' % (self.defined[k], pstr(c['files'][fi]['text'])))
        return self.defined[k]

    def intern(self, prefix, typ, term):
        if len(term) < 12:
            return term
        if (prefix, term) not in self.interned:
            self.interned[(prefix, term)] = '%s_%d' % (prefix, len(self.interned))
            self.v.append('Definition %s : %s := %s.' % (self.interned[(prefix, term)], typ, term))
        return self.interned[(prefix, term)]

    def texts_of(self, embv):
        return clist('(%d, %s)' % (x['row'], self.intern('x', 'str', pstr(x['text']))) for x in embv if x['has_text'] and x['row'] > 0)

    def failing(self, mark, fn, lst):
        self.v.append('Definition %s := Eval vm_compute in failing %s 0 %s.' % (mark, fn, lst))
        self.marks.append(mark)

    def run(self, ctx, res):
        try:
            self.v.append(' '.join('Print %s.' % m for m in self.marks))
            rc, out = vlib.coq_eval(ctx, self.name, '\n'.join(self.v), timeout=1500)
            if rc != 0:
                raise RuntimeError('case evaluation failed:\n' + out[-3000:])
            r = {m: vlib.parse_nat_list(out, m) for m in self.marks}
            if any(x is None for x in r.values()):
                raise RuntimeError('cannot parse Coq output:\n' + out[-2000:])
            res[self.name] = r
        except BaseException as e:      # re-raised by the caller
            res[self.name] = e


def coq_check(ctx, items, digs=(), covers=(), name='Cases_C08'):
    """items:  [(case, file_index, emb, got_text, id_viols, emb_viols)]
       digs:   [(case, file_index, emb, {'len','hash'}, id_viols, emb_viols)]   (boundary shifts: text by digest)
       covers: [(case, file_index, nonblank_only, targets, shifts_used)]
    -> index lists of the failing cases: text_agrees, rows_agree, texts_agree over items (R1-R3); dig_text_agrees,
       dig_rows_agree, dig_texts_agree over digs (R5-R7); shifts_cover, rows_reach over covers (R8, R9)"""
    import threading
    shards = []
    a = Shard(name + '_full')
    chunked(a.v, 'cases', 'emb_case', [
        '{| e_orig := %s; e_ops := %s; e_got := %s; e_id := %s; e_emb := %s; e_texts := %s |}' % (
            a.orig(c, fi), coq_ops(emb), pstr(got), locs(idv), locs(embv), a.texts_of(embv))
        for (c, fi, emb, got, idv, embv) in items])
    a.failing('R1', 'text_agrees', 'cases')
    a.failing('R2', 'rows_agree', 'cases')
    a.failing('R3', 'texts_agree', 'cases')
    shards.append((a, 0))
    digs = list(digs)
    nsh = 1 if len(digs) < 800 else (2 if len(digs) < 6000 else 4)
    per = (len(digs) + nsh - 1) // nsh if digs else 0
    for k in range(nsh if digs else 0):
        b = Shard('%s_dig%d' % (name, k))
        chunked(b.v, 'dcases', 'dig_case', [
            '{| d_orig := %s; d_ops := %s; d_len := %d; d_hash := %d%%uint63; d_id := %s; d_emb := %s; d_texts := %s |}' % (
                b.orig(c, fi), coq_ops(emb), dg['len'], dg['hash'], b.intern('L', 'list loc', locs(idv)), locs(embv), b.texts_of(embv))
            for (c, fi, emb, dg, idv, embv) in digs[k * per:(k + 1) * per]])
        b.failing('R5', 'dig_text_agrees', 'dcases')
        b.failing('R6', 'dig_rows_agree', 'dcases')
        b.failing('R7', 'dig_texts_agree', 'dcases')
        shards.append((b, k * per))
    cs = Shard(name + '_cover')
    chunked(cs.v, 'ccases', 'cover_case', [
        '{| c_text := %s; c_nonblank := %s; c_targets := %s; c_used := %s |}' % (
            cs.orig(c, fi), vlib.cbool(nonblank), clist('%d%%nat' % t for t in targets), clist('%d%%nat' % k for k in used))
        for (c, fi, nonblank, targets, used) in covers])
    cs.failing('R8', 'shifts_cover', 'ccases')
    cs.failing('R9', 'rows_reach', 'ccases')
    # self-test of the glue: a wrong digest, and a selection that lacks one shift, must be flagged
    if digs:
        c, fi, emb, dg, idv, embv = digs[0]
        cs.failing('S1', 'dig_text_agrees', '[{| d_orig := %s; d_ops := %s; d_len := %d; d_hash := %d%%uint63; d_id := []; d_emb := []; '
                   'd_texts := [] |}]' % (cs.orig(c, fi), coq_ops(emb), dg['len'], dg['hash'] ^ 1))
    pert = [x for x in covers if x[4]]
    if pert:
        c, fi, nonblank, targets, used = pert[0]
        cs.failing('S2', '(fun c => shifts_cover c && rows_reach c)', '[{| c_text := %s; c_nonblank := %s; c_targets := %s; c_used := %s |}]' % (
            cs.orig(c, fi), vlib.cbool(nonblank), clist('%d%%nat' % t for t in targets), clist('%d%%nat' % k for k in used[1:])))
    shards.append((cs, 0))
    res, ths = {}, []
    for sh, _ in shards:
        ths.append(threading.Thread(target=sh.run, args=(ctx, res)))
        ths[-1].start()
    for t in ths:
        t.join()
    r = {m: [] for m in ('R1', 'R2', 'R3', 'R5', 'R6', 'R7', 'R8', 'R9')}
    for sh, off in shards:
        if isinstance(res[sh.name], BaseException):
            raise res[sh.name]
        for m, idx in res[sh.name].items():
            r.setdefault(m, []).extend(off + i for i in idx)
    for m in ('S1', 'S2'):
        if m in r and r[m] != [0]:
            raise RuntimeError('self-test failed: a perturbed %s was not flagged by Check.C08Check' %
                               ('digest' if m == 'S1' else 'shift selection'))
    return r


def line_table_texts(ctx, cases):
    """texts for the PrepareAST tie: a seeded sample of example texts as they are, CRLF, half CRLF, plus
    hand-made ones with stray CRs"""
    uniq = sorted({f['text'] for c in cases for f in c['files'] if len(f['text']) < 2500})
    n = 40 if ctx.quick() else 160
    pick = sorted(ctx.rng.shuffle(uniq)[:n])
    out = []
    for t in pick:
        half = len(t) // 2
        out += [t, t.replace('\n', '\r\n'), t[:half].replace('\n', '\r\n') + t[half:]]
    out += ['package p\n', 'package p', 'package p\r\n', 'package p\r\n\r\n# a\r\r\nx := 1\r\n',
            'package p\n\n# c\rd\nx := 1', 'package p\r\n\r\nx := `a\r\nb`\r\n', 'package p\n\n\n\n']
    return out


def line_table_check(ctx, texts):
    """-> (n_compared, indices whose PrepareAST lines differ from Model.Layout.regal_lines)"""
    inp = os.path.join(ctx.tmp, 'c08_lines_in.json')
    outp = os.path.join(ctx.tmp, 'c08_lines_out.json')
    json.dump(texts, open(inp, 'w'))
    rc, log = vlib.go_test_overlay(ctx, './internal/parse', {'internal/parse/zz_verif_c08_test.go':
                                   os.path.join(vlib.VERIF, 'harness', 'overlay', 'c08_test.go')},
                                   'TestVerifC08', env_extra={'VERIF_C08_IN': inp, 'VERIF_C08_OUT': outp})
    if rc != 0 or not os.path.exists(outp):
        raise vlib.HarnessBuildError('overlay test internal/parse failed:\n' + log[-2000:])
    got = json.load(open(outp))
    pairs = [(t, g) for t, g in zip(texts, got) if g is not None]
    v = ['From Regal Require Import Check.C08Check.', 'Open Scope N_scope.',
         'Definition pairs : list (str * list str) := ' + clist(
             '(%s, %s)' % (cstr(t), clist(cstr(l) for l in g)) for t, g in pairs) + '.',
         'Definition R4 := Eval vm_compute in failing lines_agree 0 pairs.', 'Print R4.']
    rc, out = vlib.coq_eval(ctx, 'Cases_C08_lines', '\n'.join(v), timeout=900)
    if rc != 0:
        raise RuntimeError('case evaluation failed:\n' + out[-3000:])
    r4 = vlib.parse_nat_list(out, 'R4')
    if r4 is None:
        raise RuntimeError('cannot parse Coq output:\n' + out[-2000:])
    return pairs, r4


# ------------------------------------------------------------------------------------------------- verdicts

def emb_cost(emb):
    return (len(emb), sum(int(o[1:]) if o[0] in 'PT' else 0 for o in emb), emb)


def mine(c, res):
    return [x for x in res['violations'] if x['title'] == c['rule']]


def verdict_problem(c, res):
    """None when the run shows the documented verdict"""
    if res['error']:
        return 'example-does-not-lint'
    if any(x['title'] != c['rule'] for x in res['violations']):
        return 'foreign-rule-reported'
    flagged = bool(mine(c, res))
    if c['label'] == 'avoid' and not flagged:
        return 'avoid-not-flagged'
    if c['label'] == 'prefer' and flagged:
        return 'prefer-flagged'
    return None


def case_key(c):
    return '%s/%s %s#%d' % (c['category'], c['rule'], c['label'], c['scenario'])


def run(ctx):
    import time
    phases, t_last = {'coq_build_and_props': round(time.time() - ctx.t0, 1)}, [time.time()]

    def phase(name):
        phases[name] = round(time.time() - t_last[0], 1)
        t_last[0] = time.time()
    gen = _gen()
    table = gen.build_table(vlib.REPO)
    cases, problems = build_cases(table)
    # boundary shifts: which target rows, and whether blank rows of the example are put there too.  Examples that can
    # share a lint call get every row on rows 9 and 99 (999 in the thorough tier); the others (a lint call per
    # embedding) every non-blank row on row 9 in the quick tier, every row on rows 9 and 99 in the thorough tier
    for c in cases:
        if c['batch']:
            c['shift_targets'], c['shift_rows'] = ([9, 99] if ctx.quick() else [9, 99, 999]), 'all'
        else:
            c['shift_targets'], c['shift_rows'] = ([9], 'nonblank') if ctx.quick() else ([9, 99], 'all')
        # a fixture may bound the number of inserted blank lines (rules that measure the file): targets whose shifts
        # (up to t - 1 lines) could exceed the bound are not asked for
        m = re.search(r'maxblank(\d+)', c['embed'])
        if m:
            c['shift_targets'] = [t for t in c['shift_targets'] if t - 1 <= int(m.group(1))]
    h = vlib.build_harness(ctx, 'c08')
    phase('harness_build')
    mode = ctx.tier
    rp = None
    if ctx.replay:
        rp = json.load(open(ctx.replay))
        if rp.get('kind') == 'line-table':
            pairs, badl = line_table_check(ctx, [rp['text']])
            if badl:
                vlib.violation(ctx, {'kind': 'line-table', 'text': rp['text'], 'prepare_ast_lines': pairs[0][1],
                                     'what': 'replayed: parse.PrepareAST line table differs from the model'},
                               signature=rp.get('signature'))
            proof_gate(ctx)
            return vlib.finish(ctx, 'other', proof_coverage(ctx, {'explanation': 'replay of one line-table case',
                               'evaluations': 1, 'distinct_nontrivial': 1, 'rule': 'replay'}), [])
        if 'case' in rp:
            c = dict(rp['case'])
            c['id'] = 0
            c['embeddings'] = [[]] + ([rp['emb']] if rp.get('emb') else [])
            cases, problems, mode = [c], [], 'replay'
    lt = {}
    th = None
    if mode != 'replay':
        import threading
        lt_texts = line_table_texts(ctx, cases)

        def _lt():
            try:
                lt['pairs'], lt['bad'] = line_table_check(ctx, lt_texts)
            except BaseException as e:      # re-raised in the main thread
                lt['exc'] = e
        th = threading.Thread(target=_lt)
        th.start()
    results = run_harness(ctx, h, cases, mode, 'main')
    phase('harness_run')
    results.sort(key=lambda r: (r['id'], len(r['emb']), r['emb'], r['mode']))

    for p in problems[:3]:
        vlib.violation(ctx, dict(p, what='docs table / fixture inconsistency'), no_input=True,
                       signature={'kind': p['kind'], 'key': p['page']})

    by = {}       # (id, emb) -> {mode: result}
    dups = []
    for r in results:
        if r['mode'] == 'dup':
            dups.append(r)
            continue
        by.setdefault((r['id'], tuple(r['emb'])), {})[r['mode']] = r

    def primary(cid, emb):
        d = by.get((cid, tuple(emb)))
        if not d:
            return None
        return d.get('single') or d.get('batch')

    # ---- the property itself, on the implementation: documented verdict under every embedding ------------
    bad = {}      # case id -> [(emb, kind, result)]
    batch_mismatch = []
    for (cid, emb), d in sorted(by.items(), key=lambda kv: (kv[0][0], emb_cost(list(kv[0][1])))):
        c = cases[cid]
        for m, r in d.items():
            k = verdict_problem(c, r)
            if k:
                bad.setdefault(cid, []).append((list(emb), k, r))
        if 'single' in d and 'batch' in d and not d['single']['error'] and not d['batch']['error']:
            if mine(c, d['single']) != mine(c, d['batch']):
                batch_mismatch.append((c, list(emb), d))
    n_reported = 0
    for cid in sorted(bad):
        c = cases[cid]
        emb, kind, r = min(bad[cid], key=lambda t: emb_cost(t[0]))
        ident_bad = any(not e for e, _, _ in bad[cid])
        if ident_bad:
            sig = {'kind': kind, 'key': case_key(c)}
            what = '%s: %s on the unchanged example' % (case_key(c), kind)
        else:
            sig = {'kind': 'verdict-changes-under-embedding', 'key': '%s %s' % (case_key(c), ','.join(emb))}
            what = '%s: documented verdict holds for the example as printed, but %s under embedding %s' % (
                case_key(c), kind, emb)
        if vlib.violation(ctx, {'kind': sig['kind'], 'what': what, 'case': c, 'emb': emb, 'observed': {
                'error': r['error'], 'violations': r['violations'], 'notices': r['notices'], 'mode': r['mode'],
                'texts': r.get('texts')}}, signature=sig):
            n_reported += 1
        if n_reported >= 4:
            break
    for c, emb, d in batch_mismatch[:1]:
        vlib.violation(ctx, {'kind': 'batch-differs-from-single', 'case': c, 'emb': emb,
                             'what': '%s under %s: linted alone and linted next to other files give different reports'
                                     % (case_key(c), emb),
                             'single': d['single']['violations'], 'batch': d['batch']['violations']},
                       signature={'kind': 'batch-differs-from-single', 'key': case_key(c)})

    # ---- correspondence with the layout model --------------------------------------------------------------
    items, meta = [], []
    digs, dmeta, covers, cmeta = [], [], [], []
    keys = sorted(by)
    shifted = [k for k in keys if any(r.get('shift') for r in by[k].values())]
    sh = set(shifted)
    base = [k for k in keys if len(k[1]) <= 1 and k not in sh]
    comp = [k for k in keys if len(k[1]) > 1]
    if len(comp) > 1500:
        comp = sorted(ctx.rng.shuffle(comp)[:1500])
    dup_sample = dups if len(dups) <= 600 else ctx.rng.shuffle(sorted(dups, key=lambda r: (r['id'], r['emb'])))[:600]
    chosen = [(cid, emb, None) for cid, emb in base + comp] + \
             [(r['id'], tuple(r['emb']), tuple(r['dup_of'])) for r in dup_sample]
    for cid, emb, dup_of in chosen:
        c = cases[cid]
        ident = primary(cid, ())
        r = primary(cid, dup_of if dup_of is not None else emb)
        if ident is None or r is None or ident['error'] or r['error'] or 'texts' not in r:
            continue
        for fi, f in enumerate(c['files']):
            idv = [x for x in mine(c, ident) if x['file'] == f['name']]
            embv = [x for x in mine(c, r) if x['file'] == f['name']]
            items.append((c, fi, list(emb), r['texts'][f['name']], idv, embv))
            meta.append((cid, list(emb), fi, dup_of))
    for cid, emb in shifted:
        c = cases[cid]
        ident = primary(cid, ())
        r = primary(cid, emb)
        if ident is None or r is None or ident['error'] or r['error'] or 'digests' not in r:
            continue
        for fi, f in enumerate(c['files']):
            idv = [x for x in mine(c, ident) if x['file'] == f['name']]
            embv = [x for x in mine(c, r) if x['file'] == f['name']]
            digs.append((c, fi, list(emb), r['digests'][f['name']], idv, embv))
            dmeta.append((cid, list(emb), fi, None))
    for c in cases:
        ident = primary(c['id'], ())
        if mode == 'replay' or ident is None or any(x in c['embed'] for x in ('none', 'noblank', 'notop')):
            continue
        for fi, f in enumerate(c['files']):
            # the harness selects per case (all its files shift together): the union must cover each file
            covers.append((c, fi, c['shift_rows'] == 'nonblank', c['shift_targets'], ident.get('shifts_used') or []))
            cmeta.append((c['id'], fi))
    r1 = r2 = r3 = []
    rr = {}
    if items or digs or covers:
        phase('verdicts')
        rr = coq_check(ctx, items, digs, covers)
        phase('coq_eval')
        r1, r2, r3 = rr['R1'], rr['R2'], rr['R3']
    # rows / location texts: the full-text cases and the boundary shifts together
    all_meta = meta + dmeta
    all_items = items + digs
    r2 = r2 + [len(items) + i for i in rr.get('R6', [])]
    r3 = r3 + [len(items) + i for i in rr.get('R7', [])]
    meta_full, items_full = meta, items
    meta, items = all_meta, all_items
    seen_rules = set()
    for i in r2:
        cid, emb, fi, dup_of = meta[i]
        c = cases[cid]
        if c['rule'] in seen_rules:
            continue
        seen_rules.add(c['rule'])
        # smallest embedding of that rule failing the relation
        cands = [meta[j] for j in r2 if cases[meta[j][0]]['rule'] == c['rule']]
        cid, emb, fi, dup_of = min(cands, key=lambda m: emb_cost(m[1]))
        c = cases[cid]
        it = items[[j for j in r2 if meta[j] == (cid, emb, fi, dup_of)][0]]
        vlib.violation(ctx, {'kind': 'location-not-equivariant', 'case': c, 'emb': emb, 'file': c['files'][fi]['name'],
                             'what': '%s: reported rows are not the rows of the unchanged example moved through the '
                                     'embedding %s (Check.C08Check.rows_agree, via c08_layout_preserves_lines)'
                                     % (case_key(c), emb),
                             'identity_locations': it[4], 'embedded_locations': it[5]},
                       signature={'kind': 'location-not-equivariant', 'key': c['category'] + '/' + c['rule']})
        if len(ctx.violations) >= 5:
            break
    seen_rules = set()
    for i in r3:
        cid, emb, fi, dup_of = meta[i]
        c = cases[cid]
        if c['rule'] in seen_rules:
            continue
        seen_rules.add(c['rule'])
        vlib.violation(ctx, {'kind': 'location-text-not-a-line', 'case': c, 'emb': emb, 'file': c['files'][fi]['name'],
                             'what': '%s under %s: location.text is not (part of) the line of regal\'s line table at '
                                     'the reported row, or carries a CR (Check.C08Check.texts_agree)' % (case_key(c), emb),
                             'embedded_locations': items[i][5]},
                       signature={'kind': 'location-text-not-a-line', 'key': c['category'] + '/' + c['rule']})
        if len(ctx.violations) >= 5:
            break
    r5 = rr.get('R5', [])
    if (r1 or r5) and not ctx.violations:
        cid, emb, fi, dup_of = meta[r1[0]] if r1 else dmeta[r5[0]]
        vlib.violation(ctx, {'kind': 'correspondence', 'relation': 'Check.C08Check.text_agrees / dig_text_agrees (Model/Layout.v '
                             'apply_ops/render vs the text transformations of harness/cmd/c08)', 'case': cases[cid], 'emb': emb,
                             'dup_of': dup_of, 'n_mismatches': len(r1) + len(r5)}, no_input=True)
    r8, r9 = rr.get('R8', []), rr.get('R9', [])
    if (r8 or r9) and not ctx.violations:
        cid, fi = cmeta[(r8 or r9)[0]]
        vlib.violation(ctx, {'kind': 'correspondence', 'relation': 'Check.C08Check.shifts_cover / rows_reach: the shift amounts the '
                             'harness used for this example are not (a superset of) Model/Layout.v boundary_shifts, or a row of '
                             'the example is not put on a target row (Props/C08.v c08_boundary_shifts_cover)', 'case': cases[cid],
                             'file': cases[cid]['files'][fi]['name'], 'shifts_used': covers[(r8 or r9)[0]][4],
                             'targets': cases[cid].get('shift_targets'), 'n_mismatches': len(r8) + len(r9)}, no_input=True)
    if th is not None:
        th.join()
        phase('wait_for_line_table_tie')
        if 'exc' in lt:
            raise lt['exc']
        for i in lt['bad'][:1]:
            t, g = lt['pairs'][i]
            vlib.violation(ctx, {'kind': 'line-table', 'text': t, 'prepare_ast_lines': g,
                                 'what': 'parse.PrepareAST builds a line table for this text that is not '
                                         'split(replace(text, CRLF, LF), LF) (Check.C08Check.lines_agree; '
                                         'c08_line_table_independent_of_line_ends assumes it)'},
                           signature={'kind': 'line-table', 'key': json.dumps(t)})
    proof_gate(ctx)

    # ---- evidence ------------------------------------------------------------------------------------------
    import collections
    lints = [r for r in results if r['mode'] != 'dup']
    distinct = {(cases[r['id']]['rule'], cases[r['id']]['label'], json.dumps(r.get('texts') or r.get('digests'), sort_keys=True))
                for r in lints}
    shift_res = [r for r in lints if r.get('shift')]

    shifts_of = {}     # case id -> amounts k of the T<k> embeddings linted (or equal in text to an embedding that was)
    for r in results:
        if len(r['emb']) == 1 and r['emb'][0][0] == 'T':
            shifts_of.setdefault(r['id'], set()).add(int(r['emb'][0][1:]))

    def crossing(t):
        """(example, row) pairs put on row t by some embedding that was linted"""
        n = 0
        for c in cases:
            ks = shifts_of.get(c['id'], set()) | {0}
            rows = max(len(f['text'].replace('\r\n', '\n').split('\n')) for f in c['files'])
            n += sum(1 for r in range(1, rows + 1) if t - r in ks)
        return n
    kinds = collections.Counter(r['kind'] for r in table['rows'])
    reasons = collections.Counter(r['reason'] for r in table['rows'] if r['reason'] != 'RNone')
    notices = collections.Counter(n for r in lints if not r['emb'] for n in r['notices'])
    sample = []
    for cid, emb in [(0, ()), (len(cases) // 2, ('C',)), (len(cases) - 1, ('A',))]:
        r = primary(min(cid, len(cases) - 1), emb)
        if r:
            sample.append({'case': case_key(cases[r['id']]), 'emb': r['emb'], 'mode': r['mode'],
                           'violations': [[x['title'], x['row'], x['col']] for x in r['violations']]})
    cov = proof_coverage(ctx, {
        'explanation': 'partial, enumerative claim: the layout layer and the docs-table obligations are kernel-checked '
                       '(Props/C08.v); that each rule fires on its Avoid text and not on its Prefer text under every '
                       'embedding of the grammar is decided by running the real linter on every docs page (or its fixture) '
                       'x every embedding; no theorem covers rule bodies (no Rego semantics in Coq)',
        'evaluations': len(lints),
        'distinct_nontrivial': len(distinct),
        'rule': 'one evaluation = one lint result for (docs page or fixture scenario, Avoid|Prefer, embedding); distinct = '
                'distinct (rule, label, file texts) actually linted; compositions whose text equals an earlier one are '
                'not linted again (mode dup, %d of them) but their text is checked against the model' % len(dups),
        'docs_pages': len(table['rows']), 'page_kinds': dict(kinds), 'exception_reasons': dict(reasons),
        'scenarios': len(cases), 'scenarios_from_docs_text': sum(1 for c in cases if c.get('from_docs')),
        'scenarios_wrapped_in_package': sum(1 for c in cases if c.get('wrapped')),
        'embeddings_per_scenario_max': max([len([1 for k in by if k[0] == c['id']]) for c in cases] or [0]),
        'lint_calls_single': sum(1 for r in lints if r['mode'] == 'single'),
        'results_from_batched_calls': sum(1 for r in lints if r['mode'] == 'batch'),
        'identity_notices': dict(notices),
        'line_table_texts_compared': len(lt.get('pairs', [])), 'mismatch_line_table': len(lt.get('bad', [])),
        'coq_cases': len(items), 'coq_cases_full_text': len(items_full), 'coq_cases_by_digest': len(digs),
        'mismatch_text_model': len(r1) + len(r5), 'mismatch_rows': len(r2), 'mismatch_location_text': len(r3),
        'boundary_shift_results': len(shift_res),
        'boundary_shift_targets': dict(collections.Counter(str(c.get('shift_targets')) + '/' + str(c.get('shift_rows')) for c in cases)),
        'rows_put_on_row_9': crossing(9), 'rows_put_on_row_99': crossing(99), 'rows_put_on_row_999': crossing(999),
        'shift_selection_cases': len(covers), 'mismatch_shift_selection': len(r8) + len(r9),
        'verdict_failures': sum(len(v) for v in bad.values()), 'batch_vs_single_mismatches': len(batch_mismatch),
        'table_problems': problems[:10], 'phase_seconds': phases,
        'samples': sample,
        'exhaustive': 'over the docs table x the grammar up to the depth of the tier (quick: identity + 4 single '
                      'transformations P3, P9, C, A; thorough: all compositions up to depth 3 over {P1,P3,P10,T1,C,A}, depth 2 for '
                      'scenarios that cannot share a lint call: several files / aggregate / path-dependent) + the boundary '
                      'shifts T<t - r> of every row r of every example for t = 9, 99 (, 999) (Model/Layout.v boundary_shifts; '
                      'quick tier, examples that need a lint call per embedding: non-blank rows, t = 9); not over policies',
    })
    return vlib.finish(ctx, 'other', cov, [
        'the oracle is the docs\' own Avoid/Prefer labelling; fixtures under corpus/C08 supply what a page does not show '
        '(second file, configuration, file name, pre-1.0 capabilities, the missing Prefer half)',
        'no Coq semantics of Rego/OPA: nothing is proved about rule bodies or about OPA\'s parser locations',
        'embeddings are applied to the text by the Go harness (strings functions); Model/Layout.v is tied to them by '
        'Check.C08Check.text_agrees on every linted text of this run',
        'batched lint calls (several copies of a single-file example in one Lint) are cross-checked against solo calls '
        'for the single transformations (thorough tier)',
    ])
