"""C06: inline ignore directives suppress exactly the named rules, same or next line."""
import collections, json, os, re, shutil
import vlib
from vlib import clist, cbool
from common import proof_gate, proof_coverage

PLACE = {'above': 'PAbove', 'same': 'PSameLine', 'two-above': 'PTwoAbove', 'below': 'PBelow'}


class Interner:
    """every distinct byte string becomes one Coq definition (keeps the case file small)"""
    def __init__(self):
        self.ids, self.defs = {}, []

    def s(self, x):
        b = bytes(x) if isinstance(x, (list, tuple)) else x.encode('utf-8')
        i = self.ids.get(b)
        if i is None:
            i = len(self.ids)
            self.ids[b] = i
            self.defs.append('Definition s%d : str := [%s]%%N.' % (i, ';'.join(str(c) for c in b)))
        return 's%d' % i


def c_comment(I, c):
    return '{| c_row := %d; c_text := %s |}' % (c['row'], I.s(c['text']))


def c_viol(I, v):
    row = 'None' if v['row'] == 0 else '(Some %d)' % v['row']
    return '{| v_cat := %s; v_title := %s; v_file := %s; v_row := %s; v_col := %d |}' % (
        I.s(v['cat']), I.s(v['title']), I.s(v['file']), row, v['col'])


def c_entries(I, es):
    return clist('(%d, %s)' % (int(e['key']), clist(I.s(n) for n in (e['names'] or []))) for e in es)


class Shared:
    """lists referenced by many cases are defined once"""
    def __init__(self):
        self.ids, self.defs = {}, []

    def ref(self, kind, text):
        k = (kind, text)
        i = self.ids.get(k)
        if i is None:
            i = len(self.ids)
            self.ids[k] = i
            ty = {'cs': 'list comment', 'vs': 'list violation'}[kind]
            self.defs.append('Definition L%d : %s := %s.' % (i, ty, text))
        return 'L%d' % i


def run(ctx):
    h = vlib.build_harness(ctx, 'c06')
    out = os.path.join(ctx.tmp, 'c06.jsonl')
    wd = os.path.join(ctx.tmp, 'wd')
    os.makedirs(os.path.join(wd, 'corpus'))
    cdir = os.path.join(vlib.VERIF, 'corpus', 'C06')
    if os.path.isdir(cdir):
        for f in sorted(os.listdir(cdir)):
            if f.endswith('.json'):
                shutil.copy(os.path.join(cdir, f), os.path.join(wd, 'corpus', f))
    cmd = [h, out, ctx.tier, wd]
    if ctx.replay:
        rp = json.load(open(ctx.replay))
        if 'case' in rp:
            cmd.append(ctx.replay)
    rc, log = vlib.run(cmd, env=dict(os.environ, VERIF_SEED=str(ctx.seed)), timeout=3000)
    if rc != 0:
        raise RuntimeError('c06 harness failed: ' + log[-3000:])
    cases = [json.loads(l) for l in open(out)]
    by = collections.defaultdict(list)
    for c in cases:
        for k in ('after', 'raw_after', 'before', 'raw', 'raw_before', 'comments_after', 'obs', 'entries', 'names'):
            if k in c and c[k] is None:     # Go nil slices
                c[k] = []
        if c['kind'] == 'hist':
            for k in ('obs', 'raw', 'fresh'):
                if c.get(k) is None:
                    c[k] = []
        if c['kind'] == 'e2e' and c.get('comments') is None:
            c['comments'] = []
        by[c['kind']].append(c)

    I, S = Interner(), Shared()
    body = []

    # ---- helper level
    dirs = by['dir']
    dir_errors = [c for c in dirs if c.get('error')]
    dirs = [c for c in dirs if not c.get('error')]
    def fmt_dir(c):
        return '{| dc_comments := %s; dc_obs := %s |}' % (
            clist(c_comment(I, x) for x in c['comments']),
            'ObsConflict' if c.get('conflict') else 'ObsMap ' + c_entries(I, c['entries'] or []))

    body.append('Definition dir_cases : list dir_case := ' + clist(fmt_dir(c) for c in dirs) + '.')
    igns = by['ign']
    body.append('Definition ign_cases : list ign_case := ' + clist(
        '{| ic_comments := %s; ic_v := %s; ic_obs := %s |}' % (
            S.ref('cs', clist(c_comment(I, x) for x in c['comments'])), c_viol(I, c['v']), cbool(c['obs']))
        for c in igns) + '.')
    keys = [c for c in by['key'] if not c.get('error')]
    key_errors = [c for c in by['key'] if c.get('error')]
    body.append('Definition key_cases : list key_case := ' + clist(
        '{| kc_obj := %s; kc_v := %s; kc_obs := %s |}' % (
            clist('(%s, %s)' % (I.s(e['key']), clist(I.s(n) for n in e['names'])) for e in c['obj']),
            c_viol(I, c['v']), cbool(c['obs']))
        for c in keys) + '.')
    carries = by['carry']
    body.append('Definition carry_cases : list carry_case := ' + clist(
        '{| cc_comments := %s; cc_keys := %s |}' % (
            S.ref('cs', clist(c_comment(I, x) for x in c['comments'])), clist(I.s(k) for k in c['keys']))
        for c in carries) + '.')

    # ---- end to end, per-file rules
    e2e_all = by['e2e']
    e2e = [c for c in e2e_all if not c.get('skip')]
    def fmt_e2e(c):
        return ('{| e_comments := %s; e_raw := %s; e_before := %s; e_place := %s; e_row := %d; e_dir := %s; '
                'e_comments_after := %s; e_raw_after := %s; e_after := %s |}' % (
                    S.ref('cs', clist(c_comment(I, x) for x in c['comments'] or [])),
                    S.ref('vs', clist(c_viol(I, v) for v in c['raw'] or [])),
                    S.ref('vs', clist(c_viol(I, v) for v in c['before'] or [])),
                    PLACE[c['place']], c['target']['row'], I.s(c['dir']),
                    clist(c_comment(I, x) for x in c['comments_after'] or []),
                    S.ref('vs', clist(c_viol(I, v) for v in c['raw_after'] or [])),
                    '(' + clist(c_viol(I, v) for v in c['after'] or []) + ' : list violation)'))

    body.append('Definition e2e_cases : list e2e_case := ' + clist(fmt_e2e(c) for c in e2e) + '.')

    # ---- aggregate rules
    agg_all = by['agg']
    agg = [c for c in agg_all if not c.get('skip') and not c.get('err')]
    agg_errs = [c for c in agg_all if c.get('err')]
    def cfiles(m):
        return clist('(%s, %s)' % (I.s(n), clist(c_comment(I, x) for x in (m[n] or []))) for n in sorted(m or {}))

    def own_given(c):
        if c['mode'] == 'oneshot':
            return cfiles(c['comments']), '[]'
        if c['mode'] == 'twophase-dirs':
            return '[]', cfiles(c['comments'])
        if c['mode'] == 'mixed':
            return cfiles(c['comments']), cfiles(c['given_comments'])
        return '[]', '[]'    # twophase-nodirs

    body.append('Definition agg_cases : list agg_case := ' + clist(
        '{| a_own := %s; a_given := %s; a_raw := %s; a_obs := %s |}' % (
            own_given(c) + (S.ref('vs', clist(c_viol(I, v) for v in c['raw'])), clist(c_viol(I, v) for v in c['obs'])))
        for c in agg) + '.')

    # ---- histories: directives handed from run to run
    hist_all = by['hist']
    hcases = [c for c in hist_all if not c.get('err')]
    hist_errs = [c for c in hist_all if c.get('err')]

    def cgomap(m):
        return clist('(%s, %s)' % (I.s(f), clist('(%s, %s)' % (I.s(k), clist(I.s(n) for n in (m[f][k] or [])))
                                                  for k in sorted(m[f] or {}))) for f in sorted(m or {}))

    def fmt_hist(c):
        return ('{| h_init := %s; h_edits := %s; h_mixed := %s; h_export := %s; h_raw := %s; h_obs := %s |}' % (
            clist('(%s, %s)' % (I.s(n), S.ref('cs', clist(c_comment(I, x) for x in c['init_comments'][n] or [])))
                  for n in sorted(c['init_comments'])),
            clist('(%s, %s)' % (I.s(e['file']), S.ref('cs', clist(c_comment(I, x) for x in e['comments'] or [])))
                  for e in c['edits']),
            cbool(c['mixed']), cgomap(c['export']),
            S.ref('vs', clist(c_viol(I, v) for v in c['raw'] or [])),
            '(' + clist(c_viol(I, v) for v in c['obs'] or []) + ' : list violation)'))

    body.append('Definition hist_cases : list hist_case := ' + clist(fmt_hist(c) for c in hcases) + '.')

    checks = [('R_hist', 'hist_agrees', 'hist_cases'), ('R_hexport', 'hist_export_agrees', 'hist_cases'),
              ('R_hcons', 'hist_model_consistent', 'hist_cases'),
              ('R_dir', 'dir_agrees', 'dir_cases'), ('R_ign', 'ign_agrees', 'ign_cases'),
              ('R_ignspec', 'ign_meets_spec', 'ign_cases'), ('R_key', 'key_agrees', 'key_cases'),
              ('R_carry', 'carry_agrees', 'carry_cases'), ('R_cmt', 'comments_agree', 'e2e_cases'),
              ('R_before', 'before_agrees', 'e2e_cases'), ('R_after', 'after_agrees', 'e2e_cases'),
              ('R_pred', 'prediction_agrees', 'e2e_cases'), ('R_hshift', 'hshift_holds', 'e2e_cases'),
              ('R_agg', 'agg_agrees', 'agg_cases')]
    for name, fn, lst in checks:
        body.append('Definition %s := Eval vm_compute in failing %s 0 %s.' % (name, fn, lst))
    body.append('Definition R_nsuppr := Eval vm_compute in length (filter (fun c => ic_obs c) ign_cases).')
    # self-test of the glue: a perturbed observation must be flagged (not a verdict about /repo)
    selftest = []
    pd = next((c for c in dirs if c.get('entries')), None)
    if pd is not None:
        q = json.loads(json.dumps(pd))
        q['entries'][0]['key'] = str(int(q['entries'][0]['key']) + 1)
        body.append('Definition T_dir := Eval vm_compute in failing dir_agrees 0 [%s].' % fmt_dir(q))
        selftest.append('T_dir')
    pe = next((c for c in e2e if c['after'] and c['before']), None)
    if pe is not None:
        q = json.loads(json.dumps(pe))
        q['after'] = q['after'][1:]
        body.append('Definition T_e2e := Eval vm_compute in failing after_agrees 0 [%s].' % fmt_e2e(q))
        selftest.append('T_e2e')
    ph = next((c for c in hcases if not c['mixed'] and
               any(v not in c['obs'] and v['file'] == c['edits'][-1]['file'] for v in c['raw'])), None)
    if ph is not None:
        # the report of a step where something is ignored, paired with a history that ends without any directive
        q = json.loads(json.dumps(ph))
        q['edits'] = q['edits'] + [dict(q['edits'][-1], comments=[])]
        body.append('Definition T_hist := Eval vm_compute in failing hist_agrees 0 [%s].' % fmt_hist(q))
        selftest.append('T_hist')
    body.append(' '.join('Print %s.' % n for n, _, _ in checks) + ' Print R_nsuppr. ' + ' '.join('Print %s.' % t for t in selftest))
    v = ['From Regal Require Import Check.C06Check.', 'Open Scope N_scope.'] + I.defs + S.defs + body
    rc, cout = vlib.coq_eval(ctx, 'Cases_C06', '\n'.join(v))
    if rc != 0:
        raise RuntimeError('case evaluation failed:\n' + cout[-3000:])
    R = {n: vlib.parse_nat_list(cout, n) or [] for n, _, _ in checks}
    m = re.search(r'R_nsuppr = (\d+)', cout)
    n_suppressed = int(m.group(1)) if m else 0

    selftest_blind = [t for t in selftest if vlib.parse_nat_list(cout, t) != [0]]

    # ---- verdicts -------------------------------------------------------------------------
    # (1) the predicate of the property, evaluated by the harness on the implementation's own reports
    def e2e_key(c):
        return json.dumps([c.get('text') or c.get('files'), c['target'], c['place'], c['dir']], sort_keys=True)

    pred_bad = [c for c in e2e if not c['pred_ok'] and c['h_shift'] and not c['own_above']]
    pred_bad += [c for c in agg if c.get('target') and c['mode'] != 'twophase-nodirs'
                 and not c['pred_ok'] and c['h_shift'] and not c['own_above']]
    pred_bad.sort(key=lambda c: len(json.dumps(c.get('text') or c.get('files'))))
    for c in pred_bad[:2]:
        vlib.violation(ctx, {'kind': 'directive-effect', 'case': c,
                             'what': 'directive %r placed %s row %d (%s) of a %s violation: the report after the edit is not '
                                     '"before minus exactly the named violations on the covered rows"'
                                     % (c['dir'], c['place'], c['target']['row'], c['spell'], c['target']['title'])},
                       signature={'kind': 'directive-effect', 'key': e2e_key(c)})
    # (2) two-phase with the exported directives must equal one-shot on the same files
    one = {json.dumps(c['files'], sort_keys=True): c for c in agg if c['mode'] == 'oneshot'}
    tp_bad = []
    for c in agg:
        if c['mode'] in ('twophase-dirs', 'mixed'):
            o = one.get(json.dumps(c['files'], sort_keys=True))
            if o is not None and sorted(map(json.dumps, o['obs'])) != sorted(map(json.dumps, c['obs'])):
                tp_bad.append((c, o))
    tp_bad.sort(key=lambda co: len(json.dumps(co[0]['files'])))
    for c, o in tp_bad[:1]:
        vlib.violation(ctx, {'kind': 'two-phase-directives', 'case': c, 'oneshot': o['obs'],
                             'what': 'collect per file + WithAggregates + WithIgnoreDirectives reports aggregate violations '
                                     'that the one-shot run of the same files does not (or vice versa)'},
                       signature={'kind': 'two-phase-directives', 'key': json.dumps(c['files'], sort_keys=True)})
    # (2b) histories of single-file replacements: the incremental report must equal a fresh one-shot run
    def hist_key(c):
        return json.dumps([sorted(c['init'].items()), [[e['file'], e['text']] for e in c['edits']], c['mixed']])

    def hist_replay(c):
        return {k: c[k] for k in ('kind', 'ws', 'h', 'step', 'mixed', 'target', 'init', 'init_comments', 'edits')}

    hist_bad = [c for c in hcases if not c['pred_ok']]
    hist_bad.sort(key=lambda c: (len(c['edits']), c['mixed'], len(json.dumps(c['files']))))
    for c in hist_bad[:1]:
        last = c['edits'][-1]
        vlib.violation(ctx, {'kind': 'incremental-directives', 'case': hist_replay(c), 'files_after': c['files'],
                             'incremental': c['obs'], 'fresh': c['fresh'],
                             'only_incremental': [v for v in c['obs'] if v not in c['fresh']],
                             'only_fresh': [v for v in c['fresh'] if v not in c['obs']],
                             'what': 'after %d single-file replacement(s) (last: %s -> version "%s"), %s differs from one Lint call '
                                     'over the current contents' % (
                                         len(c['edits']), last['file'], last['vkind'],
                                         'linting that file WithAggregates + WithIgnoreDirectives(map of the previous runs)'
                                         if c['mixed'] else
                                         'the report-only run WithAggregates + WithIgnoreDirectives(map updated from every '
                                         "run's Report.IgnoreDirectives)")},
                       signature={'kind': 'incremental-directives', 'key': hist_key(c)})
    # (3) _ignored against the specification
    for i in R['R_ignspec'][:1]:
        c = igns[i]
        vlib.violation(ctx, {'kind': 'ignored-vs-spec', 'case': c,
                             'what': '_ignored(%r row %d) = %s disagrees with "a directive naming exactly this title on the same '
                                     'row or the row above"' % (c['v']['title'], c['v']['row'], c['obs'])},
                       signature={'kind': 'ignored-vs-spec', 'key': json.dumps([c['comments'], c['v']], sort_keys=True)})
    # (4) theorem-level prediction from the before-report (Coq side)
    if not ctx.violations:
        for i in R['R_pred'][:1]:
            c = e2e[i]
            vlib.violation(ctx, {'kind': 'directive-effect', 'case': c, 'by': 'Check.C06Check.prediction_agrees',
                                 'what': 'report after the edit differs from the statement of insert_directive_effect'},
                           signature={'kind': 'directive-effect', 'key': e2e_key(c)})
    # (5) correspondence only
    if not ctx.violations:
        rel = [('R_hexport', hcases, 'hist_export_agrees (Report.IgnoreDirectives has an entry for every linted file, also an empty one)'),
               ('R_hist', hcases, 'hist_agrees (directives handed from run to run: dirs_update / lint_dirs along a history)'),
               ('R_hcons', hcases, 'hist_model_consistent (the model itself: handed-on directives = those of one run)'),
               ('R_dir', dirs, 'dir_agrees (ast.ignore_directives)'), ('R_ign', igns, 'ign_agrees (main._ignored)'),
               ('R_key', keys, 'key_agrees (util.keys_to_numbers)'), ('R_carry', carries, 'carry_agrees (row keys handed to Go)'),
               ('R_cmt', e2e, 'comments_agree (comments after the edit)'), ('R_before', e2e, 'before_agrees (report = raw minus ignored)'),
               ('R_after', e2e, 'after_agrees (report after the edit)'), ('R_agg', agg, 'agg_agrees (aggregate branch filter)')]
        for name, lst, what in rel:
            if R[name]:
                small = min((lst[i] for i in R[name]), key=lambda c: len(json.dumps(c)))
                if small.get('kind') == 'hist':
                    small = dict(hist_replay(small), export=small['export'], obs=small['obs'], raw=small['raw'])
                vlib.violation(ctx, {'kind': 'correspondence', 'relation': 'Check.C06Check.' + what, 'case': small,
                                     'n_mismatches': len(R[name])}, no_input=True)
                break
    if selftest_blind:
        vlib.violation(ctx, {'kind': 'glue-self-test', 'what': 'a perturbed observation was not flagged by ' + ', '.join(selftest_blind)},
                       no_input=True)
    for c in (dir_errors + key_errors)[:1]:
        vlib.violation(ctx, {'kind': 'helper-error', 'case': c}, no_input=True)
    for c in (agg_errs + hist_errs)[:1]:
        vlib.violation(ctx, {'kind': 'lint-error', 'case': c}, no_input=False)
    proof_gate(ctx)

    # ---- evidence -------------------------------------------------------------------------
    hist = collections.Counter()
    for c in e2e:
        hist['e2e %s/%s %s' % (c['place'], c['spell'], 'custom' if c['target']['cat'] == 'verif' else 'builtin')] += 1
    for c in agg:
        if c.get('target'):
            hist['agg %s %s/%s' % (c['mode'], c['place'], c['spell'])] += 1
    titles = collections.Counter(c['target']['title'] for c in e2e)
    agg_titles = collections.Counter(c['target']['title'] for c in agg if c.get('target'))
    effective = [c for c in e2e if sorted(map(json.dumps, c['after'])) !=
                 sorted(map(json.dumps, c['raw_after']))]
    distinct = len({json.dumps([c['comments'], c.get('entries')], sort_keys=True) for c in dirs}) + \
        len({e2e_key(c) for c in e2e}) + len({json.dumps([c['files'], c['mode']], sort_keys=True) for c in agg}) + \
        len({hist_key(c) for c in hcases})
    trans = collections.Counter()
    lost_last = 0
    for c in hcases:
        if c['mixed']:
            continue
        last = c['edits'][-1]
        prev = next((e['vkind'] for e in reversed(c['edits'][:-1]) if e['file'] == last['file']), 'initial')
        trans['%s -> %s' % (prev, last['vkind'])] += 1
        if prev not in ('none', 'initial') and not any(
                'regal ignore:' in bytes(x['text']).decode('utf-8', 'replace') for x in last['comments']):
            lost_last += 1
    skipped = collections.Counter(c.get('skip', '')[:40] for c in e2e_all + agg_all if c.get('skip'))
    cov = proof_coverage(ctx, {
        'evaluations': len(dirs) + len(igns) + len(keys) + len(carries) + len(e2e) + len(agg) + len(hcases),
        'distinct_nontrivial': distinct,
        'rule': 'distinct = distinct helper inputs (comment rows+texts) + distinct (module text, target violation, placement, directive '
                'text) metamorphic cases + distinct (workspace files, pipeline mode) aggregate cases + distinct (initial files, '
                'sequence of single-file replacements, report-only | mixed) history cases; skipped cases not counted',
        'helper_dir_cases': len(dirs), 'helper_ignored_cases': len(igns), 'helper_ignored_true': n_suppressed,
        'helper_keys_cases': len(keys), 'helper_carry_cases': len(carries),
        'e2e_cases': len(e2e), 'e2e_cases_where_a_directive_suppressed_something': len(effective),
        'e2e_cases_where_the_target_disappeared': len([c for c in e2e if c['target'] in c['before'] and shifted_target(c) not in c['after']]),
        'e2e_h_shift_failed (hypothesis not met, prediction skipped)': len([c for c in e2e if not c['h_shift']]),
        'e2e_inserted_below_an_existing_directive': len([c for c in e2e if c['own_above']]),
        'agg_cases': len(agg), 'skipped': dict(skipped),
        'history_cases': len(hcases), 'history_steps_where_a_file_lost_its_last_directive': lost_last,
        'history_transitions_of_the_replaced_file': dict(trans),
        'history_incremental_vs_fresh_failures': len(hist_bad),
        'targets_by_rule': dict(titles), 'agg_targets_by_rule': dict(agg_titles), 'histogram': dict(hist),
        'mismatches': {k: len(vv) for k, vv in R.items() if k != 'R_hshift'},
        'glue_self_tests': selftest, 'glue_self_tests_blind': selftest_blind,
        'predicate_failures': len(pred_bad), 'two_phase_vs_one_shot_failures': len(tp_bad),
        'samples': [
            {k: dirs[len(dirs) // 2][k] for k in ('comments', 'entries') if k in dirs[len(dirs) // 2]} if dirs else None,
            {k: e2e[0][k] for k in ('module', 'target', 'place', 'spell', 'dir', 'before', 'after')} if e2e else None,
            {k: agg[-1][k] for k in ('ws', 'mode', 'target', 'place', 'dir', 'obs')} if agg else None],
        'exhaustive': False,
    })
    return vlib.finish(ctx, 'proof', cov, [
        'comment text is valid UTF-8 (OPA indexof/substring count runes; the model works on bytes)',
        'to_number is modelled on decimal digit strings only (all that the JSON rendering of row keys produces)',
        'H_shift / H_append (rule bodies and the parser are row-equivariant, trailing comments do not change raw violations) '
        'is a Section hypothesis of insert_directive_effect; it is observed per case (h_shift) and cases where it fails are '
        'excluded from the prediction, not from the filter correspondence',
        'rule bodies, the OPA parser and evaluator are oracles (raw violations and comments are observed)',
    ])


def shifted_target(c):
    t = dict(c['target'])
    q = {'above': 0, 'same': 0, 'two-above': -1, 'below': 1}[c['place']] + t['row']
    if c['place'] != 'same' and t['row'] >= q:
        t['row'] += 1
    return t
