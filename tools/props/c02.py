"""C02: no file is silently skipped; per-file verdicts compose."""
import glob, hashlib, json, os, re, subprocess, sys
import vlib
from vlib import cstr, clist, cnat, cbool
from common import proof_gate, proof_coverage

SPEC_SKIP = ['.git', '.idea', 'node_modules']
SPEC_EXT = '.rego'


def c_node(n):
    if not n.get('dir'):
        return 'File'
    return '(Dir %s)' % clist('(%s, %s)' % (cstr(c['name']), c_node(c)) for c in (n.get('children') or []))


def c_tree_case(t):
    excl = clist('(%s, %s)' % (cstr(p), clist('(%s, %s)' % (cstr(f), cbool(b)) for f, b in sorted(row.items())))
                 for p, row in sorted(t['excl'].items()))
    filtered = 'None' if t['filt_err'] else '(Some %s)' % clist(cstr(f) for f in t['filtered'])
    scanned = '(Some %s)' % cnat(t['scanned']) if t['linted'] and not t['lint_err'] else 'None'
    return ('{| tc_root := Dir [(%s, %s)]; tc_args := %s; tc_ignore := %s; tc_excl := %s; tc_bad := %s; '
            'tc_filtered := %s; tc_scanned := %s |}') % (
        cstr(t['tree']['name']), c_node(t['tree']), clist(cstr(a) for a in t['args']), clist(cstr(p) for p in t['ignore']),
        excl, clist(cstr(b) for b in t['bad']), filtered, scanned)


def c_sum_case(s):
    return '{| sc_viol_files := %s; sc_notices := %s; sc_failed := %s; sc_skipped := %s; sc_num := %s |}' % (
        clist(cstr(f) for f in s['viol_files']),
        clist('{| n_key := %s; n_sev := %s |}' % (cstr(n['key']), cstr(n['sev'])) for n in s['notices']),
        cnat(s['failed']), cnat(s['skipped']), cnat(s['num']))


def gen_consts():
    """the constants goshape extracted from the tree of this run (same source as Gen/WalkConsts.v)"""
    p = subprocess.run([sys.executable, os.path.join(vlib.VERIF, 'tools', 'gen', 'linter_shape.py'), '--json'],
                       stdout=subprocess.PIPE, stderr=subprocess.PIPE, text=True, env=vlib.goenv(), cwd=vlib.VERIF, timeout=600)
    try:
        return json.loads(p.stdout)['walk']
    except Exception:
        return {'skip_names': SPEC_SKIP, 'suffix': SPEC_EXT}


def tree_size(n):
    return 1 + sum(tree_size(c) for c in (n.get('children') or []))


def shrink_tree(t):
    """drop what the replay does not need"""
    return {'tree': t['tree'], 'args': t['args'], 'ignore': t['ignore']}


def replay_trees(ctx, h, extra, cases, lint=False):
    """run the harness on explicit tree cases only; returns its records"""
    fx = {'trees': [dict(c, nolint=not lint) for c in cases], 'compose': []}
    fp = os.path.join(ctx.tmp, 'shrink.json')
    json.dump(fx, open(fp, 'w'))
    out = os.path.join(ctx.tmp, 'shrink.jsonl')
    rc, log = vlib.run([h, out, ctx.tier, os.path.join(ctx.tmp, 'ws'), ','.join(extra), fp, 'only'],
                       env=dict(os.environ, VERIF_SEED=str(ctx.seed)), timeout=600)
    if rc != 0:
        return []
    return [json.loads(l) for l in open(out)]


def tree_variants(n):
    """the tree with one node removed, all ways (root excluded)"""
    out = []
    ch = n.get('children') or []
    for i in range(len(ch)):
        out.append(dict(n, children=ch[:i] + ch[i + 1:]))
        for v in tree_variants(ch[i]):
            out.append(dict(n, children=ch[:i] + [v] + ch[i + 1:]))
    return out


def shrink_discovery(ctx, h, extra, case, bad):
    """greedy delta debugging: drop arguments, ignore patterns and tree nodes while the
    implementation still contradicts the specification on the case (predicate [bad] on the harness record)"""
    cur = case
    for _ in range(12):
        cands = []
        for i in range(len(cur['args'])):
            if len(cur['args']) > 1:
                cands.append(dict(cur, args=cur['args'][:i] + cur['args'][i + 1:]))
        for i in range(len(cur['ignore'])):
            cands.append(dict(cur, ignore=cur['ignore'][:i] + cur['ignore'][i + 1:]))
        for v in tree_variants(cur['tree']):
            cands.append(dict(cur, tree=v))
        cands = cands[:60]
        if not cands:
            break
        recs = replay_trees(ctx, h, extra, cands)
        nxt = None
        for c, r in zip(cands, recs):
            if bad(r):
                nxt = c
                break
        if nxt is None:
            break
        cur = nxt
    return cur


def run(ctx):
    h = vlib.build_harness(ctx, 'c02')
    walk = gen_consts()
    extra = [s for s in walk.get('skip_names', []) if s not in SPEC_SKIP and '/' not in s and ',' not in s and s]
    fixed = {'trees': [], 'compose': []}
    only = False
    if ctx.replay:
        rp = json.load(open(ctx.replay))
        c = rp.get('case', {})
        if 'tree' in c:
            fixed['trees'].append(c)
            only = True
        elif 'ws' in c:
            fixed['compose'].append(c['ws'])
            only = True
    if not only:
        for f in sorted(glob.glob(os.path.join(vlib.VERIF, 'corpus', 'C02', '*.json'))):
            c = json.load(open(f))
            if 'tree' in c:
                fixed['trees'].append(c)
            elif 'ws' in c:
                fixed['compose'].append(c['ws'])
    fixed_path = os.path.join(ctx.tmp, 'fixed.json')
    json.dump(fixed, open(fixed_path, 'w'))
    out = os.path.join(ctx.tmp, 'c02.jsonl')
    cmd = [h, out, ctx.tier, os.path.join(ctx.tmp, 'w'), ','.join(extra), fixed_path] + (['only'] if only else [])
    rc, log = vlib.run(cmd, env=dict(os.environ, VERIF_SEED=str(ctx.seed)), timeout=3000)
    if rc != 0:
        raise RuntimeError('c02 harness failed: ' + log[-3000:])
    recs = [json.loads(l) for l in open(out)]
    trees = [r for r in recs if r['kind'] == 'tree']
    composes = [r for r in recs if r['kind'] == 'compose']
    sums = [t['summary'] for t in trees if t.get('summary')]
    for c in composes:
        sums += [s for s in (c.get('summaries') or []) if s]

    # ---- the property on the implementation's own outputs --------------------------------------
    explained = set()
    bad_trees = sorted([t for t in trees if t['spec_bad']], key=lambda t: tree_size(t['tree']))
    for t in bad_trees:
        explained.add(t['id'])
    for t in bad_trees[:1]:
        small = shrink_discovery(ctx, h, extra, shrink_tree(t), lambda r: bool(r.get('spec_bad')))
        rr = replay_trees(ctx, h, extra, [small])
        r = rr[0] if rr and rr[0].get('spec_bad') else t
        vlib.violation(ctx, {'kind': 'discovery-vs-spec', 'case': shrink_tree(r), 'what': r['spec_bad'],
                             'filtered': r['filtered'], 'expected': r['spec'], 'filter_error': r['filt_err'],
                             'n_cases_contradicting_the_specification': len(bad_trees)},
                       signature={'kind': 'discovery-vs-spec', 'key': json.dumps(shrink_tree(r), sort_keys=True)})
    for t in trees:
        s = t.get('summary')
        if s and s['bad']:
            explained.add(t['id'])
            vlib.violation(ctx, {'kind': 'summary-inconsistent', 'case': shrink_tree(t), 'what': s['bad'], 'summary': s},
                           signature={'kind': 'summary-inconsistent', 'key': json.dumps(shrink_tree(t), sort_keys=True)})
            break
    for c in sorted(composes, key=lambda c: len(c['ws']['files'])):
        bad_sum = [s for s in (c.get('summaries') or []) if s and s['bad']]
        if c['mismatch'] or bad_sum:
            kind = 'batch-vs-single' if c['mismatch'] else 'summary-inconsistent'
            vlib.violation(ctx, {'kind': kind, 'case': {'ws': c['ws']},
                                 'what': (c['mismatch'] or [bad_sum[0]['bad']])[0], 'all': c['mismatch'][:10]},
                           signature={'kind': kind, 'key': hashlib.sha1(json.dumps(c['ws']['files'], sort_keys=True).encode()).hexdigest()[:16]})
            break

    # ---- correspondence with the model -----------------------------------------------------------
    v = ['From Regal Require Import Check.C02Check.', 'Open Scope N_scope.',
         'Definition trees : list (tree_case * bool) := ' + clist('(%s, %s)' % (c_tree_case(t), cbool(t['linted'])) for t in trees) + '.',
         'Definition sums : list sum_case := ' + clist(c_sum_case(s) for s in sums) + '.',
         'Definition R1 := Eval vm_compute in failing1 (fun c => discover_agrees (fst c)) 0 trees.',
         'Definition R2 := Eval vm_compute in failing1 (fun c => scanned_agrees (fst c) (snd c)) 0 trees.',
         'Definition R3 := Eval vm_compute in failing1 summary_agrees 0 sums.',
         'Definition R4 := Eval vm_compute in failing1 (fun c => in_model (fst c)) 0 trees.',
         'Print R1. Print R2. Print R3. Print R4.']
    rc, cout = vlib.coq_eval(ctx, 'Cases_C02', '\n'.join(v))
    if rc != 0:
        raise RuntimeError('case evaluation failed:\n' + cout[-3000:])
    r1 = vlib.parse_nat_list(cout, 'R1') or []
    r2 = vlib.parse_nat_list(cout, 'R2') or []
    r3 = vlib.parse_nat_list(cout, 'R3') or []
    r4 = vlib.parse_nat_list(cout, 'R4') or []
    for name, idxs, rel in (('discover', r1, 'Check.C02Check.discover_agrees: FilterIgnoredPaths = Model.Discover.discover (exact list)'),
                            ('scanned', r2, 'Check.C02Check.scanned_agrees: files_scanned / error of Linter.Lint = model')):
        cand = sorted([trees[i] for i in idxs if trees[i]['id'] not in explained], key=lambda t: tree_size(t['tree']))
        for t in cand[:1]:
            vlib.violation(ctx, {'kind': 'correspondence', 'relation': rel, 'case': shrink_tree(t), 'filtered': t['filtered'],
                                 'filt_err': t['filt_err'], 'scanned': t['scanned'], 'lint_err': t['lint_err'], 'n_mismatches': len(idxs),
                                 'model_out_of_domain': trees.index(t) in r4}, no_input=True)
    if r3 and not any(s['bad'] for s in sums):
        vlib.violation(ctx, {'kind': 'correspondence', 'relation': 'Check.C02Check.summary_agrees (finalize summary vs observed report)',
                             'case': sums[r3[0]]}, no_input=True)
    proof_gate(ctx, 'c02_walk_constants_of_this_tree depends on Gen/WalkConsts.v (skip-directory names and suffix extracted from '
                    'internal/io/io.go and pkg/config/filter.go)')

    hist = {}
    for t in trees:
        k = 'discovered=%s' % ('error' if t['filt_err'] else min(len(t['filtered']), 6))
        hist[k] = hist.get(k, 0) + 1
    for c in composes:
        k = 'compose_files=%d' % len(c['ws']['files'])
        hist[k] = hist.get(k, 0) + 1
    distinct = len({json.dumps(shrink_tree(t), sort_keys=True) for t in trees if not t['filt_err'] and len(t['filtered']) > 0})
    nsub = sum(len(c['subsets']) for c in composes)
    cov = proof_coverage(ctx, {
        'evaluations': len(trees) + nsub + len(sums),
        'distinct_nontrivial': distinct + sum(1 for c in composes for s in c['subsets'] if len(s['files']) >= 2),
        'rule': 'distinct (tree, arguments, ignore patterns) cases in which FilterIgnoredPaths discovered at least one file, plus the '
                'distinct multi-file blocks linted for the batch-vs-single comparison; every tree case is compared with the Coq model '
                '(exact discovered list) and with an independent Go rendering of the specification',
        'tree_cases': len(trees), 'tree_cases_linted': sum(1 for t in trees if t['linted']), 'tree_cases_out_of_model': len(r4),
        'compose_cases': len(composes), 'subsets_linted': nsub, 'partitions_checked': sum(c['partitions'] for c in composes),
        'reports_summary_checked': len(sums), 'extra_dir_names_from_gen': extra,
        'mismatch_discover': len(r1), 'mismatch_scanned': len(r2), 'mismatch_summary': len(r3),
        'spec_contradictions': len(bad_trees), 'histogram': hist,
        'samples': [shrink_tree(t) for t in trees[:1]] + [{'filtered': trees[0]['filtered']}] if trees else [],
        'exhaustive': False,
    })
    return vlib.finish(ctx, 'proof', cov, [
        'the file system is a tree of named nodes (no symbolic links, permissions, or concurrent modification)',
        'glob matching (excludeFile/gobwas) is an oracle, tabulated per (pattern, file) with the real matcher',
        'H_ops / H_loc of c02_single_file_compose (report rules ignore the collect operation and report in their own file) are tested '
        'by the batch-vs-single comparison, not proved',
        'files_failed counts the empty file name of location-less aggregate violations as a file (so it can exceed files_scanned); '
        'the theorem states it as the number of distinct Location.File values',
    ])
