"""C02: no file is silently skipped; per-file verdicts compose."""
import glob, hashlib, json, os, re, subprocess, sys
import vlib
from vlib import cstr, clist, cnat, cbool
from common import proof_gate, proof_coverage

SPEC_SKIP = ['.git', '.idea', 'node_modules']
SPEC_EXT = '.rego'


def c_node(n):
    if not n.get('dir'):
        return 'File'
    return '(Dir %s)' % clist('(%s, %s)' % (cstr(c['name']), c_node(c)) for c in (n.get('children') or []))


def c_tree_case(t):
    excl = clist('(%s, %s)' % (cstr(p), clist('(%s, %s)' % (cstr(f), cbool(b)) for f, b in sorted(row.items())))
                 for p, row in sorted(t['excl'].items()))
    filtered = 'None' if t['filt_err'] else '(Some %s)' % clist(cstr(f) for f in t['filtered'])
    scanned = '(Some %s)' % cnat(t['scanned']) if t['linted'] and not t['lint_err'] else 'None'
    return ('{| tc_root := Dir [(%s, %s)]; tc_args := %s; tc_ignore := %s; tc_excl := %s; tc_bad := %s; '
            'tc_filtered := %s; tc_scanned := %s |}') % (
        cstr(t['tree']['name']), c_node(t['tree']), clist(cstr(a) for a in t['args']), clist(cstr(p) for p in t['ignore']),
        excl, clist(cstr(b) for b in t['bad']), filtered, scanned)


def c_sum_case(s):
    return '{| sc_viol_files := %s; sc_notices := %s; sc_failed := %s; sc_skipped := %s; sc_num := %s |}' % (
        clist(cstr(f) for f in s['viol_files']),
        clist('{| n_key := %s; n_sev := %s |}' % (cstr(n['key']), cstr(n['sev'])) for n in s['notices']),
        cnat(s['failed']), cnat(s['skipped']), cnat(s['num']))


def c_viols(f, keys):
    """violations of file f as Coq [viol]s; the key is shortened to a digest (the Coq side only compares)"""
    return clist('{| v_file := %s; v_key := %s |}' % (cstr(f), cstr(hashlib.sha1(k.encode()).hexdigest()[:10])) for k in keys)


def c_ops_case(c):
    rows = clist('{| or_rule := %s; or_file := %s; or_off := %s; or_on := %s |}' % (
        cstr(r['rule']), cstr(r['file']),
        clist('{| v_file := %s; v_key := %s |}' % (cstr(v['file']), cstr(hashlib.sha1(v['key'].encode()).hexdigest()[:10])) for v in r['off']),
        clist('{| v_file := %s; v_key := %s |}' % (cstr(v['file']), cstr(hashlib.sha1(v['key'].encode()).hexdigest()[:10])) for v in r['on']))
        for r in c['ops'])
    # size-boundary workspaces tabulate the lint query for a few files only (probed): the model speaks about those
    probed = set(c['probed']) if c.get('probed') else None
    runs = clist('{| ro_n := %s; ro_file := %s; ro_viol := %s |}' % (cnat(len(s['files'])), cstr(f), c_viols(f, s['per_file'][f]))
                 for s in c['subsets'] if not s.get('err') for f in s['files'] if probed is None or f in probed)
    return '{| oc_table := %s; oc_runs := %s |}' % (rows, runs)


SEC_RE = re.compile(r'^\*\*(Avoid|Prefer)\*\*\s*$')


def docs_avoid_examples(repo):
    """the rego blocks of the **Avoid** section of every docs/rules/<category>/<rule>.md of the tree under test:
    a broad sample of modules that make ordinary rules report something"""
    out = []
    for path in sorted(glob.glob(os.path.join(repo, 'docs', 'rules', '*', '*.md'))):
        cat, rule = path.split(os.sep)[-2], os.path.basename(path)[:-3]
        sec, fence, acc, n = None, None, [], 0
        try:
            lines = open(path, encoding='utf-8', errors='replace').read().split('\n')
        except OSError:
            continue
        for ln in lines:
            if fence is not None:
                if ln.strip().startswith('```'):
                    if sec == 'Avoid' and fence == 'rego' and acc:
                        n += 1
                        if not any(l.startswith('package ') for l in acc):     # a fragment: give it a package
                            acc = ['package policy', ''] + acc
                        out.append({'name': 'docs/%s/%s_%d.rego' % (cat, rule.replace('-', '_'), n),
                                    'content': '\n'.join(acc) + '\n', 'source': 'docs'})
                    fence, acc = None, []
                else:
                    acc.append(ln)
                continue
            m = SEC_RE.match(ln)
            if m:
                sec = m.group(1)
            elif ln.startswith('## '):
                sec = None
            elif ln.strip().startswith('```'):
                fence = ln.strip()[3:].strip()
    return out


def rule_of_key(k):
    return k.split('@', 1)[0]


def gen_consts():
    """the constants goshape extracted from the tree of this run (same source as Gen/WalkConsts.v)"""
    p = subprocess.run([sys.executable, os.path.join(vlib.VERIF, 'tools', 'gen', 'linter_shape.py'), '--json'],
                       stdout=subprocess.PIPE, stderr=subprocess.PIPE, text=True, env=vlib.goenv(), cwd=vlib.VERIF, timeout=600)
    try:
        return json.loads(p.stdout)['walk']
    except Exception:
        return {'skip_names': SPEC_SKIP, 'suffix': SPEC_EXT}


def tree_size(n):
    return 1 + sum(tree_size(c) for c in (n.get('children') or []))


def shrink_tree(t):
    """drop what the replay does not need"""
    return {'tree': t['tree'], 'args': t['args'], 'ignore': t['ignore']}


def replay_trees(ctx, h, extra, cases, lint=False):
    """run the harness on explicit tree cases only; returns its records"""
    fx = {'trees': [dict(c, nolint=not lint) for c in cases], 'compose': []}
    fp = os.path.join(ctx.tmp, 'shrink.json')
    json.dump(fx, open(fp, 'w'))
    out = os.path.join(ctx.tmp, 'shrink.jsonl')
    rc, log = vlib.run([h, out, ctx.tier, os.path.join(ctx.tmp, 'ws'), ','.join(extra), fp, 'only'],
                       env=dict(os.environ, VERIF_SEED=str(ctx.seed)), timeout=600)
    if rc != 0:
        return []
    return [json.loads(l) for l in open(out)]


def tree_variants(n):
    """the tree with one node removed, all ways (root excluded)"""
    out = []
    ch = n.get('children') or []
    for i in range(len(ch)):
        out.append(dict(n, children=ch[:i] + ch[i + 1:]))
        for v in tree_variants(ch[i]):
            out.append(dict(n, children=ch[:i] + [v] + ch[i + 1:]))
    return out


def shrink_discovery(ctx, h, extra, case, bad):
    """greedy delta debugging: drop arguments, ignore patterns and tree nodes while the
    implementation still contradicts the specification on the case (predicate [bad] on the harness record)"""
    cur = case
    for _ in range(12):
        cands = []
        for i in range(len(cur['args'])):
            if len(cur['args']) > 1:
                cands.append(dict(cur, args=cur['args'][:i] + cur['args'][i + 1:]))
        for i in range(len(cur['ignore'])):
            cands.append(dict(cur, ignore=cur['ignore'][:i] + cur['ignore'][i + 1:]))
        for v in tree_variants(cur['tree']):
            cands.append(dict(cur, tree=v))
        cands = cands[:60]
        if not cands:
            break
        recs = replay_trees(ctx, h, extra, cands)
        nxt = None
        for c, r in zip(cands, recs):
            if bad(r):
                nxt = c
                break
        if nxt is None:
            break
        cur = nxt
    return cur


def run(ctx):
    import time
    phases, t0 = {}, [time.time()]

    def mark(name):
        phases[name] = round(time.time() - t0[0], 1)
        t0[0] = time.time()
    h = vlib.build_harness(ctx, 'c02')
    walk = gen_consts()
    extra = [s for s in walk.get('skip_names', []) if s not in SPEC_SKIP and '/' not in s and ',' not in s and s]
    fixed = {'trees': [], 'compose': [], 'pool': []}
    only = False
    if ctx.replay:
        rp = json.load(open(ctx.replay))
        c = rp.get('case', {})
        if 'tree' in c:
            fixed['trees'].append(c)
            only = True
        elif 'ws' in c:
            fixed['compose'].append(c['ws'])
            only = True
    if not only:
        for f in sorted(glob.glob(os.path.join(vlib.VERIF, 'corpus', 'C02', '*.json'))):
            c = json.load(open(f))
            if 'tree' in c:
                fixed['trees'].append(c)
            elif 'ws' in c:
                fixed['compose'].append(c['ws'])
            elif 'pool' in c:
                fixed['pool'] += [dict(x, source='trigger') for x in c['pool']]
        fixed['pool'] += docs_avoid_examples(vlib.REPO)
    fixed_path = os.path.join(ctx.tmp, 'fixed.json')
    json.dump(fixed, open(fixed_path, 'w'))
    out = os.path.join(ctx.tmp, 'c02.jsonl')
    cmd = [h, out, ctx.tier, os.path.join(ctx.tmp, 'w'), ','.join(extra), fixed_path] + (['only'] if only else [])
    rc, log = vlib.run(cmd, env=dict(os.environ, VERIF_SEED=str(ctx.seed)), timeout=3000)
    if rc != 0:
        raise RuntimeError('c02 harness failed: ' + log[-3000:])
    mark('build_and_harness')
    recs = [json.loads(l) for l in open(out)]
    trees = [r for r in recs if r['kind'] == 'tree']
    composes = [r for r in recs if r['kind'] == 'compose']
    pool = ([r for r in recs if r['kind'] == 'pool'] or [None])[0]
    sums = [t['summary'] for t in trees if t.get('summary')]
    for c in composes:
        cs = [s for s in (c.get('summaries') or []) if s]
        # size-boundary workspaces under linter options: the harness has checked every summary; Coq recomputes a sample
        sums += cs[:3] + [s for s in cs[3:] if s['bad']] if c.get('opts') else cs

    # ---- the property on the implementation's own outputs --------------------------------------
    explained = set()
    def bad_class(t):
        """the kind of contradiction (the text before the file name); a file that is not discovered at all first"""
        w = t.get('spec_bad') or ''
        for i, pre in enumerate(('silently skipped', 'an argument does not exist', 'every argument exists', 'unexpectedly included', 'discovered ')):
            if w.startswith(pre):
                return i, pre
        return 9, w.split(':')[0][:12]

    bad_trees = sorted([t for t in trees if t['spec_bad']], key=lambda t: (bad_class(t)[0], tree_size(t['tree'])))
    for t in bad_trees:
        explained.add(t['id'])
    for t in bad_trees[:1]:
        cls = bad_class(t)[1]     # shrinking keeps the kind of contradiction
        small = shrink_discovery(ctx, h, extra, shrink_tree(t), lambda r: (r.get('spec_bad') or '').startswith(cls))
        rr = replay_trees(ctx, h, extra, [small])
        r = rr[0] if rr and (rr[0].get('spec_bad') or '').startswith(cls) else t
        vlib.violation(ctx, {'kind': 'discovery-vs-spec', 'case': shrink_tree(r), 'what': r['spec_bad'],
                             'filtered': r['filtered'], 'expected': r['spec'], 'filter_error': r['filt_err'],
                             'n_cases_contradicting_the_specification': len(bad_trees)},
                       signature={'kind': 'discovery-vs-spec', 'key': json.dumps(shrink_tree(r), sort_keys=True)})
    for t in trees:
        s = t.get('summary')
        if s and s['bad']:
            explained.add(t['id'])
            vlib.violation(ctx, {'kind': 'summary-inconsistent', 'case': shrink_tree(t), 'what': s['bad'], 'summary': s},
                           signature={'kind': 'summary-inconsistent', 'key': json.dumps(shrink_tree(t), sort_keys=True)})
            break
    def ws_sig(ws):
        return hashlib.sha1(json.dumps(ws['files'], sort_keys=True).encode()).hexdigest()[:16]

    reported_compose = False
    for c in sorted(composes, key=lambda c: (len((c.get('min_ws') or c['ws'])['files']), c['id'])):
        bad_sum = [s for s in (c.get('summaries') or []) if s and s['bad']]
        if c['mismatch'] or bad_sum:
            kind = 'batch-vs-single' if c['mismatch'] else 'summary-inconsistent'
            ws = c.get('min_ws') if c['mismatch'] and c.get('min_ws') else c['ws']
            vlib.violation(ctx, {'kind': kind, 'case': {'ws': ws}, 'diff': c.get('diff'), 'source': c.get('source'),
                                 'linter_options': ws.get('opts') or [],
                                 'what': (c['mismatch'] or [bad_sum[0]['bad']])[0], 'all': c['mismatch'][:10]},
                           signature={'kind': kind, 'key': ws_sig(ws)})
            reported_compose = True
            break

    # H_ops / H_loc of c02_single_file_compose, rule by rule, on the lint query itself (no Go aggregation involved)
    ops_bad = []
    for c in composes:
        by_name = {f['name']: f for f in c['ws']['files']}
        for r in c.get('ops') or []:
            off = sorted(v['key'] for v in r['off'])
            on = sorted(v['key'] for v in r['on'])
            loc = [v for v in r['off'] + r['on'] if v['file'] != r['file']]
            if off != on or loc:
                ops_bad.append((c, r, by_name.get(r['file']), off, on, loc))
    ops_bad.sort(key=lambda t: (len(t[2]['content']) if t[2] else 0, t[1]['rule']))
    for c, r, f, off, on, loc in ops_bad[:1]:
        # the module plus the smallest other module of its workspace: linting the two together is a multi-file run
        others = sorted((x for x in c['ws']['files'] if f and x['name'] != f['name']), key=lambda x: (len(x['content']), x['name']))
        ws = dict(c['ws'], files=([f] + others[:1]) if f else c['ws']['files'])
        kind = 'ops-dependence' if off != on else 'report-outside-file'
        vlib.violation(ctx, {'kind': kind, 'case': {'ws': ws}, 'rule': r['rule'], 'file': r['file'],
                             'hypothesis': ('H_ops' if off != on else 'H_loc') + ' of c02_single_file_compose (Props/C02.v) for this rule',
                             'what': ('rule %s, file %s: the lint query reports %s without and %s with "collect" among '
                                      'input.regal.operations' % (r['rule'], r['file'], off, on)) if off != on else
                                     ('rule %s evaluated on %s reports in another file: %s' % (r['rule'], r['file'], loc)),
                             'rules_affected': sorted({t[1]['rule'] for t in ops_bad}), 'n_rows': len(ops_bad)},
                       signature={'kind': kind, 'key': r['rule'] + '|' + ws_sig(ws)})

    # every rule that defines both report and aggregate must have been triggered (else H_ops is untested for it)
    rules_info = (pool or {}).get('rules') or []
    both = sorted(r['rule'] for r in rules_info if r['report'] and r['aggregate'])
    alone_trig, multi_cmp, ops_rows = {}, {}, {}
    for c in composes:
        singles = {s['files'][0]: s for s in c['subsets'] if len(s['files']) == 1 and not s.get('err')}
        for f, sr in singles.items():
            for rl in {rule_of_key(k) for k in sr['per_file'][f]}:
                alone_trig.setdefault(rl, set()).add(hashlib.sha1(next(x['content'] for x in c['ws']['files'] if x['name'] == f).encode()).hexdigest())
        for sr in c['subsets']:
            if len(sr['files']) < 2 or sr.get('err'):
                continue
            for f in sr['files']:
                if f in singles:
                    for rl in {rule_of_key(k) for k in singles[f]['per_file'][f]}:
                        multi_cmp[rl] = multi_cmp.get(rl, 0) + 1
        for r in c.get('ops') or []:
            if r['off']:
                ops_rows[r['rule']] = ops_rows.get(r['rule'], 0) + 1
    h_ops_tested = {rl: {'distinct_modules_triggering_it_alone': len(alone_trig.get(rl, ())),
                         'multi_file_runs_compared_with_alone': multi_cmp.get(rl, 0),
                         'query_rows_with_and_without_collect': ops_rows.get(rl, 0)} for rl in both}
    if not only:
        untested = [rl for rl in both if not alone_trig.get(rl) or not multi_cmp.get(rl) or not ops_rows.get(rl)]
        if untested or not pool:
            vlib.violation(ctx, {'kind': 'h_ops-untested', 'rules': untested,
                                 'what': 'rules defining both `report` and `aggregate` whose single-file findings no module of the '
                                         'composition workspaces triggers: H_ops of c02_single_file_compose is not tested for them '
                                         '(add a trigger module to corpus/C02/pool_triggers.json)' if pool else
                                         'the harness did not report the rules of the bundle'}, no_input=True)

    # ---- correspondence with the model -----------------------------------------------------------
    hdr = ['From Regal Require Import Check.C02Check.', 'Open Scope N_scope.']
    v = ['Definition trees : list (tree_case * bool) := ' + clist('(%s, %s)' % (c_tree_case(t), cbool(t['linted'])) for t in trees) + '.',
         'Definition R1 := Eval vm_compute in failing1 (fun c => discover_agrees (fst c)) 0 trees.',
         'Definition R2 := Eval vm_compute in failing1 (fun c => scanned_agrees (fst c) (snd c)) 0 trees.',
         'Definition R4 := Eval vm_compute in failing1 (fun c => in_model (fst c)) 0 trees.',
         'Print R1. Print R2. Print R4.']
    v3 = ['Definition sums : list sum_case := ' + clist(c_sum_case(s) for s in sums) + '.',
          'Definition R3 := Eval vm_compute in failing1 summary_agrees 0 sums.', 'Print R3.']
    v2 = ['Definition opsc : list ops_case := ' + clist(c_ops_case(c) for c in composes) + '.',
         'Definition R5 := Eval vm_compute in failing1 hops_holds 0 opsc.',
         'Definition R6 := Eval vm_compute in failing1 hloc_holds 0 opsc.',
         'Definition R7 := Eval vm_compute in failing1 router_agrees 0 opsc.',
         'Print R5. Print R6. Print R7.']
    mark('predicates')
    phases['case_file_kb'] = sum(len(x) for x in v + v2 + v3) // 1024
    # two case files side by side (discovery + summaries / router tables): Coq reads literals slowly
    from concurrent.futures import ThreadPoolExecutor
    with ThreadPoolExecutor(max_workers=3) as ex:
        outs = list(ex.map(lambda a: vlib.coq_eval(ctx, a[0], '\n'.join(hdr + a[1])),
                           [('Cases_C02', v), ('Cases_C02_ops', v2), ('Cases_C02_sums', v3)]))
    mark('coq_eval')
    for rc, co in outs:
        if rc != 0:
            raise RuntimeError('case evaluation failed:\n' + co[-3000:])
    cout = '\n'.join(co for _, co in outs)
    r1 = vlib.parse_nat_list(cout, 'R1') or []
    r2 = vlib.parse_nat_list(cout, 'R2') or []
    r3 = vlib.parse_nat_list(cout, 'R3') or []
    r4 = vlib.parse_nat_list(cout, 'R4') or []
    r5 = vlib.parse_nat_list(cout, 'R5') or []
    r6 = vlib.parse_nat_list(cout, 'R6') or []
    r7 = vlib.parse_nat_list(cout, 'R7') or []
    for name, idxs, rel in (('discover', r1, 'Check.C02Check.discover_agrees: FilterIgnoredPaths = Model.Discover.discover (exact list)'),
                            ('scanned', r2, 'Check.C02Check.scanned_agrees: files_scanned / error of Linter.Lint = model')):
        cand = sorted([trees[i] for i in idxs if trees[i]['id'] not in explained], key=lambda t: tree_size(t['tree']))
        for t in cand[:1]:
            vlib.violation(ctx, {'kind': 'correspondence', 'relation': rel, 'case': shrink_tree(t), 'filtered': t['filtered'],
                                 'filt_err': t['filt_err'], 'scanned': t['scanned'], 'lint_err': t['lint_err'], 'n_mismatches': len(idxs),
                                 'model_out_of_domain': trees.index(t) in r4}, no_input=True)
    if r3 and not any(s['bad'] for s in sums):
        vlib.violation(ctx, {'kind': 'correspondence', 'relation': 'Check.C02Check.summary_agrees (finalize summary vs observed report)',
                             'case': sums[r3[0]]}, no_input=True)
    # the Coq side must see exactly the H_ops / H_loc failures found above ...
    py_bad = sorted({composes.index(t[0]) for t in ops_bad})
    if sorted(set(r5) | set(r6)) != py_bad:
        vlib.violation(ctx, {'kind': 'correspondence', 'relation': 'Check.C02Check.hops_holds / hloc_holds vs the harness',
                             'coq': sorted(set(r5) | set(r6)), 'harness': py_bad}, no_input=True)
    # ... and the router model over the tabulated rule bodies must predict every observed run
    if r7 and not reported_compose and not ops_bad:
        c = composes[r7[0]]
        vlib.violation(ctx, {'kind': 'correspondence', 'relation': 'Check.C02Check.router_agrees: per-file violations of Linter.Lint over n files '
                             '= Model.Router.router_report over the rule bodies the lint query yields for the file (collect iff n > 1)',
                             'case': {'ws': c['ws']}, 'n_mismatches': len(r7), 'ops_err': c.get('ops_err')}, no_input=True)
    proof_gate(ctx, 'c02_walk_constants_of_this_tree depends on Gen/WalkConsts.v (skip-directory names and suffix extracted from '
                    'internal/io/io.go and pkg/config/filter.go)')

    hist = {}
    for t in trees:
        k = 'discovered=%s' % ('error' if t['filt_err'] else min(len(t['filtered']), 6))
        hist[k] = hist.get(k, 0) + 1
    for c in composes:
        k = 'compose_files=%d' % len(c['ws']['files'])
        hist[k] = hist.get(k, 0) + 1
    distinct = len({json.dumps(shrink_tree(t), sort_keys=True) for t in trees if not t['filt_err'] and len(t['filtered']) > 0})
    nsub = sum(len(c['subsets']) for c in composes)
    trig_rules = sorted(alone_trig)
    src_hist = {}
    for c in composes:
        src_hist[c.get('source', '?')] = src_hist.get(c.get('source', '?'), 0) + 1
    cov = proof_coverage(ctx, {
        'evaluations': len(trees) + nsub + len(sums),
        'distinct_nontrivial': distinct + sum(1 for c in composes for s in c['subsets'] if len(s['files']) >= 2),
        'rule': 'distinct (tree, arguments, ignore patterns) cases in which FilterIgnoredPaths discovered at least one file, plus the '
                'distinct multi-file blocks linted for the batch-vs-single comparison; every tree case is compared with the Coq model '
                '(exact discovered list) and with an independent Go rendering of the specification',
        'tree_cases': len(trees), 'tree_cases_linted': sum(1 for t in trees if t['linted']), 'tree_cases_out_of_model': len(r4),
        'compose_cases': len(composes), 'subsets_linted': nsub, 'partitions_checked': sum(c['partitions'] for c in composes),
        'reports_summary_checked': len(sums),
        'compose_sources': src_hist,
        'size_boundary_workspaces': sorted(c['sized'] for c in composes if c.get('sized') and not c.get('opts')),
        'linter_option_sets': (pool or {}).get('option_sets') or [],
        'size_boundary_workspaces_under_linter_options': [
            {'opts': c['opts'], 'files': c['sized'], 'runs_over_all_files': c['ws'].get('repeat', 1),
             'file_run_pairs': sum(len(s['files']) for s in c['subsets'] if not s.get('err') and len(s['files']) > 1)}
            for c in composes if c.get('sized') and c.get('opts')],
        'compose_workspaces_under_linter_options': [{'opts': c['ws'].get('opts'), 'files': len(c['ws']['files']), 'lints': len(c['subsets'])}
                                                    for c in composes if c.get('source') == 'generated-opts'],
        'size_boundary_files_checked_per_file': sum(len(s['files']) for c in composes if c.get('sized') for s in c['subsets'] if not s.get('err') and len(s['files']) > 1),
        'pool_modules_offered': (pool or {}).get('offered', 0), 'pool_modules_unparsable': (pool or {}).get('unparsable', []),
        'bundled_rules': len(rules_info), 'rules_with_report_and_aggregate': both, 'h_ops_tested': h_ops_tested,
        'rules_triggered_by_a_module_linted_alone': len(trig_rules), 'rules_triggered': trig_rules,
        'rules_never_triggered': sorted(r['rule'] for r in rules_info if r['report'] and r['rule'] not in alone_trig),
        'rules_probed_with_and_without_collect': len({r['rule'] for c in composes for r in (c.get('ops') or []) if r['off']}),
        'ops_rows': sum(len(c.get('ops') or []) for c in composes), 'ops_probe_errors': sum(len(c.get('ops_err') or []) for c in composes),
        'mismatch_hops': len(r5), 'mismatch_hloc': len(r6), 'mismatch_router': len(r7), 'extra_dir_names_from_gen': extra,
        'mismatch_discover': len(r1), 'mismatch_scanned': len(r2), 'mismatch_summary': len(r3),
        'spec_contradictions': len(bad_trees), 'histogram': hist, 'phase_seconds': phases,
        'samples': [shrink_tree(t) for t in trees[:1]] + [{'filtered': trees[0]['filtered']}] if trees else [],
        'exhaustive': False,
    })
    return vlib.finish(ctx, 'proof', cov, [
        'the file system is a tree of named nodes (no symbolic links, permissions, or concurrent modification)',
        'glob matching (excludeFile/gobwas) is an oracle, tabulated per (pattern, file) with the real matcher',
        'H_ops / H_loc of c02_single_file_compose (every rule the router runs yields the same findings with and without the collect '
        'operation, located in its own file) are tested, not proved: rule by rule on the lint query evaluated twice per module '
        '(hops_holds/hloc_holds), and end to end by the batch-vs-single comparison of Linter.Lint runs; the rules defining both '
        'report and aggregate are listed under rules_with_report_and_aggregate and each must have been triggered',
        'the optional features of the linter (metrics, instrumentation, profiling, base cache, print hook, debug mode, exported '
        'aggregates, collect query) are sampled: every single one, all of them together and a few combinations (every pair in the '
        'thorough tier), not the full cross product; a defect that needs a particular interleaving of the per-file goroutines is '
        'looked for by repetition (GOMAXPROCS = number of CPUs), not excluded',
        'files_failed counts the empty file name of location-less aggregate violations as a file (so it can exceed files_scanned); '
        'the theorem states it as the number of distinct Location.File values',
    ])
