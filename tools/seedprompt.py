#!/usr/bin/env python3
"""prints the prompt given to a fresh seeding sub-agent for one property (only the property text and a worktree path;
nothing from /verif)"""
import json, sys
pid = sys.argv[1]
import glob, os
prev = []
for f in sorted(glob.glob('/verif/seeded/%s-*/meta.json' % pid)):
    prev.append(json.load(open(f)).get('breaks', ''))
ALREADY = ''
if prev and len(sys.argv) > 2:
    ALREADY = '\n\nOther testers already produced the following changes; yours must be DIFFERENT in mechanism and in the part of the code they touch:\n' + '\n'.join(' - ' + x for x in prev)
wt = '/tmp/seed-' + pid.lower()
for l in open('/verif/properties.jsonl'):
    p = json.loads(l)
    if p['id'] == pid:
        break
TEXT = (f'''You are helping test a verification setup by writing realistic *breaking changes* (seeded bugs) for the Go project StyraInc/regal (a Rego linter / fixer / language server). Work ONLY inside the git worktree {wt} (a checkout of the project; do not touch /repo or /verif, do not read anything under /verif).

Go environment (no network): `export GO=/root/go/pkg/mod/golang.org/toolchain@v0.0.1-go1.24.0.linux-amd64/bin/go GOTOOLCHAIN=local GOFLAGS=-mod=mod GOPROXY=off GOSUMDB=off` then `$GO build ./...`, `$GO test -vet=off -count=1 ./pkg/... ./internal/... ./cmd/...`. Rego (.rego) files under bundle/ are embedded into the binary (go:embed), so Rego edits take effect on rebuild; Rego unit tests: `$GO run . test bundle`. The machine is shared and may be loaded; be patient (internal/lsp tests have a known timing flake under load: re-run if only a timeout fails).

The property your changes must break:
"{p['title']}. {p['statement']}" (quantified: {p['quantifier']['text']}). Relevant code: {', '.join(p['anchors']['files'])}.

{{ALREADY_PLACEHOLDER}}Produce TWO different, independent changes (each a small edit a developer could plausibly make by mistake or as a "simplification"/"optimisation"), each of which:
 - still compiles and passes the existing test suite (Go tests; and `regal test bundle` if you touch Rego),
 - breaks the property, but only for something specific to manifest (a particular interleaving, a crash or fault at a particular point, a multi-step sequence of operations, an unusual input, a particular configuration shape, or two cooperating sites that each look fine alone) — NOT something that ordinary use would expose at once,
 - comes with a demonstration: a Go test file (or small program/script) that FAILS with your change applied and PASSES on the unchanged code.

For each change write into /tmp/seed-{pid.lower()}-out/<n>/ (n = 1, 2): `patch.diff` (`git diff` of the source change only, without the demonstration), `demo_test.go` (first lines: a comment `// Place this file in: <package dir>/` and `// Run with: go test -vet=off -count=1 -run '<TestName>' ./<package dir>/`), `README.md` (what the change does, which part of the property it breaks, what exactly is needed for it to manifest, commands run and results on changed and unchanged code). After saving each change, reset the worktree (`git checkout -- . && git clean -fd`). Never use `git stash` (the stash is shared between all worktrees of the repository and other agents use it concurrently). Finish with a short summary.''')
print(TEXT.replace('{ALREADY_PLACEHOLDER}', (ALREADY.strip() + '\n\n') if ALREADY else ''))
